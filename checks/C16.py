#!/usr/bin/env python3
"""C16 — tokens: theorems about the decision logic (coq/Props/C16.v) under the MAC idealisation; a forger
in the driver builds real tokens from abstract descriptions and presents them to the api verifiers and
routes; accept/reject/user must equal the extracted model, and the property's own predicates are
evaluated on the implementation's answers."""
import os, sys, itertools
sys.path.insert(0, os.path.join(os.path.dirname(os.path.abspath(__file__)), "..", "lib"))
import vf

ACCESS_TS, REFRESH_TS = 86400, 604800
FIELDS = ["present", "alg", "key", "intact", "sub_k", "sub_v", "exp_k", "exp_v", "cli_k", "cli_v", "typ_k", "typ_v", "eml_k", "eml_v", "ctx_k", "ctx_v", "nbf", "iat"]
IDX = {f: i for i, f in enumerate(FIELDS)}
GUEST, SYSOP, TEST1, TEST3 = 1, 2, 3, 4   # pool indices; index 2 is the fixture user 'Ptt', who holds PERM_SYSOP|PERM_ACCOUNTS


def tok(**kw):
    d = dict(present=1, alg=0, key=0, intact=1, sub_k=1, sub_v=TEST1, exp_k=2, exp_v=3600, cli_k=1, cli_v=1, typ_k=0, typ_v=0, eml_k=0, eml_v=0, ctx_k=0, ctx_v=0, nbf=0, iat=0)
    d.update(kw)
    return [d[f] for f in FIELDS]


NONE = [0] * len(FIELDS)


def access(user=TEST1, off=3600, **kw):
    return tok(sub_v=user, exp_v=off, **kw)


def refresh_t(user=TEST1, off=3600 + REFRESH_TS - ACCESS_TS, **kw):
    return tok(key=1, sub_v=user, exp_v=off, typ_k=1, typ_v=1, **kw)


def email_t(user=TEST1, ctx=1, eml=1, off=3600, **kw):
    return tok(key=2, sub_v=user, exp_v=off, eml_k=1, eml_v=eml, ctx_k=1, ctx_v=ctx, **kw)


SINGLE = {
    "alg": [0, 1, 2, 3, 4], "key": [0, 1, 2, 3], "intact": [1, 0, 2, 3, 4],
    "sub": [(0, 0), (1, 0), (1, GUEST), (1, SYSOP), (1, TEST1), (1, TEST3), (4, 0)],
    "exp": [(0, 0), (3, 0), (4, 0), (2, -90000), (2, -3600), (2, -40), (2, 40), (2, 3600), (2, ACCESS_TS), (2, REFRESH_TS), (2, 8 * 86400)],
    "cli": [(0, 0), (1, 0), (1, 1), (1, 2), (4, 0)],
    "typ": [(0, 0), (1, 0), (1, 1), (1, 2), (4, 0)],
    "eml": [(0, 0), (1, 1), (1, 2), (4, 0)],
    "ctx": [(0, 0), (1, 0), (1, 1), (1, 2), (1, 3), (4, 0)],
    "nbf": [0, 1], "iat": [0, 1],
}


def mutate(t, field, val):
    t = list(t)
    if isinstance(val, tuple):
        t[IDX[field + "_k"]], t[IDX[field + "_v"]] = val
    else:
        t[IDX[field]] = val
    return t


def variants(base, rng, pairs):
    out = [base]
    for f, vals in SINGLE.items():
        for v in vals:
            out.append(mutate(base, f, v))
    fs = list(SINGLE)
    for _ in range(pairs):
        f1, f2 = rng.sample(fs, 2)
        out.append(mutate(mutate(base, f1, rng.choice(SINGLE[f1])), f2, rng.choice(SINGLE[f2])))
    return out


def properly_made(t, key, now_off_positive=True):
    """the abstract description says: HMAC header, signed with `key`, unaltered, numeric expiry in the future, no future nbf/iat"""
    return (t[0] == 1 and t[IDX["alg"]] in (0, 1, 2) and t[IDX["key"]] == key and t[IDX["intact"]] == 1
            and t[IDX["exp_k"]] == 2 and t[IDX["exp_v"]] > 0 and t[IDX["nbf"]] == 0 and t[IDX["iat"]] == 0)


def sub_of(t):
    return t[IDX["sub_v"]] if t[IDX["sub_k"]] == 1 else (0 if t[IDX["sub_k"]] == 0 else None)


def line(op, params, *toks):
    return "%d|%s|%s" % (op, " ".join(map(str, params)), "|".join(" ".join(map(str, t)) for t in toks))


def to_model(op, params, toks, now):
    """absolute times for the model: exp offset -> now + offset"""
    mt = []
    for t in toks:
        t = list(t)
        if t[IDX["exp_k"]] == 2:
            t[IDX["exp_v"]] = now + t[IDX["exp_v"]]
        mt.append(t)
    return line(op, [now] + list(params), *mt)


def main():
    c = vf.Check("C16")
    rng = c.rng
    thorough = c.tier == "thorough"
    c.prove()
    model_ok = c.model_ok()
    impl = vf.build_impl()
    model = vf.build_model("C16") if model_ok else None
    pairs = 1500 if thorough else 150

    cases = []   # (op, params, toks, model-params-fn)
    bases = [access(), refresh_t(), email_t(ctx=1), email_t(ctx=2), access(user=SYSOP), access(user=GUEST)]
    singles = []
    for b in bases:
        singles += variants(b, rng, pairs)
    singles.append(NONE)
    for t in singles:                                                       # every token at every verifier (cross-use of kinds)
        cases.append((1, [0], [t])); cases.append((1, [1], [t])); cases.append((2, [], [t]))
        cases.append((3, [1], [t])); cases.append((3, [2], [t])); cases.append((4, [], [t]))
    n_single = len(cases)
    # refresh: pairs around the epsilon window, users, client infos, plus mutations of either token
    for d in (-4, -3, -2, -1, 0, 1, 2, 3, 4, 100, -100):
        for ua, ur in ((TEST1, TEST1), (TEST1, TEST3), (SYSOP, SYSOP)):
            for pcli, acli, rcli in ((1, 1, 1), (2, 1, 1), (2, 2, 1), (2, 2, 0), (0, 1, 2), (1, 2, 2)):
                a = access(user=ua, off=3600, cli_v=acli)
                r = refresh_t(user=ur, off=3600 + REFRESH_TS - ACCESS_TS + d, cli_k=1 if rcli else 0, cli_v=rcli)
                cases.append((5, [pcli], [a, r]))
    for a in variants(access(), rng, pairs // 3):
        cases.append((5, [1], [a, refresh_t()]))
    for r in variants(refresh_t(), rng, pairs // 3):
        cases.append((5, [1], [access(), r]))
    cases.append((5, [1], [NONE, refresh_t()])); cases.append((5, [1], [access(), NONE])); cases.append((5, [1], [NONE, NONE]))
    cases.append((5, [1], [refresh_t(), access()]))                          # the pair swapped
    cases.append((5, [1], [access(off=-10), refresh_t(off=REFRESH_TS - ACCESS_TS - 10)]))   # expired access token with its matching refresh token
    # token info
    callers = [access(), access(user=SYSOP), NONE, access(intact=0), access(off=-3600), refresh_t()]
    for a in callers:
        for b in [access(), access(user=SYSOP), access(user=TEST3), NONE, access(off=-3600), access(key=3), refresh_t(), email_t(), access(alg=3)]:
            cases.append((6, [], [a, b]))
    # e-mail token consumers
    ems = []
    for base in (email_t(ctx=1), email_t(ctx=2)):
        ems += variants(base, rng, pairs // 5)
    for a in [access(), access(user=SYSOP), access(user=TEST3), NONE, access(intact=2), access(off=-3600)]:
        for path_user in (GUEST, SYSOP, TEST1, TEST3):
            for route in (0, 1):
                sel = ems if (a == access() and path_user == TEST1) else [email_t(ctx=1), email_t(ctx=2), email_t(user=path_user, ctx=1), email_t(user=path_user, ctx=2), email_t(user=path_user, ctx=route + 1, off=-3600), NONE]
                for e in sel:
                    cases.append((7, [path_user, route], [a, e]))
    lines = [line(op, ps, *ts) for op, ps, ts in cases]
    io = vf.run_impl(impl, "C16", lines, deadline_ms=20000)
    c.count(len(lines))
    for op in range(1, 8):
        c.cov["distribution"]["op%d" % op] = sum(1 for cs in cases if cs[0] == op)

    # ---- model on the same cases (absolute times taken from the implementation's clock reading)
    mlines, canon = [], []
    for (op, ps, ts), o in zip(cases, io):
        f = o.split()
        now = int(f[-1])
        body = f[:-1]
        if op == 7:
            # caller_is_admin is an input of the model: the effective caller is SYSOP
            a = ts[0]
            eff = sub_of(a) if properly_made(a, 0) else GUEST
            if a[0] == 0:
                eff = GUEST
            adm = 1 if eff == SYSOP else 0
            mlines.append(to_model(7, [ps[0], ps[1] + 1, adm, 1 if ps[1] == 1 else 0], ts, now))
        else:
            mlines.append(to_model(op, ps, ts, now))
        canon.append(body)
    if model:
        mo = vf.run_model(model, mlines)
        cmp_i, cmp_m = [], []
        for (op, ps, ts), b, m in zip(cases, canon, mo):
            m = m.split()
            if op == 7 and len(b) >= 3 and b[1] == "1" and b[2] == "-1":
                m = m[:2] + ["-1"]          # guard passed, request failed later: the e-mail is not observable
            cmp_i.append(" ".join(b)); cmp_m.append(" ".join(m))
        vf.correspond(c, "api verifiers/routes vs Model/C16", lines, cmp_i, cmp_m)

    # ---- the property's own predicates on the implementation's answers
    for (op, ps, ts), b, ln in zip(cases, canon, lines):
        rep = {"cases": [ln], "got": " ".join(b)}
        if b[0] != "0":
            c.violation("verifier-crash", "verifier crashed/hung on a forged token (status %s)" % b[0], rep)
            continue
        t = ts[0]
        c.nontrivial((op, tuple(ps), tuple(map(tuple, ts))))
        if op in (1, 2, 3):
            key = {1: 0, 2: 1, 3: 2}[op]
            acc = b[1] == "1"
            if acc and t[0] == 1:
                if not (t[IDX["alg"]] in (0, 1, 2) and t[IDX["key"]] == key and t[IDX["intact"]] == 1 and t[IDX["nbf"]] == 0 and t[IDX["iat"]] == 0):
                    c.violation("forged-token-accepted", "verifier %d accepted a token that was not HMAC-signed intact with its secret: %s" % (op, dict(zip(FIELDS, t))), rep)
                elif (op != 1 or ps[0] == 1 or True) and not (t[IDX["exp_k"]] == 2 and t[IDX["exp_v"]] > 0) and not (op == 1 and ps[0] == 0 and t[IDX["exp_k"]] in (0, 3)):
                    c.violation("expired-token-accepted", "verifier %d accepted an expired / expiry-less token: %s" % (op, dict(zip(FIELDS, t))), rep)
                elif int(b[2]) != sub_of(t):
                    c.violation("wrong-user", "verifier %d returned user %s for a token issued to %s" % (op, b[2], sub_of(t)), rep)
                if op == 2 and not (t[IDX["typ_k"]] == 1 and t[IDX["typ_v"]] == 1):
                    c.violation("wrong-kind-accepted", "refresh verifier accepted a token whose typ is not refresh", rep)
                if op == 3 and not (t[IDX["ctx_k"]] == 1 and t[IDX["ctx_v"]] == ps[0]):
                    c.violation("wrong-context-accepted", "e-mail verifier accepted a token of another context", rep)
        if op == 4:
            u = int(b[1])
            if u != GUEST and not (properly_made(t, 0) and sub_of(t) == u):
                c.violation("request-runs-as-user", "a request ran as user %d with a token that is not a valid access token of that user: %s" % (u, dict(zip(FIELDS, t))), rep)
        if op == 5 and b[1] == "1":
            a, r = ts
            ok = properly_made(a, 0) and properly_made(r, 1) and r[IDX["typ_k"]] == 1 and r[IDX["typ_v"]] == 1 and sub_of(a) == sub_of(r)
            if not ok or int(b[2]) != sub_of(r):
                c.violation("refresh-accepted", "refresh succeeded (result user %s) without a matching valid access/refresh pair of one user" % b[2], rep)
            elif abs((r[IDX["exp_v"]] - a[IDX["exp_v"]]) - (REFRESH_TS - ACCESS_TS)) > 2:
                c.violation("refresh-unpaired", "refresh succeeded for tokens that were not issued together", rep)
        if op == 6 and b[1] == "1":
            a, bt = ts
            if not ((properly_made(bt, 0) and sub_of(bt) == int(b[2])) or (bt[0] == 0 and int(b[2]) == GUEST)):   # no token at all is the guest
                c.violation("token-info-leak", "token info returned for an invalid token", rep)
        if op == 7 and b[1] == "1":
            a, e = ts
            path_user, route = ps
            eff = sub_of(a) if (a[0] == 1 and properly_made(a, 0)) else GUEST
            ok = (properly_made(e, 2) and e[IDX["ctx_k"]] == 1 and e[IDX["ctx_v"]] == route + 1 and sub_of(e) == path_user
                  and path_user != GUEST and (eff == path_user or (route == 1 and eff == SYSOP)))
            if not ok:
                c.violation("email-applied-without-token", "e-mail change/id-email set for user %d passed the guard without a valid e-mail token of that context and user presented by the user (or an administrator where allowed)" % path_user, rep)
            elif b[2] != "-1" and int(b[2]) != (e[IDX["eml_v"]] if e[IDX["eml_k"]] == 1 else 0):
                c.violation("email-not-from-token", "the applied e-mail is not the token's", rep)
    c.sample({"op": "VerifyJwt(check)", "token": dict(zip(FIELDS, cases[0][2][0])), "impl": io[0]})
    k = n_single + 5
    c.sample({"op": "/refresh", "params": cases[k][1], "access": dict(zip(FIELDS, cases[k][2][0])), "refresh": dict(zip(FIELDS, cases[k][2][1])), "impl": io[k]})
    c.cov["exhaustive_parts"] = ["every single-field mutation of a valid access / refresh / e-mail(2 contexts) token, each presented to all six verifiers/wrappers",
                                 "refresh expiry distances -4..+4 s around the pairing window x user pairs x client-info combinations"]
    c.finish(rule="base tokens x all single-field mutations (algorithm header, signing key, 4 kinds of alteration, each claim absent/mistyped/alternative, expiry offsets from -25h to +8d, nbf/iat) + PRNG(seed) double mutations, "
                  "cross-presented to every verifier; refresh / token-info / e-mail consumers driven through an in-process gin router; distinct = distinct (operation, parameters, token descriptions)",
             assumptions=["MAC idealisation: a token verifies under a secret iff it was signed with it and not altered (HMAC unforgeability, golang-jwt's parser) — built into Model/C16.lib_accepts",
                          "the three configured secrets are distinct (api/00-config.go defaults)", "expiry offsets keep 30 s away from the clock so that no case straddles a second boundary"])


if __name__ == "__main__":
    main()
