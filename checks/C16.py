#!/usr/bin/env python3
"""C16 — tokens: theorems about the decision logic (coq/Props/C16.v) under the MAC idealisation; a forger
in the driver builds real tokens from abstract descriptions and presents them to the api verifiers and
routes; accept/reject/user must equal the extracted model, and the property's own predicates are
evaluated on the implementation's answers. The premise of the wrong-kind theorems (pairwise distinct secrets)
is observed after every way of configuring the server (package defaults, every shipped ini file, every subset
of the three secrets set by a site) and the cross-kind matrix is repeated under the secrets then in force.
Histories: whole sequences of presentations run in ONE driver process (the same tokens again and again at every verifier and
wrapper, the server's own clock passing the exp of genuine short-lived tokens between two presentations, thousands of distinct
genuine tokens verified in between and presented again); every step is judged from the clock readings before/after it."""
import os, sys, itertools, glob, shutil, tempfile
sys.path.insert(0, os.path.join(os.path.dirname(os.path.abspath(__file__)), "..", "lib"))
import vf

ACCESS_TS, REFRESH_TS = 86400, 604800
FIELDS = ["present", "alg", "key", "intact", "sub_k", "sub_v", "exp_k", "exp_v", "cli_k", "cli_v", "typ_k", "typ_v", "eml_k", "eml_v", "ctx_k", "ctx_v", "nbf", "iat"]
IDX = {f: i for i, f in enumerate(FIELDS)}
GUEST, SYSOP, TEST1, TEST3 = 1, 2, 3, 4   # pool indices; index 2 is the fixture user 'Ptt', who holds PERM_SYSOP|PERM_ACCOUNTS


def tok(**kw):
    d = dict(present=1, alg=0, key=0, intact=1, sub_k=1, sub_v=TEST1, exp_k=2, exp_v=3600, cli_k=1, cli_v=1, typ_k=0, typ_v=0, eml_k=0, eml_v=0, ctx_k=0, ctx_v=0, nbf=0, iat=0)
    d.update(kw)
    return [d[f] for f in FIELDS]


NONE = [0] * len(FIELDS)


def access(user=TEST1, off=3600, **kw):
    return tok(sub_v=user, exp_v=off, **kw)


def refresh_t(user=TEST1, off=3600 + REFRESH_TS - ACCESS_TS, **kw):
    return tok(key=1, sub_v=user, exp_v=off, typ_k=1, typ_v=1, **kw)


def email_t(user=TEST1, ctx=1, eml=1, off=3600, **kw):
    return tok(key=2, sub_v=user, exp_v=off, eml_k=1, eml_v=eml, ctx_k=1, ctx_v=ctx, **kw)


SINGLE = {
    "alg": [0, 1, 2, 3, 4], "key": [0, 1, 2, 3], "intact": [1, 0, 2, 3, 4],
    "sub": [(0, 0), (1, 0), (1, GUEST), (1, SYSOP), (1, TEST1), (1, TEST3), (4, 0)],
    "exp": [(0, 0), (3, 0), (4, 0), (2, -90000), (2, -3600), (2, -40), (2, 40), (2, 3600), (2, ACCESS_TS), (2, REFRESH_TS), (2, 8 * 86400)],
    "cli": [(0, 0), (1, 0), (1, 1), (1, 2), (4, 0)],
    "typ": [(0, 0), (1, 0), (1, 1), (1, 2), (4, 0)],
    "eml": [(0, 0), (1, 1), (1, 2), (4, 0)],
    "ctx": [(0, 0), (1, 0), (1, 1), (1, 2), (1, 3), (4, 0)],
    "nbf": [0, 1], "iat": [0, 1],
}


def mutate(t, field, val):
    t = list(t)
    if isinstance(val, tuple):
        t[IDX[field + "_k"]], t[IDX[field + "_v"]] = val
    else:
        t[IDX[field]] = val
    return t


def variants(base, rng, pairs):
    out = [base]
    for f, vals in SINGLE.items():
        for v in vals:
            out.append(mutate(base, f, v))
    fs = list(SINGLE)
    for _ in range(pairs):
        f1, f2 = rng.sample(fs, 2)
        out.append(mutate(mutate(base, f1, rng.choice(SINGLE[f1])), f2, rng.choice(SINGLE[f2])))
    return out


def properly_made(t, key, now_off_positive=True):
    """the abstract description says: HMAC header, signed with `key`, unaltered, numeric expiry in the future, no future nbf/iat"""
    return (t[0] == 1 and t[IDX["alg"]] in (0, 1, 2) and t[IDX["key"]] == key and t[IDX["intact"]] == 1
            and t[IDX["exp_k"]] == 2 and t[IDX["exp_v"]] > 0 and t[IDX["nbf"]] == 0 and t[IDX["iat"]] == 0)


def sub_of(t):
    return t[IDX["sub_v"]] if t[IDX["sub_k"]] == 1 else (0 if t[IDX["sub_k"]] == 0 else None)


def line(op, params, *toks):
    return "%d|%s|%s" % (op, " ".join(map(str, params)), "|".join(" ".join(map(str, t)) for t in toks))


def to_model(op, params, toks, now):
    """absolute times for the model: exp offset -> now + offset"""
    mt = []
    for t in toks:
        t = list(t)
        if t[IDX["exp_k"]] == 2:
            t[IDX["exp_v"]] = now + t[IDX["exp_v"]]
        mt.append(t)
    return line(op, [now] + list(params), *mt)

def judge(c, op, ps, ts, b, ln, report):
    """the property's own predicates on one answer of the implementation; report(key, description, replay)"""
    rep = {"cases": [ln], "got": " ".join(b)}
    if b[0] != "0":
        report("verifier-crash", "verifier crashed/hung on a forged token (status %s)" % b[0], rep)
        return
    t = ts[0]
    c.nontrivial((op, tuple(ps), tuple(map(tuple, ts))))
    if op in (1, 2, 3):
        key = {1: 0, 2: 1, 3: 2}[op]
        acc = b[1] == "1"
        if acc and t[0] == 1:
            if not (t[IDX["alg"]] in (0, 1, 2) and t[IDX["key"]] == key and t[IDX["intact"]] == 1 and t[IDX["nbf"]] == 0 and t[IDX["iat"]] == 0):
                report("forged-token-accepted", "verifier %d accepted a token that was not HMAC-signed intact with its secret: %s" % (op, dict(zip(FIELDS, t))), rep)
            elif (op != 1 or ps[0] == 1 or True) and not (t[IDX["exp_k"]] == 2 and t[IDX["exp_v"]] > 0) and not (op == 1 and ps[0] == 0 and t[IDX["exp_k"]] in (0, 3)):
                report("expired-token-accepted", "verifier %d accepted an expired / expiry-less token: %s" % (op, dict(zip(FIELDS, t))), rep)
            elif int(b[2]) != sub_of(t):
                report("wrong-user", "verifier %d returned user %s for a token issued to %s" % (op, b[2], sub_of(t)), rep)
            if op == 2 and not (t[IDX["typ_k"]] == 1 and t[IDX["typ_v"]] == 1):
                report("wrong-kind-accepted", "refresh verifier accepted a token whose typ is not refresh", rep)
            if op == 3 and not (t[IDX["ctx_k"]] == 1 and t[IDX["ctx_v"]] == ps[0]):
                report("wrong-context-accepted", "e-mail verifier accepted a token of another context", rep)
    if op == 4:
        u = int(b[1])
        if u != GUEST and not (properly_made(t, 0) and sub_of(t) == u):
            report("request-runs-as-user", "a request ran as user %d with a token that is not a valid access token of that user: %s" % (u, dict(zip(FIELDS, t))), rep)
    if op == 5 and b[1] == "1":
        a, r = ts
        ok = properly_made(a, 0) and properly_made(r, 1) and r[IDX["typ_k"]] == 1 and r[IDX["typ_v"]] == 1 and sub_of(a) == sub_of(r)
        if not ok or int(b[2]) != sub_of(r):
            report("refresh-accepted", "refresh succeeded (result user %s) without a matching valid access/refresh pair of one user" % b[2], rep)
        elif abs((r[IDX["exp_v"]] - a[IDX["exp_v"]]) - (REFRESH_TS - ACCESS_TS)) > 2:
            report("refresh-unpaired", "refresh succeeded for tokens that were not issued together", rep)
    if op == 6 and b[1] == "1":
        a, bt = ts
        if not ((properly_made(bt, 0) and sub_of(bt) == int(b[2])) or (bt[0] == 0 and int(b[2]) == GUEST)):   # no token at all is the guest
            report("token-info-leak", "token info returned for an invalid token", rep)
    if op == 7 and b[1] == "1":
        a, e = ts
        path_user, route = ps
        eff = sub_of(a) if (a[0] == 1 and properly_made(a, 0)) else GUEST
        ok = (properly_made(e, 2) and e[IDX["ctx_k"]] == 1 and e[IDX["ctx_v"]] == route + 1 and sub_of(e) == path_user
              and path_user != GUEST and (eff == path_user or (route == 1 and eff == SYSOP)))
        if not ok:
            report("email-applied-without-token", "e-mail change/id-email set for user %d passed the guard without a valid e-mail token of that context and user presented by the user (or an administrator where allowed)" % path_user, rep)
        elif b[2] != "-1" and int(b[2]) != (e[IDX["eml_v"]] if e[IDX["eml_k"]] == 1 else 0):
            report("email-not-from-token", "the applied e-mail is not the token's", rep)

# ------------------------------------------------------------------ histories: many presentations in one process
HV = [1, 41, 42, 43, 44, 6]
HVNAME = {10: "VerifyJwt (expiry check off)", 1: "VerifyJwt", 41: "a LoginRequiredJSON endpoint", 42: "a LoginRequiredPathJSON endpoint", 43: "a LoginRequiredQuery endpoint",
          44: "a LoginRequiredPathQuery endpoint", 6: "/token/info (caller = body token)"}


def hist_pool(short):
    """token 0 and 5 are genuine access tokens that live only `short` seconds; the others do not change during a history"""
    return [access(user=TEST1, off=short), access(user=SYSOP), access(intact=0), refresh_t(off=3600), access(off=-3600),
            access(user=TEST3, off=short, cli_v=2), access(key=3), email_t(), access(user=TEST3), access(alg=3), access(intact=2, user=SYSOP)]


def hist_line(steps, toks):
    return "11|%s|%s" % (" ".join("%d %d %d" % s for s in steps), "|".join(" ".join(map(str, t)) for t in toks))


def hist_static_ok(t):
    return (t[0] == 1 and t[IDX["alg"]] in (0, 1, 2) and t[IDX["key"]] == 0 and t[IDX["intact"]] == 1 and t[IDX["nbf"]] == 0 and t[IDX["iat"]] == 0
            and t[IDX["exp_k"]] == 2 and t[IDX["sub_k"]] == 1)


def judge_history(c, impl, ln, steps, toks, out, tag):
    """the property's predicates on every step of one history; returns (model line, canonical impl answer, seen) or None"""
    f = out.split()
    if f[0] != "0" or len(f) != 2 + 6 * len(steps):
        c.violation("verifier-crash", "a history of presentations crashed/hung (status %s)" % " ".join(f[:2]), {"cases": [ln], "got": out[:400]})
        return None
    now0 = int(f[1])
    recs = [list(map(int, f[2 + 6 * k: 8 + 6 * k])) for k in range(len(steps))]
    msteps, ians = [], []
    seen = {"valid": set(), "expired": set()}   # verifiers at which token 0 / 5 was accepted while valid / presented after its expiry
    accepted_before = set()
    n_bulk = 0
    for k, ((kind, a, b), r) in enumerate(zip(steps, recs)):
        nb, na = r[4], r[5]
        if kind == 1:
            continue
        if kind in (2, 3, 5):
            bad, first, got, rej = r[:4]
            if kind == 2:
                n_bulk += a
            c.nontrivial((tag, "bulk", kind, a, b, n_bulk))
            if bad:
                rep_ln, rep_step, rep_got = ln, k, " ".join(map(str, r))
                small = "11|2 %d 1 %d 1 %d|%s" % (n_bulk, 5 if kind == 5 else 3, b, " ".join(map(str, toks[0])))          # the same number of tokens and nothing else
                so = vf.run_impl(impl, "C16", [small], deadline_ms=120000)[0].split()
                if len(so) == 14 and so[0] == "0" and int(so[8]) > 0:
                    rep_ln, rep_step, rep_got = small, 1, " ".join(so[8:14])
                c.violation("token-answered-as-another-token",
                            "with %d distinct genuine access tokens (each of a user of its own) verified in one process, %d of them were answered as ANOTHER user / with another token's claims when presented%s at %s: "
                            "token #%d (user w%06d) was answered as %s" % (n_bulk, bad, " again" if kind == 3 else (" again by 8 goroutines at once" if kind == 5 else ""), HVNAME[b], first, first, "user w%06d" % got if got >= 0 else "a foreign user"),
                            {"cases": [rep_ln], "step": rep_step, "full_history": ln, "step_meaning": "kind 2 = make a tokens and present each at verifier b; kind 3 = present every a-th of them again; kind 5 = the same by 8 goroutines of the process at once", "got": rep_got,
                             "expected": "bad = 0: every genuine token authenticates its own sub with its own exp / cli",
                             "replay_with": "printf '%s\\n' '<case>' | build/implrun C16    (answer: 0 now0, then per step: bad first got rejected nb na)"})
            ians.append("bulk-refused=%d" % rej)
            msteps.append(None)
            continue
        t = toks[a]
        acc, who, eo, cli = r[:4]
        exp_abs = now0 + t[IDX["exp_v"]] if t[IDX["exp_k"]] == 2 else None
        if exp_abs is None or na < exp_abs:
            phase = "valid-time"
        elif nb >= exp_abs:
            phase = "expired"
        else:
            continue                                  # the clock passed the expiry during the step: no judgement, not compared
        auth = (acc == 1) if b in (1, 6) else (who != GUEST)
        c.nontrivial((tag, a, b, phase, tuple(t)))
        ok_static = hist_static_ok(t)
        if ok_static and a in (0, 5):
            if phase == "valid-time" and auth:
                seen["valid"].add((a, b))
            if phase == "expired":
                seen["expired"].add((a, b))
        if auth:
            rep = {"cases": [ln], "step": k, "token": dict(zip(FIELDS, t)), "verifier": HVNAME[b], "got": " ".join(map(str, r)), "now0": now0,
                   "step_meaning": "kind 0 = present token a at verifier b -> acc who exp-now0 cli clock-before clock-after; kind 1 = wait until the clock has passed the exp of token a",
                   "replay_with": "printf '%s\\n' '<case>' | build/implrun C16 -deadline 120000"}
            if ok_static and phase == "expired" and sub_of(t) == who:
                used = a in accepted_before
                small = "11|0 0 %d 1 0 0 0 0 %d|%s" % (b, b, " ".join(map(str, t)))
                so = vf.run_impl(impl, "C16", [small], deadline_ms=120000)[0].split()
                if len(so) == 20 and so[0] == "0" and ((so[14] == "1") if b in (1, 6) else (int(so[15]) != GUEST)) and int(so[18]) >= int(so[1]) + t[IDX["exp_v"]]:
                    rep = dict(rep, cases=[small], step=2, got=" ".join(so), full_history=ln)
                c.violation("expired-token-accepted-after-earlier-use" if used else "expired-token-accepted",
                            "%s authenticated user %d with a genuine access token %d s after the token's own exp%s" %
                            (HVNAME[b], who, nb - exp_abs, " (the same token had been accepted there while it was valid: an answer taken from an earlier presentation instead of the token)" if used else ""), rep)
            elif ok_static and phase == "valid-time" and sub_of(t) != who:
                c.violation("wrong-user", "%s answered a genuine access token of user %s as user %d in a history" % (HVNAME[b], sub_of(t), who), rep)
            elif not (ok_static and phase == "valid-time"):
                c.violation("forged-token-accepted", "%s accepted in a history (as user %d) a token that is not a valid access token: %s" % (HVNAME[b], who, dict(zip(FIELDS, t))), rep)
            elif b == 1 and (eo != t[IDX["exp_v"]] or cli != (t[IDX["cli_v"]] if t[IDX["cli_k"]] == 1 else 0)):
                c.violation("claims-of-another-token", "VerifyJwt returned exp/cli that are not the token's own (exp-now0 %d, cli %d)" % (eo, cli), rep)
            accepted_before.add(a)
        if b == 1:
            ians.append("1 %d %d %d 0" % (who, now0 + eo, cli) if acc else "0")
        elif b == 6:
            ians.append("1 %d" % who if acc else "0")
        else:
            ians.append(str(who))
        msteps.append((b, a, nb))
    mtoks = []
    for t in toks:
        t = list(t)
        if t[IDX["exp_k"]] == 2:
            t[IDX["exp_v"]] = now0 + t[IDX["exp_v"]]
        mtoks.append(" ".join(map(str, t)))
    ms = [m for m in msteps if m is not None]
    mline = "21|%s|%s" % (" ".join("%d %d %d" % m for m in ms), "|".join(mtoks))
    return mline, ians, seen


def histories(c, impl, model, rng, thorough):
    """one process, whole histories: (a) the same tokens at every verifier and wrapper before AND after the clock passes the exp of two
    of them (the driver waits on the server's own clock); (b) thousands of distinct genuine tokens of other sessions verified in
    between, every one presented again; (c) PRNG histories. Every step judged by the property's predicate; answers vs Model/C16.history."""
    cases, outs = [], []     # (tag, line, steps, toks)
    # ---- (a) the clock passes a stored token's expiry
    conclusive = False
    for short in (2, 8, 45):
        toks = hist_pool(short)
        allp = [(0, a, v) for a in range(len(toks)) for v in HV]
        steps = []
        for _ in range(2):
            p = list(allp); rng.shuffle(p); steps += p
        steps += [(1, 0, 0), (1, 5, 0)]
        for _ in range(2):
            p = list(allp); rng.shuffle(p); steps += p
        ln = hist_line(steps, toks)
        out = vf.run_impl(impl, "C16", [ln], deadline_ms=180000)[0]
        c.count(len(steps), "history-steps")
        cases.append(("clock", ln, steps, toks)); outs.append(out)
        res = judge_history(c, impl, ln, steps, toks, out, "clock")
        cases[-1] = cases[-1] + (res,)
        if res is None:
            break
        want = {(a, v) for a in (0, 5) for v in HV}
        if want <= res[2]["valid"] and want <= res[2]["expired"]:
            conclusive = True
            c.cov["distribution"]["history-token-lifetime-s"] = short
            break
        c.cov.setdefault("notes", []).append("history with %d s tokens: the machine was too slow to present them while valid at every verifier; repeated with longer-lived tokens" % short)
    if not conclusive and cases and cases[-1][-1] is not None:
        c.broken.append({"kind": "coverage", "where": "checks/C16.py histories", "theorem": "used-while-valid-then-expired history not observed at every verifier", "log": "lifetimes 2, 8, 45 s all missed"})
    # ---- (b) thousands of tokens in the same process, (c) PRNG histories
    more = []
    chunk = 40960 if thorough else 2048
    toks = hist_pool(3600)
    allp = [(0, a, v) for a in range(len(toks)) for v in HV]
    steps = list(allp)
    for v in (1, 41, 42, 6, 43):
        steps += [(2, chunk, v)] + allp + [(3, 1, 1), (3, 1, 41), (3, 3, 44), (3, 5, 6)]
    steps += [(2, 7, 1), (3, 1, 43), (3, 1, 42)]
    steps += [(5, 1, 1), (5, 1, 41), (5, 2, 43), (5, 3, 6), (5, 1, 10)]     # concurrent request handlers: 8 goroutines present the tokens at once
    more.append(("volume", hist_line(steps, toks), steps, toks))
    for h in range(40 if thorough else 10):
        toks = hist_pool(3600)
        rng.shuffle(toks)
        steps = []
        for _ in range(80):
            a = rng.randrange(len(toks))
            steps.append((0, a, rng.choice(HV)))
            if rng.random() < 0.4:
                steps.append((0, a, rng.choice(HV)))        # the same token again straight away
            if rng.random() < 0.05:
                steps.append((2, rng.randrange(1, 300), rng.choice(HV)))
        steps.append((3, 1, rng.choice(HV)))
        more.append(("prng%d" % h, hist_line(steps, toks), steps, toks))
    mo = vf.run_impl(impl, "C16", [m[1] for m in more], deadline_ms=600000 if thorough else 120000)
    for m, out in zip(more, mo):
        c.count(len(m[2]), "history-steps")
        cases.append(m + (judge_history(c, impl, m[1], m[2], m[3], out, m[0]),))
    c.cov["distribution"]["histories"] = len(cases)
    c.cov["distribution"]["history-distinct-tokens-in-one-process"] = 5 * chunk + 7
    # ---- the same histories on the extracted model (stateless by construction: C16_history_prefix_irrelevant)
    if model:
        good = [x for x in cases if x[4] is not None]
        mout = vf.run_model(model, [x[4][0] for x in good])
        ci_, cm_ = [], []
        for x, m in zip(good, mout):
            mline, ians, _ = x[4]
            nsteps = [s for s in mline.split("|")[1].split()]
            # regroup the model's flat answer by verifier
            mf = m.split()
            pos, mans, vs = 1, [], [int(v) for v in nsteps[0::3]]
            ok = mf[:1] == ["0"]
            for v in vs:
                if not ok or pos >= len(mf):
                    ok = False
                    break
                if v == 1:
                    n = 5 if mf[pos] == "1" else 1
                elif v == 6:
                    n = 2 if mf[pos] == "1" else 1
                else:
                    n = 1
                mans.append(" ".join(mf[pos:pos + n])); pos += n
            ci_.append(" ; ".join(a for a in ians))
            cm_.append(" ; ".join(_merge_bulk(ians, mans)) if ok else m)
        vf.correspond(c, "histories in one process vs Model/C16.history (every genuine bulk token accepted)", [x[1] for x in good], ci_, cm_)
    c.sample({"op": "history", "kinds": [x[0] for x in cases], "steps": [len(x[2]) for x in cases]})


def _merge_bulk(ians, mans):
    """the model line carries the presentations only; a bulk step's expected answer is 'no genuine token refused'"""
    out, it = [], iter(mans)
    for a in ians:
        out.append("bulk-refused=0" if a.startswith("bulk-refused=") else next(it, "?"))
    return out


# ------------------------------------------------------------------ the secrets in force
KINDS = {0: "access", 1: "refresh", 2: "e-mail"}
VERIFIERS = {1: "VerifyJwt", 2: "VerifyRefreshJwt", 3: "VerifyEmailJwt", 4: "a login-required request", 6: "/token/info (body token)",
             51: "/refresh (as refresh token)", 52: "/refresh (as access token)"}


def path_bytes(p):
    return " ".join(str(x) for x in p.encode())


def shipped_inis():
    """every ini file of the repository that a server can be started with"""
    out = []
    for p in sorted(glob.glob(os.path.join(vf.REPO, "**", "*.ini"), recursive=True)):
        rel = os.path.relpath(p, vf.REPO)
        if rel.startswith(("c-pttbbs", ".git")):
            continue
        out.append((rel, p))
    return out


def site_inis(rng, d):
    """a site configuration for every subset of the three secrets that a site may set in [go-pttbbs:api]"""
    out = []
    names = ["JWT_SECRET", "REFRESH_JWT_SECRET", "EMAIL_JWT_SECRET"]
    for mask in range(8):
        sub = os.path.join(d, "site%d" % mask)
        os.makedirs(sub)
        p = os.path.join(sub, "config.ini")
        vals = {n: "%s-site-%08x" % (n[0], rng.getrandbits(32)) for i, n in enumerate(names) if mask >> i & 1}
        with open(p, "w") as f:
            f.write("[go-pttbbs]\nHTTP_HOST = localhost:3456\n\n[go-pttbbs:api]\nJWT_ISSUER = go-pttbbs\n")
            for n in names:
                if n in vals:
                    f.write("%s = %s\n" % (n, vals[n]))
            f.write("\n[go-pttbbs:types]\nTIME_LOCATION = Asia/Taipei\n")
        label = "site ini setting only {%s}" % ", ".join(n for n in names if n in vals)
        out.append((label, p, vals))
    return out


def cross_matrix(with_env, thorough, rng):
    """the cross-kind part of the forged-token matrix + every cross-use of tokens issued by the server itself"""
    cs = []
    bases = [access(), refresh_t(), email_t(ctx=1), email_t(ctx=2), access(key=3), refresh_t(off=3600), access(user=SYSOP), refresh_t(user=SYSOP)]
    if thorough:
        for b in (access(), refresh_t(), email_t(ctx=1)):
            bases += variants(b, rng, 30)
    for t in bases:
        cs += [(1, [0], [t]), (1, [1], [t]), (2, [], [t]), (3, [1], [t]), (3, [2], [t]), (4, [], [t])]
    for a, r in ((access(), refresh_t()), (refresh_t(), access()), (refresh_t(), refresh_t()), (access(), access()), (email_t(), refresh_t()),
                 (access(), email_t(off=3600 + REFRESH_TS - ACCESS_TS)), (refresh_t(off=3600), refresh_t()), (access(), access(off=3600 + REFRESH_TS - ACCESS_TS, typ_k=1, typ_v=1))):
        cs.append((5, [1], [a, r]))
    for a, b in ((access(), access()), (access(), refresh_t(off=3600)), (access(), refresh_t()), (access(), email_t()), (refresh_t(), refresh_t()),
                 (email_t(), email_t()), (access(), access(key=3)), (NONE, refresh_t(user=GUEST))):
        cs.append((6, [], [a, b]))
    if with_env:
        for route in (0, 1):
            good = email_t(ctx=route + 1)
            for a, e in ((access(), good), (access(), email_t(ctx=2 - route)), (access(), access()), (access(), refresh_t()),
                         (access(), tok(key=0, eml_k=1, eml_v=1, ctx_k=1, ctx_v=route + 1)), (access(), tok(key=1, typ_k=1, typ_v=1, eml_k=1, eml_v=1, ctx_k=1, ctx_v=route + 1)),
                         (refresh_t(off=3600), good), (email_t(ctx=route + 1), good), (refresh_t(user=SYSOP, off=3600), good), (NONE, good)):
                cs.append((7, [TEST1, route], [a, e]))
    for kind, ctx in ((0, 0), (1, 0), (2, 1), (2, 2)):
        for ver, vctx in ((1, 0), (2, 0), (3, 1), (3, 2), (4, 0), (6, 0), (51, 0), (52, 0)):
            for user in (TEST1, SYSOP):
                cs.append((9, [kind, user, 1, 1 if kind == 2 else 0, ctx], [[ver, vctx]]))
    return cs


def case_line(cs):
    op, ps, ts = cs
    if op == 9:
        return "9|%s|%s" % (" ".join(map(str, ps)), " ".join(map(str, ts[0])))
    return line(op, ps, *ts)


def eff_caller(a, cls):
    """effective caller of a request under the secrets in force (classes of the keys): model input for op 17 only"""
    if a[0] == 0:
        return GUEST
    k = a[IDX["key"]]
    if properly_made(a, k) and cls[k] == cls[0] and sub_of(a) is not None:
        return sub_of(a)
    return GUEST


def model_line(cs, now, cls):
    op, ps, ts = cs
    g = " ".join(map(str, cls))
    if op == 9:
        return "19|%d %s|%s|%s" % (now, " ".join(map(str, ps)), " ".join(map(str, ts[0])), g)
    mt = []
    for t in ts:
        t = list(t)
        if t[IDX["exp_k"]] == 2:
            t[IDX["exp_v"]] = now + t[IDX["exp_v"]]
        mt.append(" ".join(map(str, t)))
    if op == 7:
        adm = 1 if eff_caller(ts[0], cls) == SYSOP else 0
        ps = [ps[0], ps[1] + 1, adm, 1 if ps[1] == 1 else 0]
    return "%d|%s|%s|%s" % (op + 10, " ".join(map(str, [now] + list(ps))), g, "|".join(mt))


def judge_issued(c, ps, ver, b, ln, report):
    """a token issued by the server's own Create*Token function is accepted only where its kind (and context) belongs"""
    kind, user, cli, eml, ctx = ps
    v, vctx = ver
    rep = {"cases": [ln], "got": " ".join(b)}
    if b[0] != "0":
        report("verifier-crash", "issuing/verifying a token crashed (status %s)" % " ".join(b), rep)
        return
    c.nontrivial(("issued", tuple(ps), tuple(ver)))
    what = "a token issued by the server as %s token of user %d%s" % (KINDS[kind], user, " (context %d)" % ctx if kind == 2 else "")
    if v == 4:
        accepted, who = int(b[1]) != GUEST, int(b[1])
    else:
        accepted, who = b[1] == "1", int(b[2]) if b[1] == "1" else None
    allowed = {1: kind == 0, 2: kind == 1, 3: kind == 2 and ctx == vctx, 4: kind == 0, 6: kind == 0, 51: kind == 1, 52: kind == 0}[v]
    if accepted and not allowed:
        report("issued-wrong-kind-accepted", "%s was accepted by %s%s (as user %s)" % (what, VERIFIERS[v], " for context %d" % vctx if v == 3 else "", who), rep)
    elif accepted and who != user:
        report("wrong-user", "%s was accepted by %s as user %s" % (what, VERIFIERS[v], who), rep)


def secrets_in_force(c, impl, model, rng, thorough):
    """(a) after every way of configuring the server the three secrets in force are non-empty and pairwise different keys;
    (b) the cross-kind matrix under those secrets; defaults restored afterwards (op 8 mode 0)."""
    tmp = tempfile.mkdtemp(prefix="verifC16cfg")
    try:
        shipped = shipped_inis()
        sites = site_inis(rng, tmp)
        # ---- in the driver's BBS environment: api.InitConfig() after viper read the file (first step of initgin.InitAllConfig)
        configs = [("package defaults (api/00-config.go)", 0, ""), ("api.InitConfig() with nothing configured", 3, "")]
        configs += [(rel, 1, p) for rel, p in shipped] + [(label, 1, p) for label, p, _ in sites]
        matrix = cross_matrix(True, thorough, rng)
        lines, owner = [], []
        for ci, (label, mode, p) in enumerate(configs):
            lines.append("8|%d|%s" % (mode, path_bytes(p))); owner.append((ci, None))
            for cs in matrix:
                lines.append(case_line(cs)); owner.append((ci, cs))
        lines.append("8|0|"); owner.append((len(configs), None))
        configs.append(("package defaults restored", 0, ""))
        io = vf.run_impl(impl, "C16", lines, deadline_ms=20000)
        runs = [("api.InitConfig", configs, lines, owner, io)]
        # ---- the whole start-up path, initgin.InitAllConfig(file) as main() calls it, one sacrificial process per file
        matrix2 = cross_matrix(False, thorough, rng)
        for k, (label, p) in enumerate([(rel, p) for rel, p in shipped] + [(label, p) for label, p, _ in sites]):
            d = os.path.join(tmp, "start%d" % k)
            os.makedirs(d)
            q = os.path.join(d, os.path.basename(p))
            # deployment paths of the conversion tables -> the repository's copies (the only adaptation; [go-pttbbs:api] untouched)
            open(q, "w").write(open(p).read().replace("/etc/go-pttbbs/", os.path.join(vf.REPO, "types") + "/"))
            os.symlink(os.path.join(vf.REPO, "types"), os.path.join(d, "types"))
            ls = ["10|" + path_bytes(q)] + [case_line(cs) for cs in matrix2]
            ow = [(0, None)] + [(0, cs) for cs in matrix2]
            runs.append(("initgin.InitAllConfig", [(label, 2, q)], ls, ow, vf.run_impl(impl, "C16cfg", ls, deadline_ms=20000)))
        # ---- predicates
        mcases, mimpl, mlines = [], [], []
        n_cfg = n_loaded = 0
        hits = {}   # key -> [(is_shipped_file, description, replay, configuration)] : one violation per kind, every configuration listed

        def found(key, desc, rep, name, p):
            hits.setdefault(key, []).append((bool(p) and p.startswith(vf.REPO + os.sep), desc, rep, name))
        for how, cfgs, ls, ow, io in runs:
            c.count(len(ls), "secrets-in-force")
            state = {}
            for (ci, cs), ln, o in zip(ow, ls, io):
                f = o.split()
                label, mode, p = cfgs[ci]
                name = "%s [%s]" % (label, how) if mode in (1, 2) else label
                if cs is None:
                    rep = {"cases": [ln], "got": o, "config": name, "config_file": p, "how": how}
                    if f[0] != "0" or len(f) < 15:
                        c.violation("config-load-crash", "configuring the server crashed (status %s): %s" % (f[0], name), rep)
                        state[ci] = None
                        continue
                    loaded, ne, cls, lens = f[1] == "1", f[2:5], [int(x) for x in f[5:9]], f[9:12]
                    state[ci] = (ln, cls, o)
                    n_cfg += 1
                    n_loaded += loaded
                    c.nontrivial(("config", name, tuple(cls)))
                    rep.update(loaded=loaded, secrets_nonempty=dict(zip(("access", "refresh", "email"), ne)), secret_lengths=lens,
                               key_classes=dict(zip(("access", "refresh", "email", "foreign"), cls)),
                               expected="three non-empty secrets that are pairwise different HMAC keys (key classes 0 1 2)")
                    if ne != ["1", "1", "1"]:
                        found("empty-secret", "a token secret in force is empty (access/refresh/e-mail non-empty: %s)" % " ".join(ne), rep, name, p)
                    if cls[:3] != [0, 1, 2]:
                        same = [("access", "refresh")] * (cls[1] == 0) + [("access", "e-mail")] * (cls[2] == 0) + [("refresh", "e-mail")] * (cls[2] == 1)
                        found("secrets-not-distinct", "the %s secrets in force are the same HMAC key: the premise of the wrong-kind theorems (C16_wrong_kind_iff_distinct_secrets) fails for the running server"
                              % " / ".join("%s = %s" % x for x in same), rep, name, p)
                    if mode in (1, 2) and not loaded:
                        c.cov.setdefault("notes", []).append("%s: the load reported an error; secrets judged as far as the load got" % name)
                    continue
                if state.get(ci) is None:
                    continue
                load_ln, cls, load_out = state[ci]
                now, b = int(f[-1]), f[:-1]
                op, ps, ts = cs

                def report(key, desc, rep, name=name, load_ln=load_ln, load_out=load_out, cls=cls, p=p, how=how):
                    found(key + "-under-configured-secrets", desc,
                          dict(rep, cases=[load_ln] + rep["cases"], config=name, config_file=p, load_result=load_out,
                               key_classes=dict(zip(("access", "refresh", "email", "foreign"), cls)), driver="C16cfg" if how.startswith("initgin") else "C16"), name, p)
                if op == 9:
                    judge_issued(c, ps, ts[0], b, ln, report)
                else:
                    judge(c, op, ps, ts, b, ln, report)
                m = model_line(cs, now, cls)
                mcases.append("%s ; %s" % (load_ln, ln)); mimpl.append(b); mlines.append(m)
        for key, hs in hits.items():
            names = []
            for h in hs:
                if h[3] not in names:
                    names.append(h[3])
            shipped_first = sorted(hs, key=lambda h: not h[0])[0]   # stable: the first shipped file if any, else the first configuration
            _, desc, rep, name = shipped_first
            c.violation(key, "after %s: %s (%d case(s) in %d configuration(s))" % (name, desc, len(hs), len(names)),
                        dict(rep, all_configurations=names, replay_with="printf '%%s\\n' <cases...> | build/implrun %s   (op 8 = api.InitConfig() after viper read the file given as bytes; op 10 = initgin.InitAllConfig)" % rep.get("driver", "C16cfg" if rep.get("how", "").startswith("initgin") else "C16")))
        if model:
            mo = vf.run_model(model, mlines)
            ci_, cm_ = [], []
            for ln, b, m in zip(mcases, mimpl, mo):
                m = m.split()
                if ln.split(" ; ")[1].startswith("7|") and len(b) >= 3 and b[1] == "1" and b[2] == "-1":
                    m = m[:2] + ["-1"]
                ci_.append(" ".join(b)); cm_.append(" ".join(m))
            vf.correspond(c, "verifiers/routes under the secrets in force vs Model/C16 (verify_*_c, present_issued)", mcases, ci_, cm_)
        c.cov["distribution"]["configurations"] = n_cfg
        c.cov["distribution"]["configurations-loaded"] = n_loaded
        c.sample({"op": "secrets in force", "configurations": [x[0] for x in runs[0][1]], "start-up runs": len(runs) - 1, "matrix cases per configuration": len(matrix)})
    finally:
        shutil.rmtree(tmp, ignore_errors=True)


def main():
    c = vf.Check("C16")
    rng = c.rng
    thorough = c.tier == "thorough"
    c.prove()
    model_ok = c.model_ok()
    impl = vf.build_impl()
    model = vf.build_model("C16") if model_ok else None
    pairs = 1500 if thorough else 150

    cases = []   # (op, params, toks, model-params-fn)
    bases = [access(), refresh_t(), email_t(ctx=1), email_t(ctx=2), access(user=SYSOP), access(user=GUEST)]
    singles = []
    for b in bases:
        singles += variants(b, rng, pairs)
    singles.append(NONE)
    for t in singles:                                                       # every token at every verifier (cross-use of kinds)
        cases.append((1, [0], [t])); cases.append((1, [1], [t])); cases.append((2, [], [t]))
        cases.append((3, [1], [t])); cases.append((3, [2], [t])); cases.append((4, [], [t]))
    n_single = len(cases)
    # refresh: pairs around the epsilon window, users, client infos, plus mutations of either token
    for d in (-4, -3, -2, -1, 0, 1, 2, 3, 4, 100, -100):
        for ua, ur in ((TEST1, TEST1), (TEST1, TEST3), (SYSOP, SYSOP)):
            for pcli, acli, rcli in ((1, 1, 1), (2, 1, 1), (2, 2, 1), (2, 2, 0), (0, 1, 2), (1, 2, 2)):
                a = access(user=ua, off=3600, cli_v=acli)
                r = refresh_t(user=ur, off=3600 + REFRESH_TS - ACCESS_TS + d, cli_k=1 if rcli else 0, cli_v=rcli)
                cases.append((5, [pcli], [a, r]))
    for a in variants(access(), rng, pairs // 3):
        cases.append((5, [1], [a, refresh_t()]))
    for r in variants(refresh_t(), rng, pairs // 3):
        cases.append((5, [1], [access(), r]))
    cases.append((5, [1], [NONE, refresh_t()])); cases.append((5, [1], [access(), NONE])); cases.append((5, [1], [NONE, NONE]))
    cases.append((5, [1], [refresh_t(), access()]))                          # the pair swapped
    cases.append((5, [1], [access(off=-10), refresh_t(off=REFRESH_TS - ACCESS_TS - 10)]))   # expired access token with its matching refresh token
    # token info
    callers = [access(), access(user=SYSOP), NONE, access(intact=0), access(off=-3600), refresh_t()]
    for a in callers:
        for b in [access(), access(user=SYSOP), access(user=TEST3), NONE, access(off=-3600), access(key=3), refresh_t(), email_t(), access(alg=3)]:
            cases.append((6, [], [a, b]))
    # e-mail token consumers
    ems = []
    for base in (email_t(ctx=1), email_t(ctx=2)):
        ems += variants(base, rng, pairs // 5)
    for a in [access(), access(user=SYSOP), access(user=TEST3), NONE, access(intact=2), access(off=-3600)]:
        for path_user in (GUEST, SYSOP, TEST1, TEST3):
            for route in (0, 1):
                sel = ems if (a == access() and path_user == TEST1) else [email_t(ctx=1), email_t(ctx=2), email_t(user=path_user, ctx=1), email_t(user=path_user, ctx=2), email_t(user=path_user, ctx=route + 1, off=-3600), NONE]
                for e in sel:
                    cases.append((7, [path_user, route], [a, e]))
    lines = [line(op, ps, *ts) for op, ps, ts in cases]
    io = vf.run_impl(impl, "C16", lines, deadline_ms=20000)
    c.count(len(lines))
    for op in range(1, 8):
        c.cov["distribution"]["op%d" % op] = sum(1 for cs in cases if cs[0] == op)

    # ---- model on the same cases (absolute times taken from the implementation's clock reading)
    mlines, canon = [], []
    for (op, ps, ts), o in zip(cases, io):
        f = o.split()
        now = int(f[-1])
        body = f[:-1]
        if op == 7:
            # caller_is_admin is an input of the model: the effective caller is SYSOP
            a = ts[0]
            eff = sub_of(a) if properly_made(a, 0) else GUEST
            if a[0] == 0:
                eff = GUEST
            adm = 1 if eff == SYSOP else 0
            mlines.append(to_model(7, [ps[0], ps[1] + 1, adm, 1 if ps[1] == 1 else 0], ts, now))
        else:
            mlines.append(to_model(op, ps, ts, now))
        canon.append(body)
    if model:
        mo = vf.run_model(model, mlines)
        cmp_i, cmp_m = [], []
        for (op, ps, ts), b, m in zip(cases, canon, mo):
            m = m.split()
            if op == 7 and len(b) >= 3 and b[1] == "1" and b[2] == "-1":
                m = m[:2] + ["-1"]          # guard passed, request failed later: the e-mail is not observable
            cmp_i.append(" ".join(b)); cmp_m.append(" ".join(m))
        vf.correspond(c, "api verifiers/routes vs Model/C16", lines, cmp_i, cmp_m)

    # ---- the property's own predicates on the implementation's answers
    for (op, ps, ts), b, ln in zip(cases, canon, lines):
        judge(c, op, ps, ts, b, ln, c.violation)
    histories(c, impl, model, rng, thorough)
    secrets_in_force(c, impl, model, rng, thorough)
    c.sample({"op": "VerifyJwt(check)", "token": dict(zip(FIELDS, cases[0][2][0])), "impl": io[0]})
    k = n_single + 5
    c.sample({"op": "/refresh", "params": cases[k][1], "access": dict(zip(FIELDS, cases[k][2][0])), "refresh": dict(zip(FIELDS, cases[k][2][1])), "impl": io[k]})
    c.cov["exhaustive_parts"] = ["every single-field mutation of a valid access / refresh / e-mail(2 contexts) token, each presented to all six verifiers/wrappers",
                                 "refresh expiry distances -4..+4 s around the pairing window x user pairs x client-info combinations",
                                 "secrets in force: package defaults, api.InitConfig() with nothing configured, every *.ini of the repository and a site ini for every subset of the three secrets (8), each loaded by api.InitConfig() after viper and by initgin.InitAllConfig in a process of its own; "
                                 "under each: all cross-uses of forged and server-issued tokens of the three kinds / two contexts at every verifier, wrapper and route",
                                 "histories in one process: 11 tokens x {VerifyJwt, LoginRequiredJSON, LoginRequiredPathJSON, LoginRequiredQuery, LoginRequiredPathQuery, /token/info} presented twice before and twice after the clock "
                                 "passes the exp of the two short-lived genuine tokens; every one of the distinct genuine bulk tokens presented again after every chunk"]
    c.finish(rule="base tokens x all single-field mutations (algorithm header, signing key, 4 kinds of alteration, each claim absent/mistyped/alternative, expiry offsets from -25h to +8d, nbf/iat) + PRNG(seed) double mutations, "
                  "cross-presented to every verifier; refresh / token-info / e-mail consumers driven through an in-process gin router; the cross-kind matrix (forged + issued by Create*Token) repeated under the secrets in force after every configuration (shipped ini files, site inis with PRNG(seed) secrets); "
                  "histories in one process (op 11): PRNG(seed)-ordered presentations around a wait on the server's clock, 5 chunks of distinct genuine tokens each presented again, PRNG(seed) histories; "
                  "distinct = distinct (operation, parameters, token descriptions) + distinct (configuration, key classes) + distinct (history kind, token, verifier, before/after expiry)",
             assumptions=["MAC idealisation: a token verifies under a secret iff it was signed with it and not altered (HMAC unforgeability, golang-jwt's parser) — built into Model/C16.lib_accepts",
                          "the three secrets in force are pairwise different HMAC keys: OBSERVED by the check for the package defaults, every shipped ini file and every subset of secrets a site may set (predicate secrets-not-distinct; necessary and sufficient by C16_wrong_kind_iff_distinct_secrets); an assumption only for site secrets the check has not seen (an operator choosing equal values)", "expiry offsets keep 30 s away from the clock so that no case straddles a second boundary",
                          "histories: that the Go verifiers keep no state between requests is VALIDATED by the histories run, not proved (the theorems C16_history_* are about the model, which answers from clock and token alone); "
                          "the run sees tables of up to 10 240 tokens per process (thorough: 204 800) and expiries passed by a few seconds of real time; a step during which the clock crosses a token's exp is not judged",
                          "the driver's clock readings (types.NowTS before and after each step) and golang-jwt's time source are the same system clock"])


if __name__ == "__main__":
    main()
