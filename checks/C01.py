#!/usr/bin/env python3
"""C01 — record layouts: proofs in coq/Props/C01.v; the compiled program (default and -tags docker builds)
must report the layout the Coq model computes; encoding/binary must agree with the model codec; the real
partial-update entry points must change exactly the bytes the model's write_at changes - also as the second,
third ... write of one process after writes the operating system refused (histories, section 5b)."""
import os, re, struct, sys
sys.path.insert(0, os.path.join(os.path.dirname(os.path.abspath(__file__)), "..", "lib"))
import vf

STRICT = ["UserecRaw", "Userec2Raw", "BoardHeaderRaw", "FileHeaderRaw", "PostLog"]
ANYCFG = STRICT + ["FavBoard", "MsgQueueRaw"]
DOCKER_ONLY = ["UserInfoRaw", "SHMRaw"]
ALL = ANYCFG + DOCKER_ONLY + ["FavLine"]
SCANNED_PKGS = ["ptttype", "types", "cmsys", "cmbbs", "crypt", "cache", "ptt", "ptt/fav", "api", "bbs", "types/ansi"]


def nm(s):
    return " ".join(str(b) for b in s.encode())


def toks(bs):
    return " ".join(str(b) for b in bs)


def parse_frozen():
    """the pttbbs reference: {name: (size, [(field, off, size)])} from coq/Model/C01_Frozen.v (reference data, never regenerated)"""
    src = open(os.path.join(vf.COQ, "Model", "C01_Frozen.v")).read()
    out = {}
    for m in re.finditer(r"Definition frozen_(\w+) : [^=]*:= \((\d+), \[(.*?)\]\)\.", src, re.S):
        out[m.group(1)] = (int(m.group(2)), [(a, int(b), int(c)) for a, b, c in re.findall(r'\("(\w+)", (\d+), (\d+)\)', m.group(3))])
    return out


def parse_layout_wire(line):
    t = line.split()
    if t[0] != "0":
        return None
    size, packed, align, n = int(t[1]), int(t[2]), int(t[3]), int(t[4])
    i, fields = 5, []
    for _ in range(n):
        ln = int(t[i]); name = bytes(int(x) for x in t[i + 1:i + 1 + ln]).decode(); i += 1 + ln
        fields.append((name, int(t[i]), int(t[i + 1]), int(t[i + 2]), int(t[i + 3]))); i += 4   # go_off packed_off go_sz packed_sz
    return {"size": size, "packed": packed, "align": align, "fields": fields}


def absorb_pads(tab):
    out = []
    for (n, o, s) in tab:
        if out and n.startswith("Pad") and not out[-1][0].startswith("Pad") and o == out[-1][1] + out[-1][2] and not out[-1][3]:
            out[-1] = (out[-1][0], out[-1][1], out[-1][2] + s, True)
        else:
            out.append((n, o, s, False))
    return [(n, o, s) for (n, o, s, _) in out]


# ---- leaf kinds of a struct, parsed from the regenerated Gen/Layout_default.v (only to GENERATE in-range values)
KIND = {"TBool": ("b", 1), "TI8": ("i", 1), "TU8": ("u", 1), "TI16": ("i", 2), "TU16": ("u", 2), "TI32": ("i", 4), "TU32": ("u", 4), "TI64": ("i", 8), "TU64": ("u", 8)}


def parse_ty(s, structs):
    s = s.strip()
    if s.startswith("("):
        s = s[1:-1].strip()
    if s.startswith("TArr"):
        m = re.match(r"TArr (\d+) (.*)$", s, re.S)
        return int(m.group(1)) * parse_ty(m.group(2), structs)
    if s.startswith("TStruct"):
        return list(structs[re.search(r'"(\w+)"', s).group(1)])
    return [KIND[s]]


def leaf_kinds():
    src = open(os.path.join(vf.COQ, "Gen", "Layout_default.v")).read()
    structs = {}
    for m in re.finditer(r"Definition fields_(\w+) : [^=]*:= \[(.*?)\n\]\.", src, re.S):
        leaves = []
        ok = True
        for fm in re.finditer(r'\("(\w+)", (.*?)\);?\n', m.group(2) + "\n"):
            try:
                leaves += parse_ty(fm.group(2), structs)
            except KeyError:
                ok = False
        if ok:
            structs[m.group(1)] = leaves
    return structs


def rand_leaf(rng, kind):
    k, n = kind
    if k == "b":
        return rng.randrange(2)
    if k == "u":
        return rng.choice([0, 2 ** (8 * n) - 1, rng.randrange(2 ** (8 * n))])
    return rng.choice([0, -1, -2 ** (8 * n - 1), 2 ** (8 * n - 1) - 1, rng.randrange(-2 ** (8 * n - 1), 2 ** (8 * n - 1))])


def main():
    c = vf.Check("C01")
    rng = c.rng
    thorough = c.tier == "thorough"
    c.prove()
    model_ok = c.model_ok()
    impl = vf.build_impl()
    impl_docker = vf.build_impl(tags="verif docker", name="implrun_docker")
    model = vf.build_model("C01") if model_ok else None
    frozen = parse_frozen()

    def both(lines, label, exe=impl):
        io = vf.run_impl(exe, "C01", lines)
        if model:
            vf.correspond(c, label, lines, io, vf.run_model(model, lines))
        return io

    # ------------------------------------------------------------ 1. layout as compiled vs the model, both configurations
    compiled = {}
    for cfg, exe, cname in ((0, impl, "default"), (1, impl_docker, "docker")):
        lines = ["1|%d|%s" % (cfg, nm(n)) for n in ALL]
        out = both(lines, "layout(%s build): reflect/unsafe.Sizeof/binary.Size vs go_offsets/go_size/packed_*" % cname, exe)
        c.count(len(lines), "layout " + cname)
        for n, l, o in zip(ALL, lines, out):
            lay = parse_layout_wire(o)
            if lay is None:
                c.violation("layout-unavailable:" + n, "the %s build does not report a layout for %s: %s" % (cname, n, o), {"cases": [l], "got": o})
                continue
            compiled[(cname, n)] = lay
            c.nontrivial(("layout", cname, n))
            c.count(len(lay["fields"]), "fields compared (%s)" % cname)
            tab = [(f[0], f[1], f[3]) for f in lay["fields"]]        # aligned offsets, field sizes
            # direct predicate: padding-freeness of the records written to disk
            if n in STRICT or n == "FavBoard":
                bad = [f for f in lay["fields"] if f[1] != f[2] or f[3] != f[4]]
                size_ok = lay["size"] == lay["packed"] if n in STRICT else (lay["size"], lay["packed"]) == (12, 9)
                if bad or not size_ok:
                    c.violation("padding:" + n,
                                "%s (%s build): serialised image %d B, in-memory %d B; fields whose packed offset differs from unsafe.Offsetof: %s"
                                % (n, cname, lay["packed"], lay["size"], ", ".join("%s packed@%d aligned@%d" % (f[0], f[2], f[1]) for f in bad) or "none (size only)"),
                                {"cases": [l, "8|3"], "expected": "0 1 2 3 300 3", "layout": o, "want": "packed offsets == aligned offsets, binary.Size == unsafe.Sizeof; then three appends to .post return 1 2 3 and the file has 300 bytes"})
            # direct predicate: the frozen pttbbs layout
            if n in ANYCFG or (cname == "docker" and n in DOCKER_ONLY):
                want = frozen[n]
                got = (lay["size"], absorb_pads(tab) if n == "PostLog" else tab)
                if got != (want[0], want[1]):
                    diff = [(a, b) for a, b in zip(got[1], want[1]) if a != b][:3]
                    c.violation("frozen:" + n, "%s (%s build) departs from the frozen pttbbs layout: size %d vs %d; first differing fields %s"
                                % (n, cname, got[0], want[0], diff), {"cases": [l], "reference": str(want)[:600], "got": o[:600]})
    if ("default", "UserecRaw") in compiled:
        c.sample({"op": "layout", "type": "PostLog (default build)", "compiled": compiled.get(("default", "PostLog"))})
    c.cov["exhaustive_parts"].append("every field of the 10 record/mapped types in both builds (default, docker): offset, size, packed offset, packed size")

    # sentinel probe: where do a field's bytes land when the record goes through types.BinaryWrite?
    probes = []
    for n in STRICT + ["FavBoard"]:
        lay = compiled.get(("default", n))
        for i, f in enumerate(lay["fields"] if lay else []):
            probes.append((n, i, f))
    pl = ["6|0|%s|%d" % (nm(n), i) for n, i, f in probes]
    po = vf.run_impl(impl, "C01", pl)
    c.count(len(pl), "sentinel probes")
    for (n, i, f), l, o in zip(probes, pl, po):
        t = o.split()
        if t[0] != "0" or (int(t[1]), int(t[2])) != (f[1], f[3]):
            c.violation("sentinel:%s.%s" % (n, f[0]), "%s.%s: bytes written by BinaryWrite land at %s, unsafe.Offsetof says %d (+%d)" % (n, f[0], t[1:3], f[1], f[3]),
                        {"cases": [l], "expected": "0 %d %d %d" % (f[1], f[3], compiled[("default", n)]["size"]), "got": o})
    c.cov["exhaustive_parts"].append("sentinel probe of every field of the six disk record types through types.BinaryWrite")

    # ------------------------------------------------------------ 2. codec: encoding/binary vs the model, round trip on the implementation
    kinds = leaf_kinds()
    codec_types = [n for n in STRICT + ["FavBoard", "MsgQueueRaw", "FavLine"] if n in kinds]
    enc_lines, enc_meta = [], []
    for n in codec_types:
        for _ in range(200 if thorough else 12):
            leaves = [rand_leaf(rng, k) for k in kinds[n]]
            enc_lines.append("2|0|%s|%s" % (nm(n), toks(leaves))); enc_meta.append((n, leaves))
    eo = both(enc_lines, "types.BinaryWrite(record) vs encode")
    c.count(len(enc_lines), "encode")
    dec_lines = ["3|0|%s|%s" % (nm(n), " ".join(o.split()[1:])) for (n, _), o in zip(enc_meta, eo)]
    do = both(dec_lines, "types.BinaryRead(image) vs decode")
    c.count(len(dec_lines), "decode")
    for (n, leaves), l, e, d in zip(enc_meta, enc_lines, eo, do):
        if e.split()[0] != "0" or d.split() != ["0"] + [str(x) for x in leaves]:
            c.violation("codec-roundtrip:" + n, "%s does not survive BinaryWrite -> BinaryRead" % n, {"cases": [l], "want": "decoding the image gives back " + toks(leaves)[:300], "got": [e[:300], d[:300]]})
        elif n in STRICT and len(e.split()) - 1 != compiled[("default", n)]["size"]:
            c.violation("padding:" + n, "%s: BinaryWrite produces %d bytes, the record stride (unsafe.Sizeof) is %d" % (n, len(e.split()) - 1, compiled[("default", n)]["size"]),
                        {"cases": [l, "8|3"], "expected": "0 1 2 3 300 3", "got": e[:300]})
        c.nontrivial(("codec", n, tuple(leaves[:40])))
    raw_lines = []
    for n in codec_types:                                       # arbitrary bytes (non-canonical bools, short input): model and code must agree
        sz = compiled[("default", n)]["packed"]
        for _ in range(100 if thorough else 8):
            ln = rng.choice([sz, sz, sz, sz + 3, max(0, sz - 1), rng.randrange(sz + 1)])
            raw_lines.append("3|0|%s|%s" % (nm(n), toks(rng.randrange(256) for _ in range(ln))))
    both(raw_lines, "types.BinaryRead(arbitrary bytes) vs decode")
    c.count(len(raw_lines), "decode arbitrary bytes")
    c.sample({"op": "BinaryWrite/BinaryRead", "type": enc_meta[-1][0], "leaves": enc_meta[-1][1][:12], "image": eo[-1][:80]})

    # ------------------------------------------------------------ 3. partial updates of .PASSWDS through the real entry points
    SZ, MAXU = 512, 50
    REF = {"PasswdHash": (61, 14), "Email": (128, 50), "Money": (120, 4)}          # frozen offsets (reference written here)
    upd, meta = [], []
    nrand = 30 if thorough else 4
    for fname, (off, ln) in REF.items():
        uids = [1, 2, MAXU - 1, MAXU] + [rng.randrange(1, MAXU + 1) for _ in range(nrand)] + [0, -1, MAXU + 1, 2 ** 31 - 1]
        for uid in uids:
            for short in ([False, True] if uid in (1, 2) else [False]):
                flen = SZ * MAXU if not short else rng.choice([0, SZ * (uid - 1) + off + 1, SZ * uid - 7])
                f = [rng.randrange(256) for _ in range(flen)]
                if fname == "Money":
                    v = rng.choice([0, -1, 2 ** 31 - 1, -2 ** 31, rng.randrange(-2 ** 31, 2 ** 31)]); leaves = [v]; img = list(struct.pack("<i", v))
                else:
                    leaves = [rng.randrange(256) for _ in range(ln)]; img = leaves
                upd.append("4|0 %d|%s|%s|%s" % (uid, nm(fname), toks(leaves), toks(f))); meta.append((fname, uid, f, img))
    uo = vf.run_impl(impl, "C01", upd)
    c.count(len(upd), "partial updates")
    if model:
        keep = list(range(len(meta)))   # includes the money update at the last slot (accepted since fix fcc0c19, C20)
        vf.correspond(c, "partial update entry points vs write_at", [upd[i] for i in keep], [uo[i] for i in keep], vf.run_model(model, [upd[i] for i in keep]))
    for (fname, uid, f, img), l, o in zip(meta, upd, uo):
        off, ln = REF[fname]
        t = o.split()
        short_case = {"cases": [l], "got": o[:200]}
        if t[0] in ("1", "2"):
            c.violation("partial-update-crash:" + fname, "%s update for uid %d crashes/hangs" % (fname, uid), short_case)
            continue
        if not (1 <= uid <= MAXU) or (t[0] == "3" and fname == "Money" and uid == MAXU):
            if t[0] != "3" or len(t) > 2:
                c.violation("partial-update-invalid-uid:" + fname, "%s update for invalid uid %d was not refused cleanly: %s" % (fname, uid, o[:60]), short_case)
            continue
        if t[0] != "0":
            c.violation("partial-update-refused:" + fname, "%s update for valid uid %d refused: %s" % (fname, uid, o[:60]), short_case)
            continue
        new = [int(x) for x in t[1:]]
        a = SZ * (uid - 1) + off
        want = f[:a] + [0] * max(0, a - len(f)) + img + f[a + ln:]
        if new != want:
            d = [i for i in range(min(len(new), len(want))) if new[i] != want[i]]
            c.violation("partial-update-frame:" + fname, "%s update for uid %d changed bytes other than [%d,%d) of the file (first differing offsets %s, lengths %d/%d)"
                        % (fname, uid, a, a + ln, d[:5], len(new), len(want)), dict(short_case, expected="0 " + toks(want)))
        c.nontrivial(("upd", fname, uid, len(f)))
    c.sample({"op": "PasswdUpdateEmail", "uid": meta[len(meta) // 2][1], "file bytes": len(meta[len(meta) // 2][2]), "result": uo[len(meta) // 2][:60] + " ..."})

    # partial reads at Offsetof: PasswdQueryUserLevel / PasswdQueryPasswd
    rd, rmeta = [], []
    for uid in [1, MAXU] + [rng.randrange(1, MAXU + 1) for _ in range(nrand)]:
        f = [rng.randrange(256) for _ in range(SZ * MAXU)]
        rd.append("7|0 %d|%s" % (uid, toks(f))); rmeta.append((uid, f, rd[-1]))
    ro = vf.run_impl(impl, "C01", rd)
    c.count(len(rd), "partial reads")
    for (uid, f, l), o in zip(rmeta, ro):
        b = SZ * (uid - 1)
        want = ["0", str(struct.unpack("<I", bytes(f[b + 84:b + 88]))[0])] + [str(x) for x in f[b + 61:b + 75]]
        if o.split() != want:
            c.violation("partial-read", "PasswdQueryUserLevel/PasswdQueryPasswd(uid %d) do not return bytes [84,88) / [61,75) of record %d" % (uid, uid),
                        {"cases": [l], "expected": " ".join(want), "got": o})
        c.nontrivial(("read", uid))

    # ------------------------------------------------------------ 4. level-2 update of .PASSWD2
    p2, p2meta = [], []
    for ex, flen in [(0, 0), (1, 128), (1, 128), (1, 128), (1, 0), (1, 12), (1, 100), (1, 127), (1, 129), (1, 200)] + [(1, 128)] * (40 if thorough else 4):
        f = [rng.randrange(256) for _ in range(flen)]
        perm = rng.choice([1, 2 ** 31, 2 ** 32 - 1, rng.getrandbits(32)]); isset = rng.randrange(2)
        p2meta.append((ex, f, perm, isset))
    first = vf.run_impl(impl, "C01", ["5|0 %d %d %d 0|%s" % (ex, perm, isset, toks(f)) for ex, f, perm, isset in p2meta])
    c.count(len(first), "level-2 updates")
    p2lines = []
    for (ex, f, perm, isset), o in zip(p2meta, first):
        t = o.split()
        now = struct.unpack("<i", bytes(int(x) for x in t[9:13]))[0] if t[0] == "0" and len(t) >= 13 else 0    # the clock is an observed input
        p2lines.append("5|0 %d %d %d %d|%s" % (ex, perm, isset, now, toks(f)))
        if t[0] in ("1", "2"):
            c.violation("passwd2-crash", "PasswdUpdateUserLevel2 crashes/hangs", {"cases": [p2lines[-1]], "got": o})
        elif ex and len(f) > 128:
            if t[0] != "3":
                c.violation("passwd2-oversize", "a %d-byte .PASSWD2 is not refused" % len(f), {"cases": [p2lines[-1]], "got": o[:80]})
        elif t[0] != "0":
            c.violation("passwd2-refused", "level-2 update refused: %s" % o[:40], {"cases": [p2lines[-1]], "got": o[:80]})
        else:
            base = (f + [0] * (128 - len(f))) if ex else ([1, 0, 0, 0] + [0] * 124)
            old = struct.unpack("<I", bytes(base[4:8]))[0]
            newv = (old | perm) if isset else (old & ~perm & 0xffffffff)
            new = [int(x) for x in t[1:]]
            if len(new) != 128 or new[:4] != base[:4] or new[12:] != base[12:] or new[4:8] != list(struct.pack("<I", newv)):
                c.violation("passwd2-frame", "level-2 update changed bytes outside [4,12) or wrote a wrong level (file of %d bytes)" % len(f), {"cases": [p2lines[-1]], "got": o[:200]})
            c.nontrivial(("p2", ex, len(f), perm, isset))
    if model:
        vf.correspond(c, "PasswdUpdateUserLevel2 vs passwd2_update_level2", p2lines, first, vf.run_model(model, p2lines))

    # ------------------------------------------------------------ 5. the .post log really grows (consequence of PostLog being padding-free)
    ao = vf.run_impl(impl, "C01", ["8|5"])[0]
    c.count(1, "postlog appends")
    if ao.split() != ["0", "1", "2", "3", "4", "5", "500", "5"]:
        c.violation("padding:PostLog", "five AppendRecord(.post, PostLog, POSTLOG_SZ) calls returned indices %s, file size %s, record count %s (expected 1..5, 500, 5)"
                    % (ao.split()[1:-2], ao.split()[-2:-1], ao.split()[-1:]), {"cases": ["8|5"], "expected": "0 1 2 3 4 5 500 5", "got": ao})

    # ------------------------------------------------------------ 5b. histories: the second use after a refused write
    # Several writes in ONE process; some are refused by the operating system (.PASSWDS on /dev/full -> ENOSPC,
    # RLIMIT_FSIZE 0 -> EFBIG; read-only / closed handle -> EBADF; a writer with room for k bytes). Every
    # partial-update entry point, the whole-record write, the level-2 update, types.BinaryWrite itself and
    # cmsys.AppendRecord run AFTER a refused write, and the file images are compared byte for byte with a
    # reference written here (and with the model's run_history / bw_history).
    NOW = 1600000000
    KNAME = {1: "PasswdHash", 2: "Email", 3: "Money", 4: "Record", 5: "Level2"}
    FOFF = {1: (61, 14), 2: (128, 50), 3: (120, 4)}

    def ref_encode(n, leaves):
        out = []
        for (k, sz), v in zip(kinds[n], leaves):
            out += [1 if v else 0] if k == "b" else list(int(v).to_bytes(sz, "little", signed=(k == "i")))
        return out

    def ref_write_at(f, a, img):
        f = f + [0] * max(0, a - len(f))
        return f[:a] + img + f[a + len(img):]

    def ref_history(pw, pw2, steps):
        """-> statuses [(st, code)], .PASSWDS, .PASSWD2 (None = absent) after the steps"""
        sts = []
        for st in steps:
            kind, dev, uid, pay = st
            if kind == 5:
                perm, isset = pay[0], pay[1]
                if pw2 is not None and len(pw2) > 128:
                    sts.append((3, 3)); continue
                base = ([1, 0, 0, 0] + [0] * 124) if pw2 is None else pw2 + [0] * (128 - len(pw2))
                old = struct.unpack("<I", bytes(base[4:8]))[0]
                newv = (old | perm) if isset else (old & ~perm & 0xffffffff)
                pw2 = base[:4] + list(struct.pack("<I", newv)) + list(struct.pack("<i", pay[2])) + base[12:]
                sts.append((0, 0)); continue
            if not (1 <= uid <= MAXU):
                sts.append((3, 1)); continue
            if dev != 0:
                sts.append((3, 4)); continue
            if kind == 4:
                pw = ref_write_at(pw, SZ * (uid - 1), ref_encode("UserecRaw", pay))
            else:
                img = list(struct.pack("<i", pay[0])) if kind == 3 else list(pay)
                pw = ref_write_at(pw, SZ * (uid - 1) + FOFF[kind][0], img)
            sts.append((0, 0))
        return sts, pw, pw2

    def hist_line(pin, pw, pw2, steps):
        return "10|0 %d|%s|%d|%s|%s" % (pin, toks(pw), 0 if pw2 is None else 1, toks(pw2 or []),
                                        "|".join("%d %d %d %s" % (k, d, u, toks(p)) for k, d, u, p in steps))

    def hist_expected(pw, pw2, steps):
        sts, epw, epw2 = ref_history(list(pw), None if pw2 is None else list(pw2), steps)
        out = ["0"] + [str(x) for s_ in sts for x in s_] + [str(len(epw))] + [str(x) for x in epw]
        out += ["0", "0"] if epw2 is None else ["1", str(len(epw2))] + [str(x) for x in epw2]
        return " ".join(out)

    def rand_step(kind, dev, uid):
        if kind == 1:
            pay = [rng.randrange(256) for _ in range(14)]
        elif kind == 2:
            pay = [rng.randrange(256) for _ in range(50)]
        elif kind == 3:
            pay = [rng.choice([0, -1, 2 ** 31 - 1, -2 ** 31, rng.randrange(-2 ** 31, 2 ** 31)])]
        elif kind == 4:
            pay = [rand_leaf(rng, k) for k in kinds["UserecRaw"]]
        else:
            pay = [rng.choice([1, 2 ** 31, 2 ** 32 - 1, rng.getrandbits(32)]), rng.randrange(2), NOW]
            dev, uid = 0, 0
        return (kind, dev, uid, pay)

    hist = []                                                   # (pin, pw, pw2, steps)
    def rand_files():
        pw = [rng.randrange(256) for _ in range(SZ * rng.choice([4, 4, 4, 3, 6]))]
        pw2 = rng.choice([None, [rng.randrange(256) for _ in range(128)], [rng.randrange(256) for _ in range(128)], [rng.randrange(256) for _ in range(rng.choice([12, 100, 200]))]])
        return pw, pw2
    # every refused writer x every device, followed by every kind of write (and once more: the write after a
    # successful write is clean again, the one after a second refusal is not allowed to differ either)
    for rk in (1, 2, 3, 4):
        for dv in (1, 2):
            for vk in (1, 2, 3, 4, 5):
                pw, pw2 = rand_files()
                steps = [rand_step(rk, dv, rng.choice([1, 2, 3])), rand_step(vk, 0, rng.choice([1, 2, 3]))]
                if rng.randrange(2):
                    steps += [rand_step(rng.choice([1, 2, 3, 4]), rng.choice([1, 2]), rng.choice([1, 2, 4])), rand_step(rng.choice([1, 2, 3, 5]), 0, rng.choice([1, 2, 3, 4]))]
                hist.append((1, pw, pw2, steps))
    for _ in range(400 if thorough else 24):                    # random histories
        pw, pw2 = rand_files()
        steps = []
        for _ in range(rng.randrange(2, 9)):
            steps.append(rand_step(rng.choice([1, 2, 3, 3, 4, 5]), rng.choice([0, 0, 1, 2]), rng.choice([1, 2, 3, 4, 4, 7, MAXU, 0, MAXU + 1, -1])))
        hist.append((rng.choice([1, 1, 0]), pw, pw2, steps))
    if thorough:                                                # the whole 25600-byte file
        for _ in range(20):
            pw = [rng.randrange(256) for _ in range(SZ * MAXU)]
            hist.append((1, pw, None, [rand_step(rng.choice([1, 2, 3, 4]), rng.choice([0, 1, 2]), rng.randrange(1, MAXU + 1)) for _ in range(10)]))
    hl = [hist_line(*h_) for h_ in hist]
    ho = both(hl, "histories with refused writes (entry points) vs run_history")
    c.count(len(hl), "histories with refused writes")
    c.count(sum(len(h_[3]) for h_ in hist), "history steps")
    def fresh(lines):
        """each call is a new process: nothing an earlier case left behind can be met"""
        return vf.run_impl(impl, "C01", lines)

    analysed = 0
    for hi, ((pin, pw, pw2, steps), l, o) in enumerate(zip(hist, hl, ho)):
        want = hist_expected(pw, pw2, steps)
        if o.split()[:1] in (["1"], ["2"]):
            c.violation("history-crash", "a history of %d writes crashes/hangs" % len(steps), {"cases": [l], "got": o[:200]})
        elif o.split() != want.split():
            if analysed >= 5:
                c.violation("history:more", "further histories differ from the reference (not analysed one by one)", {"cases": [l], "expected": want, "got": o[:4000]})
                continue
            analysed += 1
            # name the first step after which the files (or a status) depart: shortest failing prefix, each prefix in a process of its own
            pl_ = [hist_line(pin, pw, pw2, steps[:k]) for k in range(1, len(steps) + 1)]
            k = next((k for k in range(len(steps)) if fresh([pl_[k]])[0].split() != hist_expected(pw, pw2, steps[:k + 1]).split()), None)
            if k is None:
                # clean on its own: what differs was left behind by the history that ran before it in the same process
                prev = hl[hi - 1] if hi else l
                c.violation("history:after-refused-write-of-the-previous-history",
                            "a history that is correct in a process of its own gives other files when it runs in the same process after the previous history (which contains refused writes)",
                            {"cases": [prev, l], "expected": want, "got": o[:4000]})
                continue
            got, exp = fresh([pl_[k]])[0].split(), hist_expected(pw, pw2, steps[:k + 1]).split()
            d = [i for i in range(min(len(got), len(exp))) if got[i] != exp[i]]
            kind, dev, uid, _ = steps[k]
            after = any(s_[1] != 0 and 1 <= s_[2] <= MAXU for s_ in steps[:k])
            nst = 1 + 2 * (k + 1)
            npw = int(exp[nst])
            if d and d[0] < nst:
                where = "status of step %d is %s, expected %s" % ((d[0] - 1) // 2 + 1, got[1 + 2 * ((d[0] - 1) // 2):][:2], exp[1 + 2 * ((d[0] - 1) // 2):][:2])
            else:
                dpw = [x - nst - 1 for x in d if nst < x <= nst + npw]
                dp2 = [x - nst - npw - 3 for x in d if x > nst + npw + 2]
                where = "%d bytes of .PASSWDS differ (first offsets %s = record %s offset %s), %d bytes of .PASSWD2 differ (first offsets %s)" % (
                    len(dpw), dpw[:5], dpw[0] // SZ + 1 if dpw else "-", dpw[0] % SZ if dpw else "-", len(dp2), dp2[:5])
            c.violation("history:%s%s" % (KNAME[kind], ":after-refused-write" if after else ""),
                        "step %d of a history (%s%s, uid %d%s) does not leave the files a first write would leave: %s; result lengths %d/%d. Steps so far: %s"
                        % (k + 1, KNAME[kind], "" if dev == 0 else " on a refusing device", uid, ", after a write the OS refused" if after else "",
                           where, len(got), len(exp), ", ".join("%s%s(uid %d)" % (KNAME[a], "" if b == 0 else "[refused:%s]" % {1: "ENOSPC", 2: "EFBIG"}[b], u) for a, b, u, _ in steps[:k + 1])),
                        {"cases": [pl_[k]], "expected": " ".join(exp), "got": " ".join(got)[:4000]})
        for kind, dev, uid, _ in steps:
            c.nontrivial(("hist", kind, dev, uid, len(pw), None if pw2 is None else len(pw2)))
    c.sample({"op": "history", "steps": [(KNAME[a], b, u) for a, b, u, _ in hist[0][3]], "result": ho[0][:40] + " ..."})
    c.cov["exhaustive_parts"].append("refused writer {PasswdUpdatePasswd, PasswdUpdateEmail, SetUMoney, PasswdUpdate} x device {/dev/full, RLIMIT_FSIZE 0} x following write {the same four, PasswdUpdateUserLevel2}")

    # types.BinaryWrite itself, to writers that refuse: what reaches the NEXT writer is the next value's image
    bw = []
    def rand_val(n):
        return (n, [rand_leaf(rng, k) for k in kinds[n]])
    for n in codec_types:
        sz = compiled[("default", n)]["packed"]
        for sink in (0, rng.randrange(1, sz) if sz > 1 else 0, -2, -3, -4):
            m = rng.choice(codec_types)
            bw.append([rand_val(n) + (sink,), rand_val(n) + (-1,), rand_val(m) + (sz + 7,), rand_val(m) + (-1,)])
    for _ in range(200 if thorough else 10):
        bw.append([rand_val(rng.choice(codec_types)) + (rng.choice([-1, -1, 0, 5, 60, 300, -2, -3, -4]),) for _ in range(rng.randrange(2, 7))])
    bl = ["11|0 %d|%s" % (1 if i % 4 else 0, "|".join("%s|%s|%d" % (nm(n), toks(lv), k) for n, lv, k in seq)) for i, seq in enumerate(bw)]
    bo = both(bl, "histories of types.BinaryWrite to refusing writers vs bw_history")
    c.count(len(bl), "BinaryWrite histories")
    analysed = 0
    for bi, (seq, l, o) in enumerate(zip(bw, bl, bo)):
        exp, prefix = ["0"], []
        for j, (n, lv, k) in enumerate(seq):
            img = ref_encode(n, lv)
            okk = k == -1 or len(img) <= k
            got_ = img if okk else img[:max(k, 0)]
            exp += (["0", "0"] if okk else ["3", "4"]) + [str(len(got_))] + [str(x) for x in got_]
            prefix.append(len(exp))
        if o.split() != exp:
            if analysed >= 4:
                c.violation("binarywrite-history:more", "further BinaryWrite histories differ from the reference (not analysed one by one)", {"cases": [l], "expected": " ".join(exp), "got": o[:4000]})
                continue
            analysed += 1
            alone = fresh([l])[0]
            if alone.split() == exp:
                c.violation("binarywrite-history:after-refused-write-of-the-previous-history",
                            "a history of types.BinaryWrite calls that is correct in a process of its own hands its writers other bytes when it runs in the same process after the previous history (which ends with / contains refused writes)",
                            {"cases": [bl[bi - 1] if bi else l, l], "expected": " ".join(exp), "got": o[:4000]})
                continue
            t = alone.split()
            d = next((i for i in range(min(len(t), len(exp))) if t[i] != exp[i]), min(len(t), len(exp)))
            j = next((j for j, e_ in enumerate(prefix) if d < e_), len(seq) - 1)
            after = any(not (k == -1 or len(ref_encode(n, lv)) <= k) for n, lv, k in seq[:j])
            c.violation("binarywrite-history:%s%s" % (seq[j][0], ":after-refused-write" if after else ""),
                        "types.BinaryWrite #%d of a history (%s%s) hands its writer something else than the %d-byte image of its value (result differs from token %d on: got %s, expected %s)"
                        % (j + 1, seq[j][0], ", after a write its writer refused" if after else "", len(ref_encode(seq[j][0], seq[j][1])), d, t[d:d + 6], exp[d:d + 6]),
                        {"cases": [l], "expected": " ".join(exp), "got": alone[:4000]})
        c.nontrivial(("bw", tuple((n, k) for n, lv, k in seq)))
    c.cov["exhaustive_parts"].append("refusing writer {0 bytes, k bytes, /dev/full, read-only handle, closed handle} x every serialised record type, followed by BinaryWrite of the same and of another type")

    # cmsys.AppendRecord(.post) after refused record writes
    for nref in (0, 2):
        recs = [[rand_leaf(rng, k) for k in kinds["PostLog"]] for _ in range(4)]
        l = "12|%d|%s" % (nref, "|".join(toks(r) for r in recs))
        o = vf.run_impl(impl, "C01", [l])[0]
        c.count(1, "postlog appends after refused writes")
        exp = ["0", "1", "2", "3", "4", "400", "4"] + [str(x) for r in recs for x in ref_encode("PostLog", r)]
        if o.split() != exp:
            c.violation("append-history:PostLog" + (":after-refused-write" if nref else ""),
                        "four AppendRecord(.post) calls%s: indices/size/count %s (expected 1 2 3 4 400 4) or the file is not the four 100-byte images"
                        % (" after %d refused BinaryWrite(PostLog) to /dev/full" % nref if nref else "", o.split()[1:7]), {"cases": [l], "expected": " ".join(exp), "got": o[:2000]})
        c.nontrivial(("append-hist", nref))

    # ------------------------------------------------------------ 5c. restarts: NewSHM over the segment a previous run left
    # Several runs of a server over one key in one process (production mode): first start, restart with isCreate
    # (what main does), attach; before the first run a left-over segment may be planted - of this configuration,
    # of the other one (its Size stamp, its allocation), of a pttbbs with other constants (Size stamp off by a
    # few bytes, other Version). An observer attachment snapshots the whole segment before every NewSHM.
    # Reference (written here): an existing segment is never written; it is accepted iff it is large enough and
    # stamped with SHM_VERSION 4842 and this build's SHM_RAW_SZ; a first start stamps Version/Size, Number = Loaded = 0.
    SHMV = 4842
    RAWSZ = {cn: compiled[(cn, "SHMRaw")]["size"] for cn in ("default", "docker") if (cn, "SHMRaw") in compiled}
    if len(RAWSZ) == 2:
        MB = 1048576
        def need(cn, al):
            return RAWSZ[cn] if al == 0 else (RAWSZ[cn] // al + 1) * al

        def ref_restart(cn, al, seg, runs):
            """seg: None or [alloc, ver, size, number, loaded] -> [(status, seen segment or None, segment before)]"""
            out = []
            for cr, n, l in runs:
                before = None if seg is None else list(seg)
                if seg is None:
                    if cr:
                        seg = [need(cn, al), SHMV, RAWSZ[cn], 0, 0]; st = (0, 0)
                    else:
                        st = (3, 5)
                elif seg[0] < need(cn, al):
                    st = (3, 5)
                elif seg[1] != SHMV:
                    st = (3, 1)
                elif seg[2] != RAWSZ[cn]:
                    st = (3, 2)
                else:
                    st = (0, 0)
                out.append((st, None if seg is None else list(seg), before))
                if st == (0, 0):
                    seg = seg[:3] + [n, l]
            return out

        def restart_line(cn, al, seg, runs):
            return "13|%d %d|%s|%s" % (0 if cn == "default" else 1, al, "0 0 0 0 0 0" if seg is None else "1 " + toks(seg), "|".join("%d %d %d" % r for r in runs))

        def rruns(k=None):
            return [(rng.choice([1, 1, 1, 0]), rng.randrange(1, 2 ** 31), rng.randrange(2)) for _ in range(k or rng.randrange(1, 4))]

        rcases = []                                             # (build, al, seg, runs)
        for cn, other in (("default", "docker"), ("docker", "default")):
            own = need(cn, MB)
            rcases.append((cn, MB, None, [(1, 7, 1), (1, 9, 1), (0, 11, 1), (1, 12, 0)]))                 # first start, restarts, attach
            rcases.append((cn, MB, [own, SHMV, RAWSZ[cn], 7, 1], [(1, 8, 1), (1, 9, 0)]))               # restart on the own left-over segment
            rcases.append((cn, MB, [own, SHMV, RAWSZ[cn] + rng.choice([-8, -4, 4, 8, 3484]), 7, 1], [(1, 8, 1), (0, 9, 1), (1, 10, 1)]))   # a pttbbs with other constants, same allocation
            if need(other, MB) >= own:                          # the other configuration's segment is large enough: shmget succeeds
                rcases.append((cn, MB, [need(other, MB), SHMV, RAWSZ[other], 7, 1], [(1, 8, 1), (1, 9, 1)]))
            else:                                               # too small: shmget refuses; fields beyond the allocation read as 0
                rcases.append((cn, MB, [need(other, MB), SHMV, RAWSZ[other], 0, 0], [(1, 8, 1), (0, 9, 1)]))
        cn = "default"
        own = need(cn, MB)
        rcases.append((cn, MB, None, [(0, 1, 1), (1, 2, 1), (0, 3, 1)]))                                # attach before any start
        for ver in (SHMV - 1, SHMV + 1, 0, rng.randrange(1, 2 ** 31)):
            rcases.append((cn, MB, [own, ver, rng.choice([RAWSZ[cn], RAWSZ["docker"], 0]), rng.randrange(1, 2 ** 31), 1], rruns()))
        for size in (0, -1, RAWSZ[cn] + 1, RAWSZ[cn] - 1, 2 ** 31 - 1, rng.randrange(1, 2 ** 31)):
            rcases.append((cn, MB, [own, SHMV, size, rng.randrange(1, 2 ** 31), 1], rruns()))
        rcases.append((cn, MB, [own + MB, SHMV, RAWSZ[cn], 5, 1], rruns(2)))                            # larger allocation, own stamps
        rcases.append((cn, MB, [own + MB, SHMV, RAWSZ[cn] + MB, 5, 1], rruns(2)))                       # larger allocation, its own larger Size stamp
        rcases.append((cn, MB, [RAWSZ[cn], SHMV, RAWSZ[cn], 5, 1], rruns(2)))                           # exactly SHM_RAW_SZ: smaller than the aligned size
        for al in (0, 4096, 4 * MB):
            rcases.append((cn, al, None, [(1, 7, 1), (1, 9, 1)]))
            rcases.append((cn, al, [need(cn, al), SHMV, RAWSZ[cn] + 4, 7, 1], rruns(2)))
            rcases.append((cn, al, [need(cn, al), SHMV, RAWSZ[cn], 7, 1], rruns(2)))
        for _ in range(150 if thorough else 10):
            al = rng.choice([MB, MB, 0, 4096, 65536])
            seg = rng.choice([None, "own", "own", "foreign", "foreign", "foreign"])
            if seg is not None:
                seg = [need(cn, al) + rng.choice([0, 0, 4096, MB, -4096]), rng.choice([SHMV, SHMV, SHMV, SHMV + 1, 0]),
                       RAWSZ[cn] if seg == "own" else rng.choice([RAWSZ[cn] + 4 * rng.randrange(-50, 50), RAWSZ["docker"], 0, rng.randrange(2 ** 31)]),
                       rng.randrange(1, 2 ** 31), rng.randrange(2)]
            rcases.append((cn, al, seg, rruns(rng.randrange(1, 6))))
        FIELDS = ["Version", "Size", "Number", "Loaded"]
        for cn, exe in (("default", impl), ("docker", impl_docker)):
            mine = [rc for rc in rcases if rc[0] == cn]
            rl = [restart_line(*rc) for rc in mine]
            ro_ = both(rl, "restarts: cache.NewSHM over a left-over segment (%s build) vs shm_history" % cn, exe)
            c.count(len(rl), "restart histories (%s)" % cn)
            c.count(sum(len(rc[3]) for rc in mine), "runs of NewSHM")
            for (cn_, al, seg, runs), l, o in zip(mine, rl, ro_):
                ref = ref_restart(cn, al, seg, runs)
                exp = ["0"]
                for st, seen, before in ref:
                    exp += [str(st[0]), str(st[1])] + (["0"] if seen is None else ["1"] + [str(x) for x in seen[1:]] + ["0"])
                t = o.split()
                rep = {"cases": [l], "expected": " ".join(exp), "got": o[:600]}
                what = "%s build, SHMALIGNEDSIZE %d, %s" % (cn, al, "no segment under the key" if seg is None else
                        "left-over segment of %d bytes stamped Version %d Size %d (this build: %d / %d, asks for %d bytes), Number %d Loaded %d" % (seg[0], seg[1], seg[2], SHMV, RAWSZ[cn], need(cn, al), seg[3], seg[4]))
                if t[:1] != ["0"]:
                    c.violation("restart-crash", "a history of %d runs of cache.NewSHM crashes/hangs (%s)" % (len(runs), what), rep)
                    continue
                if t != exp:
                    # walk the runs: name the first one that departs and how
                    i, key, msg = 1, "restart:other", "the result differs from the reference"
                    for k, (st, seen, before) in enumerate(ref):
                        n_ = 3 if seen is None else 8
                        g = t[i:i + n_]; e_ = exp[i:i + n_]; i += n_
                        if g == e_:
                            continue
                        run = "run %d (NewSHM isCreate=%s)" % (k + 1, bool(runs[k][0]))
                        wrote = ""
                        if before is not None and len(g) == 8 and (g[3:7] != [str(x) for x in before[1:]] or g[7] != "0"):
                            ch = [FIELDS[j] + " %s -> %s" % (before[1 + j], g[3 + j]) for j in range(4) if g[3 + j] != str(before[1 + j])]
                            wrote = "wrote into the segment that already existed: %s%s" % (", ".join(ch) or "no header field", "" if g[7] == "0" else "; %s further bytes changed" % g[7])
                        if g[:2] == ["0", "0"] and st != (0, 0):
                            key, msg = "restart:foreign-segment-accepted", "%s accepted a segment that is not this configuration's (expected status %s)%s" % (run, list(st), "; it " + wrote if wrote else "")
                        elif wrote:
                            key, msg = "restart:leftover-segment-written", "%s %s" % (run, wrote)
                        elif before is None and len(g) == 8 and g[:2] == ["0", "0"]:
                            key, msg = "restart:first-start-stamp", "%s created the segment but left it Version/Size/Number/Loaded/other bytes %s (expected %s)" % (run, g[3:], e_[3:])
                        else:
                            msg = "%s: got %s, expected %s" % (run, g, e_)
                        break
                    c.violation(key, "%s: %s" % (what, msg), rep)
                for (cr, n, l_), (st, seen, before) in zip(runs, ref):
                    c.nontrivial(("restart", cn, al, cr, st, None if before is None else tuple(before[:3])))
        c.sample({"op": "restart history", "case": restart_line(*rcases[3])[:120], "meaning": "default build restarted over the segment of the docker build"})
        c.cov["exhaustive_parts"].append("restart of each build {default, docker} over: no segment, its own left-over segment, a same-sized segment with another Size stamp, the other build's segment")

    # ------------------------------------------------------------ 6. what the source hands to encoding/binary
    ba = open(os.path.join(vf.COQ, "Gen", "BinArgs_default.v")).read()
    lists = {m.group(1): re.findall(r'"([^"]+)"', m.group(2)) for m in re.finditer(r"Definition (\w+) : list string := \[(.*?)\]\.", ba)}
    c.cov["bin_arg_types"] = lists
    for n in lists.get("binary_rw_structs", []):
        if n not in STRICT:
            c.violation("binarywrite-nonrecord:" + n, "%s is passed to BinaryRead/BinaryWrite/AppendRecord/SubstituteRecord but is not a padding-free disk record" % n, {"cases": [], "got": lists}, no_input=True)
    for n in lists.get("binrw_structs", []):
        if n not in ("FavBoard", "FavLine"):
            o9 = vf.run_impl(impl, "C01", ["9"])[0] if n == "FavFolder" else "n/a"
            if o9 != "0":
                c.violation("binread-nonrecord:" + n, "%s is passed to BinRead/BinWrite but has no fixed serialised form; replaying the call: %s" % (n, o9), {"cases": ["9"], "expected": "0", "got": o9})
    for n in lists.get("bin_other", []):
        c.violation("binarywrite-other:" + n, "a value without fixed serialised form reaches encoding/binary: " + n, {"cases": [], "got": lists}, no_input=True)
    # call sites outside the packages the translator reads would escape the theorem: make that visible
    pat = re.compile(r"\b(" + "|".join(["BinaryRead", "BinaryWrite", "BinRead", "BinWrite", "AppendRecord", "SubstituteRecord"] + lists.get("bin_forwarders", [])) + r")\(")
    stray = []
    for d, dirs, files in os.walk(vf.REPO):
        rel = os.path.relpath(d, vf.REPO)
        dirs[:] = [x for x in sorted(dirs) if x not in (".git", "docs", "apidoc", "node_modules", "testcase")]
        if rel in SCANNED_PKGS:
            continue
        for fn in sorted(files):
            if fn.endswith(".go") and not fn.endswith("_test.go") and pat.search(open(os.path.join(d, fn), errors="replace").read()):
                stray.append(os.path.join(rel, fn))
    if stray:
        c.broken.append({"kind": "translator", "where": ", ".join(stray), "theorem": "C01_only_records_serialised_partial (call sites outside the translated packages)", "log": ""})

    c.finish(rule="layout: every field of every record/mapped type in both builds; sentinel probe of every disk-record field; codec: PRNG(seed) in-range leaf values incl. extremes per integer kind, then arbitrary bytes; "
                  "partial updates: first/second/last/random/invalid uids x {PasswdHash, Email, Money} on PRNG-filled 25600-byte and short files; level-2: absent/short/exact/oversize files x random permission bits; "
                  "histories (one process): every refused writer {PasswdUpdatePasswd, PasswdUpdateEmail, SetUMoney, PasswdUpdate} x {ENOSPC on a full device, EFBIG under RLIMIT_FSIZE 0} followed by every kind of write "
                  "{the same four, PasswdUpdateUserLevel2}, then PRNG histories of 2-8 steps over uids {1,2,3,4,7,MAX,invalid}; types.BinaryWrite histories to writers refusing after 0/k bytes, /dev/full-like device, read-only and closed handles; "
                  "AppendRecord(.post) after refused writes; whole file images compared byte for byte with a reference written in the check; "
                  "restarts: histories of 1-5 runs of cache.NewSHM (isCreate or attach) in production mode over one private key, in both builds, from {no segment, own left-over segment, foreign Size stamp +-4..3484 / other build's / 0 / -1 / PRNG, foreign Version, smaller/larger allocation, the other build's whole segment} x SHMALIGNEDSIZE {1 MB, 0, 4096, 64 KB, 4 MB}; every byte of the segment compared with a snapshot taken before each NewSHM; "
                  "a case is non-trivial if it is a distinct (build, type) layout, a distinct record value, or a distinct accepted update",
             assumptions=["encoding/binary, reflect and the gc layout (unsafe.Sizeof/Offsetof) are observed through the compiled driver, not verified",
                          "the docker build is used for layout only (MAX_USERS = 2 000 000 makes .PASSWDS 1 GB); dynamic cases run on the default build",
                          "coq/Model/C01_Frozen.v was transcribed from DESIGN.md Appendix C (pttbbs pttstruct.h), no C header is available offline",
                          "histories: a refused write is one of which nothing reaches the file (ENOSPC on a private character device 1:7 created by the driver - the shared /dev/full only if it still is that device -, EFBIG under RLIMIT_FSIZE 0 with SIGXFSZ ignored, EBADF on read-only/closed handles); a write torn inside a regular file is C05's subject and appears here only as a writer with room for k bytes",
                          "histories: the level-2 update's own BinaryWrite calls cannot be made to fail in the sandbox (on a full device its zero-fill write fails first; root ignores file modes), so PasswdUpdateUserLevel2 is exercised AFTER refused writes but never as the refused write",
                          "restarts: theorem (C01_restart_*) covers NewSHM's decision over the abstract left-over segment; that no byte of an existing segment is written and that shmget refuses a smaller segment are validated on planted segments through a second attachment (the other configuration's segment is planted by the driver with that configuration's stamps and allocation, not produced by the other binary); runs are sequential in one process, a detach stands for the process exit; no verdict depends on time",
                          "histories: the driver runs a pinned history on one P with the collector off so that state kept between calls (package variable, sync.Pool) is met again; verdicts come from byte comparison only. An UpdateTS that lies inside the history's own start/end second is reported as the `now` of the case line (the clock is an input)"])


if __name__ == "__main__":
    main()
