#!/usr/bin/env python3
"""C15 — concurrent registrations: theorems over the interleaving model (coq/Props/C15.v); forced
interleavings of real ptt.SetupNewUser / ptt.NewRegister calls (goroutines in 1..3 worker processes
sharing one shared-memory segment, passwd semaphore and .PASSWDS) validated as traces of the model;
direct predicates on results, SHM index, .PASSWDS and the value of the passwd semaphore (read by the
driver after every controller step and at the end of every phase) decide violations. Scenarios are
histories: one or more phases on the same shared memory / semaphore / worker processes (e.g. a same-id
race whose loser is refused inside the lock, then 2-3 interleaved registrations). Worker processes also JOIN while
registrations of the others are parked at their schedule points (exec + the normal start-up, which runs cmbbs.PasswdInit
on the attach path) and LEAVE (exit / SIGKILL) with their calls parked anywhere, e.g. holding the lock (SEM_UNDO).
A second driver, built with `-tags "verif docker"` (the production table sizes: MAX_USERS = 2 000 000 slots, 65 536 buckets
in the id index), runs registration races on tables where existing accounts sit in slots above the number of buckets and
share the bucket of the id being registered, and where the new accounts themselves get such slots (big_section)."""
import concurrent.futures, json, os, sys
sys.path.insert(0, os.path.join(os.path.dirname(os.path.abspath(__file__)), "..", "lib"))
import vf

MODEL_RECHECKS = 1      # 1 when Model/C15.v code_rechecks = true (one more step inside the critical section)
WITNESS = [0, 1, 0, 0, 0, 1, 1, 1]      # A.Check, B.Check, A.Lock .. A.Unlock, B.Lock .. B.Unlock
OBS = 1000000                           # Model/C15.v OBS: "the semaphore value was read here"
JOIN, DIE = 2000000, 3000000            # Model/C15.v: JOIN + p = process p runs its start-up; DIE + p = process p is gone
J = lambda p: -(10 + p)                 # schedule tokens of the driver (c15Token): process p starts now,
Q = lambda p: -(30 + p)                 # exits normally,
K = lambda p: -(50 + p)                 # is killed


def tok(x):
    return str(x) if x >= 0 else ("J%d" if x > -30 else "Q%d" if x > -50 else "K%d") % ((-x - 10) % 20)


class Case:
    """a history: phases [(procs, ids, schedule)] run one after the other on one table / semaphore / set of workers.
    op 1 (the original wire format) = the scheduled threads + one late registration; op 3 = any phases."""
    def __init__(self, mode, tab, phases, op=3):
        self.op, self.mode, self.tab = op, mode, list(tab)
        self.phases = [(list(p), list(i), list(s)) for p, i, s in phases]
        self.procs = [p for ph in self.phases for p in ph[0]]
        self.ids = [i for ph in self.phases for i in ph[1]]

    def line(self):
        nums = lambda l: " ".join(map(str, l))
        if self.op == 1:
            (procs, ids, sched), (_, late, _) = self.phases
            return "1|%d|%s|%s|%s|%s" % (self.mode, nums(procs), enc(ids + late), enc(self.tab), nums(sched))
        return "3|%d|%s|" % (self.mode, enc(self.tab)) + "|".join("%s|%s|%s" % (nums(p), enc(i), nums(s)) for p, i, s in self.phases)

    def describe(self):
        return "; then ".join("procs=%s ids=%s schedule=[%s]" % (p, [x.decode("latin-1") for x in i], ", ".join(tok(x) for x in s)) for p, i, s in self.phases) \
               + (" (Jp: process p starts and runs its start-up incl. PasswdInit; Qp: process p exits; Kp: process p is killed)" if any(x < 0 for ph in self.phases for x in ph[2]) else "")

    @staticmethod
    def from_line(line):
        g = [x.split() for x in line.split("|")]
        ints = lambda l: [int(x) for x in l]
        if g[0] == ["1"]:
            procs, ids = ints(g[2]), dec(g[3])
            return Case(int(g[1][0]), dec(g[4]), [(procs, ids[:len(procs)], ints(g[5])), ([0], ids[len(procs):], [])], op=1)
        return Case(int(g[1][0]), dec(g[2]), [(ints(g[i]), dec(g[i + 1]), ints(g[i + 2])) for i in range(3, len(g), 3)])


def single(mode, procs, ids, tab, sched):
    """the original case shape: threads ids[:-1] under the schedule, then a late registration of ids[-1] in process 0"""
    return Case(mode, tab, [(procs, ids[:-1], sched), ([0], ids[-1:], [])], op=1)


BIG_TAGS, BIG_NAME = "verif docker", "implrun_docker"      # the second driver: the production table sizes
BIG_MAX_USERS, BIG_BUCKETS = 2000000, 65536                 # ptttype/01-config-docker.go MAX_USERS; 1 << HASH_BITS


def filler(uid):
    return b"f%07d" % uid                                   # c15big.go c15Filler


class BigCase(Case):
    """op 4: a history on production-size tables (driver built with -tags docker: MAX_USERS = 2 000 000 slots, 65 536 buckets):
    .PASSWDS of nrec records, slots 1..nfill hold generated accounts, accounts planted in chosen slots {uid: id}"""
    def __init__(self, mode, nrec, nfill, planted, phases):
        Case.__init__(self, mode, [], phases, op=4)
        self.nrec, self.nfill, self.planted = nrec, nfill, dict(planted)
        top = max([nfill] + list(self.planted))
        self.tab = [self.planted.get(u, filler(u) if u <= nfill else b"") for u in range(1, top + 1)]

    def line(self):
        nums = lambda l: " ".join(map(str, l))
        pl = " ".join("%d %s" % (u, enc([i])) for u, i in sorted(self.planted.items()))
        return "4|%d|%d %d|%s|" % (self.mode, self.nrec, self.nfill, pl) + "|".join("%s|%s|%s" % (nums(p), enc(i), nums(s)) for p, i, s in self.phases)

    def describe(self):
        gen = "slots 1..%d hold generated accounts f0000001.. (the free slots start at %d)" % (self.nfill, self.nfill + 1) if self.nfill else "no generated accounts (the free slots start at 1)"
        return "[driver built with -tags docker: MAX_USERS = %d slots, %d buckets in the id index; .PASSWDS of %d records, %s, existing accounts planted: %s] " \
               % (BIG_MAX_USERS, BIG_BUCKETS, self.nrec, gen, ", ".join("slot %d = %s" % (u, i.decode("latin-1")) for u, i in sorted(self.planted.items())) or "none") + Case.describe(self)

    @staticmethod
    def from_line(line):
        g = [x.split() for x in line.split("|")]
        ints = lambda l: [int(x) for x in l]
        return BigCase(int(g[1][0]), int(g[2][0]), int(g[2][1]), dec_sparse(g[3]),
                       [(ints(g[i]), dec(g[i + 1]), ints(g[i + 2])) for i in range(4, len(g), 3)])


def dec_sparse(toks):
    out, i = {}, 0
    while i < len(toks):
        n = int(toks[i + 1])
        out[int(toks[i])] = bytes(int(x) for x in toks[i + 2:i + 2 + n])
        i += 2 + n
    return out


def enc(ids):
    return " ".join(" ".join([str(len(i))] + [str(b) for b in i]) for i in ids)


def dec(toks):
    out, i = [], 0
    while i < len(toks):
        n = int(toks[i])
        out.append(bytes(int(x) for x in toks[i + 1:i + 1 + n]))
        i += 1 + n
    return out


def interleavings(counts):
    def rec(cs):
        if not any(cs):
            yield []
            return
        for t, k in enumerate(cs):
            if k:
                cs2 = list(cs); cs2[t] -= 1
                for r in rec(cs2):
                    yield [t] + r
    return rec(list(counts))


def split(f, sep="-1"):
    parts, cur = [], []
    for x in f:
        if x == sep:
            parts.append(cur); cur = []
        else:
            cur.append(x)
    parts.append(cur)
    return parts


def parse(out):
    f = out.split()
    if not f or f[0] != "0":
        return None
    p = split(f[1:])
    if len(p) != 5:
        return None
    ev = [(int(p[0][i]), int(p[0][i + 1]), int(p[0][i + 2])) for i in range(0, len(p[0]), 3)]
    rs = [(int(p[1][i]), int(p[1][i + 1]), int(p[1][i + 2])) for i in range(0, len(p[1]), 3)]
    look = [int(x) for x in p[2]]
    return ev, rs, look, dec(p[3]), dec(p[4])


def parse_big(case, out, nslots):
    """op 4 result: the final index and .PASSWDS come as differences against the initial table; made dense here.
    Returns the 5 parts of parse() + (MAX_USERS of the driver, number of accounts of the final index that
    cache.DoSearchUserRaw does not find, the first of them as (uid, answer))"""
    f = out.split()
    if not f or f[0] != "0":
        return None
    p = split(f[1:])
    if len(p) != 6 or len(p[5]) < 2:
        return None
    ev = [(int(p[0][i]), int(p[0][i + 1]), int(p[0][i + 2])) for i in range(0, len(p[0]), 3)]
    rs = [(int(p[1][i]), int(p[1][i + 1]), int(p[1][i + 2])) for i in range(0, len(p[1]), 3)]
    look = [int(x) for x in p[2]]
    tabs, changed = [], set()
    for part in (p[3], p[4]):
        t = list(case.tab) + [b""] * (nslots - len(case.tab))
        for u, i in dec_sparse(part).items():
            changed.add(u)
            if 1 <= u <= nslots:
                t[u - 1] = i
        tabs.append(t)
    x = [int(v) for v in p[5]]
    return ev, rs, look, tabs[0], tabs[1], (x[0], x[1], [(x[i], x[i + 1]) for i in range(2, len(x) - 1, 2)], changed)


def model_schedule(ev):
    """map observed events to model steps (see Model/C15.v)"""
    sch, ph = [], {}
    R = MODEL_RECHECKS
    for t, code, v in ev:
        if code == 1:
            sch += [t]; ph[t] = 1
        elif code == 2:
            sch += [t]; ph[t] = 2
        elif code == 3:
            sch += [t] * (R + 3); ph[t] = 3                 # (recheck) find, set id, write
        elif code == 4:
            sch += [t]                                      # unlock, return nil
        elif code == 5:
            if ph.get(t, 0) == 0:
                sch += [t]                                  # existence check fails
            elif v == 1:
                sch += [t, t]                               # lookup inside the lock fails; unlock
            elif v == 2:
                sch += [t] * (R + 1) + [t]                  # no free slot; unlock
            elif v == 104:
                sch += [-(t + 1)]                           # semop returned EINTR while waiting
        elif code == 11:
            sch += [OBS]                                    # the driver read the semaphore value here
        elif code == 12:
            sch += [JOIN + t]                               # process t ran its start-up (PasswdInit, attach path)
        elif code == 13:
            sch += [DIE + t]                                # process t exited / was killed: SEM_UNDO, its calls never return
    return sch


def sem_predicates(ev, who, procs=()):
    """the passwd semaphore, from the driver's own readings (trace code 11) and the observed schedule points:
    never above 1; 0 exactly while a call is between reg.locked and its return; 1 when no call is inside — in
    particular at the end of every phase, after refusals inside the lock; and never two calls inside at once.
    A process joining (code 12) changes nothing; a process going away (code 13) takes its calls out of the lock, and the
    kernel gives the semaphore back (SEM_UNDO): the same rule applies to the readings after both."""
    bad, inside, nread, last = [], [], 0, ""
    for t, code, v in ev:
        if code == 12:
            last = " (first reading after process %d finished its start-up, which includes cmbbs.PasswdInit)" % t
        elif code == 13:
            last = " (first reading after process %d %s)" % (t, "was killed" if v else "exited")
        elif code != 11:
            last = ""
        if code in (2, 3):
            if t not in inside:
                inside.append(t)
            if len(inside) > 1:
                bad.append(("reg-lock-not-exclusive", "threads %s are inside the critical section (between PasswdLock and PasswdUnlock) at the same time: %s" % (inside, who)))
        elif code in (4, 5):
            if t in inside:
                inside.remove(t)
        elif code == 13:
            inside = [u for u in inside if u >= len(procs) or procs[u] != t]
        elif code == 11:
            nread += 1
            if v > 1:
                bad.append(("reg-sem-above-1", "the passwd semaphore has value %d (reading #%d%s; calls inside the lock: %s): it was posted more often than taken and no longer excludes anybody: %s" % (v, nread, last, inside, who)))
            elif v != (0 if inside else 1):
                bad.append(("reg-sem-value", "the passwd semaphore has value %d at reading #%d%s but the calls inside the lock are %s (expected %d): %s" % (v, nread, last, inside, 0 if inside else 1, who)))
            last = ""
    if nread == 0:
        bad.append(("reg-driver", "the driver reported no semaphore reading: " + who))
    seen = set()
    return [b for b in bad if not (b[0] in seen or seen.add(b[0]))]


def low(b):
    return bytes(c + 32 if 65 <= c <= 90 else c for c in b)


def predicates(case, out, nslots):
    """the property itself, evaluated on the implementation's own outputs; returns [(key, description)]"""
    mode, procs, ids, tab = case.mode, case.procs, case.ids, case.tab
    bad = []
    if out.split()[:1] == ["2"]:
        f = out.split()
        why = {"1": "an event the controller was waiting for (a schedule point, a return, the lock going to a queued call) did not arrive",
               "2": "a worker process did not finish its start-up", "3": "a worker process did not acknowledge a new call",
               "4": "a call of a later phase, issued when nothing else was in flight, did not return"}.get(f[2], "") if len(f) > 2 and f[1] == "77" else "deadline of the driver"
        return [("reg-hang", "the registrations did not all return, also when run alone with 8 times longer waits (%s): %s trace so far=%s" % (why, case.describe(), " ".join(f[3:])[:600]))]
    p = parse_big(case, out, nslots) if case.op == 4 else parse(out)
    if p is None:
        return [("reg-driver", "unexpected driver output %s" % out[:200])]
    ev, rs, look, idx, pwd = p[:5]
    init = list(tab) + [b""] * (nslots - len(tab))
    who = "%s events=%s results=%s" % (case.describe(), [e for e in ev if e[1] != 11], rs)
    if case.op == 4:
        maxusers, nlost, lost = p[5][:3]
        if maxusers != nslots:
            return [("reg-driver", "the driver of the production-size runs reports MAX_USERS = %d, expected %d: %s" % (maxusers, nslots, who))]
        if nlost:
            # the existence check of SetupNewUser is this lookup: an account it does not see can be registered a second time
            bad.append(("reg-index-lookup", "%d account(s) held by the final index are not found by cache.DoSearchUserRaw, the lookup SetupNewUser uses as its existence check "
                        "(uid, id, answer of the lookup): %s; %s" % (nlost, [(u, idx[u - 1].decode("latin-1"), a) for u, a in lost[:6]], who)))
    bad += sem_predicates(ev, who, procs)
    if any(code == 0 for code, _, _ in rs):
        bad.append(("reg-unfinished", "a call neither failed nor returned: " + who))
    succ = [(t, v) for t, (code, v, _) in enumerate(rs) if code == 1]
    # calls whose process went away after they had written the index and .PASSWDS (seen at reg.beforeUnlock) but before
    # they returned: nobody was told, but the account exists; they hold their slot and their id like a success
    orphan = [(t, v) for t, (code, v, _) in enumerate(rs) if code == 3 and v > 0]
    for t, (code, v, _) in enumerate(rs):
        if code == 3 and not any(e[1] == 13 and e[0] == procs[t] for e in ev):
            bad.append(("reg-driver", "thread %d is reported dead but its process never went away: %s" % (t, who)))
    for t, uid in succ + orphan:
        if not (1 <= uid <= nslots) or init[uid - 1] != b"":
            bad.append(("reg-slot-not-free", "thread %d was given uid %d, which was not a free slot: %s" % (t, uid, who)))
    if len(set(u for _, u in succ + orphan)) != len(succ + orphan):
        bad.append(("reg-shared-slot", "two successful registrations share a slot: " + who))
    taken = {}
    for k, i in enumerate(init):
        if i:
            taken.setdefault(low(i), []).append("slot %d (before)" % (k + 1))
    for t, uid in succ:
        taken.setdefault(low(ids[t]), []).append("thread %d -> uid %d" % (t, uid))
    for t, uid in orphan:
        taken.setdefault(low(ids[t]), []).append("thread %d (died after writing) -> uid %d" % (t, uid))
    for k, v in sorted(taken.items()):
        if len(v) > 1 and any(x.startswith("thread") for x in v):
            bad.append(("reg-duplicate-id", "user id %r (case-insensitive) is held more than once after concurrent registrations: %s; %s" % (k.decode("latin-1"), ", ".join(v), who)))
    want = list(init)
    for t, uid in succ + orphan:
        if 1 <= uid <= nslots:
            want[uid - 1] = ids[t]
    if idx != want or pwd != want:
        d = [(k + 1, want[k], idx[k], pwd[k]) for k in range(nslots) if not (idx[k] == want[k] == pwd[k])]
        bad.append(("reg-index-passwds-disagree", "SHM index / .PASSWDS do not hold exactly the successful registrations: (uid, expected, index, .PASSWDS) = %s; %s" % (d[:4], who)))
    for t, uid in succ + orphan:
        l = look[t]
        if not (1 <= l <= nslots) or low(idx[l - 1]) != low(ids[t]) or (len(taken[low(ids[t])]) == 1 and l != uid):
            bad.append(("reg-index-lookup", "looking up the id of successful thread %d answers uid %d (its slot is %d): %s" % (t, l, uid, who)))
        if mode == 1 and rs[t][0] == 1 and len(taken[low(ids[t])]) == 1 and rs[t][2] != uid:
            bad.append(("reg-returned-uid", "NewRegister of thread %d returned uid %d but wrote slot %d: %s" % (t, rs[t][2], uid, who)))
    return bad


def stress_predicates(pool, tab, shape, out, nslots, njoin=0, rounds=1):
    """same predicates on an unscheduled run: nproc processes x ngor goroutines each registering every id of the pool;
    njoin of the processes are started (exec + start-up with PasswdInit) while the registrations of the others are in flight"""
    f = out.split()
    who = "processes x goroutines = %s, pool=%s" % (shape, [i.decode("latin-1") for i in pool])
    if njoin:
        who += ", every id %d times, the last %d processes started up while the others were registering" % (rounds, njoin)
    if f[:1] == ["2"]:
        return [("reg-hang", "unscheduled concurrent registrations did not all return (deadline): " + who)], {}
    if f[:1] != ["0"]:
        return [("reg-driver", "unexpected driver output %s" % out[:200])], {}
    p = split(f[1:])
    recs = [tuple(int(x) for x in p[0][i:i + 5]) for i in range(0, len(p[0]), 5)]      # proc, goroutine, id index, error class, uid
    idx, pwd = dec(p[1]), dec(p[2])
    init = list(tab) + [b""] * (nslots - len(tab))
    bad, stats = [], {}
    semval = int(p[3][0]) if len(p) > 3 and p[3] else -1
    if semval != 1:
        bad.append(("reg-sem-above-1" if semval > 1 else "reg-sem-value", "after all unscheduled calls returned (workers still attached) the passwd semaphore has value %d, expected 1: %s" % (semval, who)))
    for r in recs:
        k = {0: "registered", 1: "exists", 2: "no slot", 104: "semop interrupted"}.get(r[3], "error %d" % r[3])
        stats[k] = stats.get(k, 0) + 1
    succ = [r for r in recs if r[3] == 0]
    if len(recs) != shape[0] * shape[1] * len(pool) * rounds:
        bad.append(("reg-unfinished", "%d of %d calls reported a result: %s" % (len(recs), shape[0] * shape[1] * len(pool) * rounds, who)))
    for r in succ:
        if not (1 <= r[4] <= nslots) or init[r[4] - 1] != b"":
            bad.append(("reg-slot-not-free", "a registration was given uid %d, which was not a free slot: %s; %s" % (r[4], r, who)))
    if len(set(r[4] for r in succ)) != len(succ):
        bad.append(("reg-shared-slot", "two successful registrations share a slot: %s; %s" % (sorted(succ, key=lambda r: r[4]), who)))
    taken = {}
    for k, i in enumerate(init):
        if i:
            taken.setdefault(low(i), []).append("slot %d (before)" % (k + 1))
    for r in succ:
        taken.setdefault(low(pool[r[2]]), []).append("process %d goroutine %d -> uid %d" % (r[0], r[1], r[4]))
    for k, v in sorted(taken.items()):
        if len(v) > 1 and any(x.startswith("process") for x in v):
            bad.append(("reg-duplicate-id", "user id %r (case-insensitive) is held more than once after unscheduled concurrent registrations: %s; %s" % (k.decode("latin-1"), ", ".join(v), who)))
    want = list(init)
    for r in succ:
        if 1 <= r[4] <= nslots:
            want[r[4] - 1] = pool[r[2]]
    if idx != want or pwd != want:
        d = [(k + 1, want[k], idx[k], pwd[k]) for k in range(nslots) if not (idx[k] == want[k] == pwd[k])]
        bad.append(("reg-index-passwds-disagree", "SHM index / .PASSWDS do not hold exactly the successful registrations: (uid, expected, index, .PASSWDS) = %s; %s" % (d[:4], who)))
    return bad, stats


RERUN = {"reported": 0, "rerun": 0, "returned_on_rerun": 0}


def run_cases(impl, lines, par=8):
    """runs the cases in par driver processes. "Did not return" (status 2) is a verdict that depends on a deadline, and the
    controller's waits (8-10 s for an event of a worker) can be exceeded on a machine that is busy with other things: every
    case reported as hung is therefore run again ALONE, with all waits of the controller 8 times as long and a 10 minute
    deadline, and only what still does not return then is a hang. (When the first 3 re-runs all hang again the stall is
    taken as systematic and the remaining reports stand as they are, so that a broken tree costs minutes, not hours.)"""
    chunks = [lines[i::par] for i in range(par)]
    with concurrent.futures.ThreadPoolExecutor(par) as ex:
        outs = list(ex.map(lambda ch: vf.run_impl(impl, "C15", ch, deadline_ms=60000) if ch else [], chunks))
    io = [None] * len(lines)
    for k, ch in enumerate(outs):
        for j, o in enumerate(ch):
            io[k + par * j] = o
    hung = [k for k, o in enumerate(io) if o.split()[:1] in (["2"], ["7"])]
    RERUN["reported"] += len(hung)
    confirmed = 0
    for n, k in enumerate(hung):
        if n >= 3 and confirmed == n:
            break
        o = vf.run_impl(impl, "C15", [lines[k]], deadline_ms=600000, env={"VERIF_C15_TIMEOUT_SCALE": "8"})[0]
        vf.ipc_cleanup()
        RERUN["rerun"] += 1
        if o.split()[:1] == ["2"]:
            confirmed += 1
        else:
            RERUN["returned_on_rerun"] += 1
        io[k] = o
    return io


def fixture_ids():
    d = open(os.path.join(vf.REPO, "ptt", "testcase", ".PASSWDS1"), "rb").read()
    return [d[i * 512 + 4:i * 512 + 17].split(b"\0")[0] for i in range(len(d) // 512)]


def replay_main(path):
    """./check C15 --replay file: re-run the recorded interleaving and evaluate the predicates again"""
    obj = json.load(open(path))
    print("replay of %s: %s" % (path, obj.get("what", "")))
    if not obj.get("cases"):
        print(json.dumps(obj, indent=1)[:4000])
        sys.exit(1)
    big = any(cs.startswith("4|") for cs in obj["cases"])       # production-size tables: the driver built with -tags docker
    impl = vf.build_impl(tags=BIG_TAGS, name=BIG_NAME) if big else vf.build_impl()
    out = vf.run_impl(impl, "C15", obj["cases"], deadline_ms=60000)
    vf.ipc_cleanup()
    still = False
    for cs, o in zip(obj["cases"], out):
        g = [x.split() for x in cs.split("|")]
        print("case   %s\nresult %s" % (cs[:2000], o[:2000]))
        if g[0] == ["2"]:
            nj, rounds = (int(g[1][2]), int(g[1][3])) if len(g[1]) > 2 else (0, 1)
            found = stress_predicates(dec(g[2]), dec(g[3]), (int(g[1][0]) + nj, int(g[1][1])), o, obj.get("nslots", 50), nj, rounds)[0]
        elif g[0] == ["6"]:
            found = sweep_predicates(cs, o)[0]
        elif g[0] == ["4"]:
            bc = BigCase.from_line(cs)
            print("history %s" % bc.describe())
            found = predicates(bc, o, obj.get("nslots", BIG_MAX_USERS))
        else:
            found = predicates(Case.from_line(cs), o, obj.get("nslots", 50))
        for key, desc in found:
            print("  %s: %s" % (key, desc))
            still = True
    print("replay: %s" % ("property still violated on this input" if still else "input now behaves"))
    sys.exit(1 if still else 0)


def compact(case, ev, rs, idx, pwd, changed, nmodel):
    """the production-size table seen through the model's table of nmodel slots: the slots that matter - the planted accounts and
    the first free slots (the loader chains the empty records in ascending order) - renumbered in ascending order; the generated
    accounts f....... (never registered, never equal to a requested id) are dropped, the rest of the model's table is filled with
    accounts nobody asks for. Returns (model table, expected result string) or None when a uid falls outside the renumbering."""
    nfree = nmodel - len(case.planted) - 2
    free, u = [], case.nfill + 1
    while len(free) < nfree and u <= case.nrec:
        if u not in case.planted:
            free.append(u)
        u += 1
    slots = sorted(list(case.planted) + free)
    pos = {u: k + 1 for k, u in enumerate(slots)}
    pad = [b"~pad%02d" % k for k in range(nmodel - len(slots))]
    if any(code in (1, 3) and v > 0 and v not in pos for code, v, _ in rs) or len(slots) > nmodel:
        return None
    if not changed <= set(slots):
        return None
    mtab = [case.planted.get(u, b"") for u in slots] + pad
    obs = [v for _, code, v in ev if code == 11]
    want = "0 " + " ".join("%d %d" % (code, pos[v] if code in (1, 3) and v > 0 else v) for code, v, _ in rs) \
           + " -1 " + enc([idx[u - 1] for u in slots] + pad) + " -1 " + enc([pwd[u - 1] for u in slots] + pad) \
           + " -1 " + " ".join(map(str, obs)) + " -1 %d" % (obs[-1] if obs else -1)
    return mtab, want


# ------------------------------------------------------------------ registrations on a full table: the expiry sweep (driver op 6, model op 3)
DAY = 86400
SW_LIVE = [0, -1, -60, -3600, -10 * DAY, 1, 5, 60, 3600, DAY, 365 * DAY, 3650 * DAY]    # LastLogin - now: recent, or LATER than the sweeping clock
SW_OLD = [-100 * DAY, -200 * DAY, -250 * DAY, -400 * DAY]                                 # beyond some keep time (all at least a day away from a threshold)
SW_LEVELS = [7, 7, 7 | 16, 7 | 256]                                                       # unregistered, registered (PERM_LOGINOK), exempt (PERM_XEMPT)


def sw_line(fresh, tab, lv, dl, ids, stamps, sched):
    return "6|%d|%s|%s|%s|%s|%s|%s" % (fresh, enc(tab), " ".join(map(str, lv)), " ".join(map(str, dl)), enc(ids), " ".join(map(str, stamps)), " ".join(map(str, sched)))


def sw_parse(out):
    f = out.split()
    if f[:1] != ["0"]:
        return None
    g = split(f[1:])
    if len(g) > 6:                                                   # the last group (LastLogin - now per slot) may itself contain -1
        last = list(g[5])
        for x in g[6:]:
            last += ["-1"] + x
        g = g[:5] + [last]
    if len(g) != 6 or len(g[0]) != 6:
        return None
    hdr = [int(x) for x in g[0]]
    tr = [int(x) for x in g[1]]
    rs = [int(x) for x in g[2]]
    return hdr, [tuple(tr[i:i + 3]) for i in range(0, len(tr), 3)], [tuple(rs[i:i + 2]) for i in range(0, len(rs), 2)], dec(g[3]), dec(g[4]), [int(x) for x in g[5]]


def sw_killable(id_, lv, dist, kr, ku, rng_min):
    """the expiry rule of ptt/register.go (computeUserExpireValue / checkAndExpireAccount) for an account whose LastLogin lies
    dist seconds before the sweeping clock (dist < 0: the stamp is later than the clock): int32 difference, truncating division"""
    if not id_ or lv & 256 or id_ == b"guest":
        return False
    d = (dist + 2 ** 31) % 2 ** 32 - 2 ** 31
    m = abs(d) // 60 * (1 if d >= 0 else -1)
    v = (30 if id_ == b"new" else kr * 1440 if lv & (16 | 131072) else ku * 1440) - m
    return v < 0 and -v > rng_min


def sweep_predicates(line, out):
    """direct predicates on what the real SetupNewUser calls left behind after a run in which the expiry sweep was armed"""
    g = [x.split() for x in line.split("|")]
    fresh, tab, lv, dl = int(g[1][0]), dec(g[2]), [int(x) for x in g[3]], [int(x) for x in g[4]]
    ids, stamps = dec(g[5]), [int(x) for x in g[6]]
    what = "table: %d accounts, %d free slots, .fresh %s; requests %s with LastLogin - now = %s; schedule %s" % (
        len([i for i in tab if i]), len([i for i in tab if not i]), ["missing", "two hours old", "recent"][fresh], [i.decode() for i in ids], stamps, g[7])
    st = out.split()[:1]
    if st == ["1"]:
        return [("reg-sweep-crash", "a registration on a full table panicked: " + what)], None
    if st == ["2"]:
        return [("reg-sweep-did-not-return", "a registration on a full table did not return within 120 s: " + what)], None
    p = sw_parse(out)
    if p is None:
        return [("reg-sweep-bad-output", "driver output not understood: %s" % out[:200])], None
    (now0, now1, kr, ku, rng_min, semval), tr, rs, idx, pwd, lld = p
    el = max(0, now1 - now0)
    bad = []
    unsure = set()
    killable = {}
    for k, i in enumerate(tab):
        a, b = sw_killable(i, lv[k], -dl[k], kr, ku, rng_min), sw_killable(i, lv[k], -dl[k] + el, kr, ku, rng_min)
        killable[k] = a or b or k == 0 and False
        if a != b:
            unsure.add(k)
    # 1. an account that is not expired for the sweeping clock - in particular one whose stamp is later than that clock - keeps its slot
    for k, i in enumerate(tab):
        if i and (k == 0 or not killable[k]) and (idx[k] != i or pwd[k] != i):
            taker = [ids[t].decode() for t, (e, u) in enumerate(rs) if e == 0 and u == k + 1]
            bad.append(("reg-sweep-live-account-killed", "the account %r in slot %d (level %d, LastLogin = clock of the registering process %+d s: not expired) was removed by the sweep "
                        "a registration ran on the full table; afterwards the index holds %r and .PASSWDS %r there%s; %s" % (
                            i.decode(), k + 1, lv[k], dl[k], idx[k].decode("latin1"), pwd[k].decode("latin1"), " (slot given to %s)" % taker if taker else "", what)))
            break
    # 2. every request that reported success still holds its slot, in the index and in .PASSWDS; no slot was reported twice; the slot was free or its account expired
    succ = [(t, u) for t, (e, u) in enumerate(rs) if e == 0]
    seen = {}
    for t, u in succ:
        if u in seen:
            bad.append(("reg-sweep-shared-slot", "slot %d was given to %r and to %r, both reported success: %s" % (u, ids[seen[u]].decode(), ids[t].decode(), what)))
        seen.setdefault(u, t)
    for t, u in succ:
        if not (1 <= u <= len(idx)) or idx[u - 1] != ids[t] or pwd[u - 1] != ids[t]:
            bad.append(("reg-sweep-success-lost", "%r reported success for slot %d (LastLogin = now %+d s) but afterwards the index holds %r and .PASSWDS %r there: %s" % (
                ids[t].decode(), u, stamps[t], idx[u - 1].decode("latin1") if 1 <= u <= len(idx) else None, pwd[u - 1].decode("latin1") if 1 <= u <= len(pwd) else None, what)))
            break
    for t, u in succ:
        if 1 <= u <= len(tab) and tab[u - 1] and not killable[u - 1]:
            bad.append(("reg-sweep-slot-was-held", "%r was given slot %d, which held the live account %r (LastLogin = now %+d s): %s" % (ids[t].decode(), u, tab[u - 1].decode(), dl[u - 1], what)))
            break
    keys = [low(ids[t]) for t, _ in succ]
    if len(set(keys)) != len(keys):
        bad.append(("reg-sweep-duplicate-id", "a case-insensitive id was registered twice: %s; %s" % ([(ids[t].decode(), u) for t, u in succ], what)))
    final = [low(i) for i in idx if i]
    if len(set(final)) != len(final):
        bad.append(("reg-sweep-duplicate-id", "the final index holds an id twice: %s" % what))
    if idx != pwd:
        k = [k for k in range(len(idx)) if idx[k] != pwd[k]][0]
        bad.append(("reg-sweep-index-passwd-differ", "slot %d: index %r, .PASSWDS %r: %s" % (k + 1, idx[k].decode("latin1"), pwd[k].decode("latin1"), what)))
    # 3. afterwards the table is the initial one minus expired accounts plus exactly the successes
    for k in range(len(idx)):
        if idx[k] and idx[k] != (tab[k] if k < len(tab) else b"") and (k + 1) not in seen:
            bad.append(("reg-sweep-unreported-account", "slot %d holds %r although no request reported success for it: %s" % (k + 1, idx[k].decode("latin1"), what)))
            break
    if semval != 1:
        bad.append(("reg-sweep-sem-value", "the passwd semaphore reads %d after all calls returned: %s" % (semval, what)))
    return bad, (p, unsure, el)


def sweep_section(c, rng, thorough, impl, model, nslots):
    """full and nearly full tables with .fresh missing/stale, accounts stamped before, at and after the clock of the registering
    process, 1-3 registrations (different ids, same id, case twins) whose own stamps are ahead of / behind that clock"""
    names = [b"SYSOP"] + [b"acct%02d" % k for k in range(2, nslots + 1)]
    reqs = [b"newuser1", b"other22", b"NewUser1", b"third3", b"acct07", b"ACCT09"]
    lines, kinds = [], []

    def mk(free, old_share, future_share, fresh, ids, stamps, sched, specials=()):
        tab, lv, dl = list(names), [], []
        for k in range(nslots):
            r = rng.random()
            lv.append(rng.choice(SW_LEVELS))
            dl.append(rng.choice(SW_OLD) if r < old_share else rng.choice([x for x in SW_LIVE if x > 0]) if r < old_share + future_share else rng.choice(SW_LIVE))
        for k, name in specials:
            tab[k] = name
        for k in rng.sample(range(1, nslots), free):
            tab[k], lv[k], dl[k] = b"", 0, 0
        return sw_line(fresh, tab, lv, dl, ids, stamps, sched)

    # the plain history first: the table is full but for one slot, A takes it with a stamp ahead of the clock, B (another id) arrives
    for ahead in (3600, 5, DAY, 0, -5):
        for fresh in (0, 1):
            lines.append(mk(1, 0, 0.3, fresh, [b"newuser1", b"other22"], [ahead, 0], [0, 0, 0, 0, 1, 1, 1, 1])); kinds.append("sweep/last-slot-then-full")
    for fresh in (0, 1, 2):
        lines.append(mk(0, 0, 0.5, fresh, [b"newuser1"], [0], [0, 0, 0, 0])); kinds.append("sweep/full-live-table")
        lines.append(mk(0, 0.3, 0.3, fresh, [b"newuser1", b"other22"], [0, 3600], [0, 1, 0, 0, 0, 1, 1, 1])); kinds.append("sweep/full-some-expired")
    lines.append(mk(0, 0, 0.2, 0, [b"newuser1"], [0], [0, 0, 0, 0], specials=[(5, b"new"), (6, b"guest")])); kinds.append("sweep/special-ids")
    n = 900 if thorough else 110
    scheds2 = list(interleavings([4, 4]))
    for r in range(n):
        nt = rng.choice([1, 2, 2, 2, 3])
        ids = rng.sample(reqs, nt)
        if rng.random() < 0.25 and nt >= 2:
            ids[1] = rng.choice([ids[0], ids[0].swapcase()])
        stamps = [rng.choice([0, 0, 5, 3600, DAY, -5, -3600]) for _ in range(nt)]
        sched = list(rng.choice(scheds2)) if nt == 2 else [rng.randrange(nt) for _ in range(4 * nt)]
        lines.append(mk(rng.choice([0, 0, 0, 1, 1, 2]), rng.choice([0, 0, 0.2, 0.5]), rng.choice([0.2, 0.5]), rng.choice([0, 0, 1, 1, 2]), ids, stamps, sched))
        kinds.append("sweep/sampled-%d" % nt)
    io = vf.run_impl(impl, "C15", lines, deadline_ms=600000)
    vf.ipc_cleanup()
    c.count(len(lines), "registrations on full tables with the expiry sweep armed")
    mlines, midx, stats = [], [], {"sweeps that freed a slot": 0, "requests refused for want of a slot": 0, "successes": 0, "successes in a slot freed by the sweep": 0,
                                   "accounts stamped after the clock, kept": 0, "cases skipped (clock moved across a threshold)": 0}
    for k, (line, o) in enumerate(zip(lines, io)):
        bad, info = sweep_predicates(line, o)
        for key, desc in bad:
            c.violation(key, desc, {"cases": [line], "got": o[:3000], "nslots": nslots,
                                    "expected": {"accounts not expired for the sweeping clock (LastLogin recent or later than the clock)": "keep their slots", "successes": "distinct slots that were free or held an expired account; still in index and .PASSWDS afterwards",
                                                 "index and .PASSWDS": "agree; initial table minus expired accounts plus exactly the successes", "passwd semaphore": 1}})
        if info is None:
            continue
        (hdr, tr, rs, idx, pwd, lld), unsure, el = info
        g = [x.split() for x in line.split("|")]
        tab, dl = dec(g[2]), [int(x) for x in g[4]]
        c.nontrivial((kinds[k], tuple(tr), tuple(rs), tuple(i for i in idx)))
        gone = [j for j, i in enumerate(tab) if i and idx[j] != i]
        stats["sweeps that freed a slot"] += 1 if gone else 0
        stats["requests refused for want of a slot"] += len([1 for e, u in rs if e == 2])
        stats["successes"] += len([1 for e, u in rs if e == 0])
        stats["successes in a slot freed by the sweep"] += len([1 for e, u in rs if e == 0 and u - 1 in gone])
        stats["accounts stamped after the clock, kept"] += len([1 for j, i in enumerate(tab) if i and dl[j] > 0 and idx[j] == i])
        if unsure:
            stats["cases skipped (clock moved across a threshold)"] += 1
            continue
        now0 = hdr[0]
        if hdr[2:5] != [120, 15, 262800]:
            c.broken.append({"kind": "correspondence", "where": "ptttype KEEP_DAYS_REGGED / KEEP_DAYS_UNREGGED / CLEAN_USER_EXPIRE_RANGE_MIN vs Model/C15", "theorem": "C15_sweep_spares_live",
                             "mismatches": 1, "examples": [hdr], "log": ""})
            break
        mlines.append("3|%d %s|%s|%s|%s|%s|%s|%s" % (now0, g[1][0], " ".join(g[2]), " ".join(g[3]), " ".join(str(now0 + d if tab[j] else 0) for j, d in enumerate(dl)),
                                                   " ".join(g[5]), " ".join(str(now0 + int(x)) for x in g[6]), " ".join(str(t) for t, code, v in tr)))
        midx.append(k)
    c.cov["sweep_runs"] = stats
    if model and mlines:
        mo = vf.run_model(model, mlines)
        badm = []
        for k, ml, m in zip(midx, mlines, mo):
            (hdr, tr, rs, idx, pwd, lld) = sw_parse(io[k])
            want = "0 " + " ".join("%d %d" % r for r in rs) + " -1 " + enc(pwd) + " -1 " + " ".join(map(str, lld))
            if " ".join(m.split()) != " ".join(want.split()):
                badm.append({"case": lines[k], "impl": io[k][:1500], "model_case": ml[:1500], "model": m[:1500]})
        c.cov["sweep_runs_validated_against_model"] = len(mlines)
        if badm:
            c.broken.append({"kind": "correspondence", "where": "SetupNewUser with the expiry sweep (driver op 6) vs Model/C15 sw_run", "theorem": "C15_sweep_identity_on_live / C15_sweep_keeps_live_slot",
                             "mismatches": len(badm), "examples": badm[:3], "log": ""})
    c.sample({"kind": kinds[0], "case": lines[0][:300], "observed": io[0][:300]})


def big_section(c, rng, thorough, model):
    """registration races on the production table sizes (second driver, -tags docker: MAX_USERS = 2 000 000 > 65 536 buckets):
    existing accounts in slots above the number of buckets share the bucket of the id being registered and precede it in the
    chain; new accounts themselves land in slots above 65 536 (slots 1..nfill occupied); the same predicates decide."""
    impl = vf.build_impl(tags=BIG_TAGS, name=BIG_NAME)
    olds = [b"Oldtimer", b"Veteran9", b"Pioneer01", b"ancientOne", b"Founder"]
    rng.shuffle(olds)
    olds = olds[:5 if thorough else 3]
    q = vf.run_impl(impl, "C15", ["5|%s|%s|6" % (" ".join(map(str, o)), " ".join(map(str, b"Sd"))) for o in olds], deadline_ms=60000)
    vf.ipc_cleanup()
    mates = {}
    for o, r in zip(olds, q):
        f = r.split()
        if f[:1] != ["0"] or len(f) < 9 or int(f[2]) != BIG_MAX_USERS:
            c.violation("reg-driver", "the driver built with -tags docker did not answer the bucket query as expected", {"cases": [], "got": r[:300], "expected": "0 bucket %d n1..n6" % BIG_MAX_USERS})
            return
        mates[o] = [int(x) for x in f[3:]]                          # Sd<n> falls into the bucket of the old account
    def twins(n):
        return [b"Sd%d" % n, b"SD%d" % n, b"sd%d" % n, b"sD%d" % n]
    HIGH = [65537, 65538, 70001, 65600, 131073, 99999]             # slots above the number of buckets (uid 65 537 is the first)
    cases, kinds = [], []
    for o in olds[:2]:                                              # the witness and the re-check window, behind a high-slot account
        n, n2 = mates[o][0], mates[o][1]
        for kind, ids in (("same", [twins(n)[0]] * 2), ("case-twins", twins(n)[1:3]), ("different", [twins(n)[0], twins(n2)[0]])):
            for procs in ([0, 0], [0, 1]):
                slot = rng.choice(HIGH)
                sch = list(WITNESS) if procs == [0, 1] or kind == "different" else rng.choice(list(interleavings([4, 4])))
                cases.append(BigCase(0, slot + 1, 0, {slot: o}, [(procs, ids, sch), ([0], [rng.choice([b"late99", twins(n)[3]])], [])]))
                kinds.append("production-size/behind-high-slot/" + kind)
    for _ in range(400 if thorough else 14):                        # sampled: 2-3 registrations, 1-2 old accounts in the bucket (high and low slots),
        o = rng.choice(olds)                                        # ids of the bucket (twins, different), the old account's own id in another case
        ns = mates[o]
        planted = {rng.choice(HIGH): o}
        if rng.random() < 0.5:
            planted[rng.choice([3, 7, 65536, 65535, 66000, 140000])] = b"Sd%d" % ns[5]
        nt = rng.choice([2, 2, 3])
        pool = twins(ns[0]) + twins(ns[1])[:2] + [o.swapcase(), b"other22"]
        ids = [rng.choice(pool) for _ in range(nt)]
        s = [t for t in range(nt) for _ in range(4)]
        rng.shuffle(s)
        nproc = rng.choice([1, 2, 3])
        cases.append(BigCase(rng.choice([0, 0, 0, 1]), max(planted) + rng.choice([1, 5]), 0, planted,
                             [([rng.randrange(nproc) for _ in range(nt)], ids, s), ([0], [rng.choice([b"late99", pool[0], o.lower()])], [])]))
        kinds.append("production-size/sampled/%dx" % nt)
    for k in range(40 if thorough else 4):                          # slots 1..nfill occupied: the new accounts themselves get slots above 65 536
        o = rng.choice(olds)
        ns = mates[o]
        nfill = rng.choice([65536, 65540, 66000, 65535])
        kind = ["same", "case-twins", "different", "case-twins"][k % 4]
        ids = {"same": [twins(ns[0])[0]] * 2, "case-twins": twins(ns[0])[1:3], "different": [twins(ns[0])[0], twins(ns[1])[0]]}[kind]
        s = [0] * 4 + [1] * 4
        rng.shuffle(s)
        planted = {nfill + 40: o} if k % 2 else {}
        cases.append(BigCase(0, nfill + 60, nfill, planted, [([0, k % 2], ids, s if k >= 2 else list(WITNESS)), ([0, 0], [twins(ns[0])[3], b"late99"], [0, 1, 1, 0, 0, 1, 0, 1])]))
        kinds.append("production-size/new-accounts-in-high-slots/" + kind)
    if thorough:                                                    # the last slots of the table: a .PASSWDS of 2 000 000 records (1 GB)
        o = olds[0]
        cases.append(BigCase(0, BIG_MAX_USERS, 0, {BIG_MAX_USERS - 1: o}, [([0, 1], twins(mates[o][0])[1:3], list(WITNESS)), ([0], [b"late99"], [])]))
        kinds.append("production-size/last-slots")
    lines = [cs.line() for cs in cases]
    io = run_cases(impl, lines, par=4)
    vf.ipc_cleanup()
    c.count(len(lines), "forced interleavings on production-size tables (driver built with -tags docker)")
    mlines, wants, midx = [], [], []
    outcomes = {}
    for k, (case, line, o) in enumerate(zip(cases, lines, io)):
        c.cov["distribution"][kinds[k]] = c.cov["distribution"].get(kinds[k], 0) + 1
        for key, desc in predicates(case, o, BIG_MAX_USERS):
            c.violation(key, desc, {"cases": [line], "got": o[:3000], "nslots": BIG_MAX_USERS, "build": "go build -tags '%s' (lib/vf.py build_impl(tags, name=%r)); ./check C15 --replay <this file> builds it" % (BIG_TAGS, BIG_NAME),
                                    "expected": {"successes per case-insensitive id": "at most 1, none for an id an existing account holds", "slots": "distinct, previously free",
                                                 "index and .PASSWDS": "initial table + exactly the successes", "lookup": "every account of the index is found by cache.DoSearchUserRaw"}})
        p = parse_big(case, o, BIG_MAX_USERS)
        if p is None:
            continue
        ev, rs, look, idx, pwd, extra = p
        c.nontrivial(("production-size", tuple(case.procs), tuple(case.ids), tuple(sorted(case.planted.items())), case.nfill, tuple(ev)))
        oc = "".join("S" if code == 1 else {1: "E", 2: "N", 104: "I"}.get(v, "?") for code, v, _ in rs)
        outcomes[oc] = outcomes.get(oc, 0) + 1
        cm = compact(case, ev, rs, idx, pwd, extra[3], 50)
        if cm is None:
            c.broken.append({"kind": "correspondence", "where": "production-size run vs Model/C15 replay", "theorem": "trace validation",
                             "mismatches": 1, "examples": [{"case": line, "impl": o[:2000], "why": "a result or a changed slot lies outside the planted accounts and the first free slots"}], "log": ""})
            continue
        mlines.append("2|%s|%s|%s|%s" % (" ".join(map(str, case.procs)), enc(case.ids), enc(cm[0]), " ".join(map(str, model_schedule(ev)))))
        wants.append(cm[1]); midx.append(k)
    c.cov["production_size_outcomes(per call: S=registered,E=exists,N=no slot,I=semop interrupted)"] = outcomes
    if model and mlines:
        mo = vf.run_model(model, mlines)
        badm = [{"case": lines[k], "impl": io[k][:2000], "model_case": ml, "model": m, "expected_after_renumbering": w}
                for k, ml, m, w in zip(midx, mlines, mo, wants) if " ".join(m.split()) != " ".join(w.split())]
        c.cov["production_size_traces_validated_against_model"] = len(mlines)
        if badm:
            c.broken.append({"kind": "correspondence", "where": "observed SetupNewUser traces on production-size tables vs Model/C15 replay (slots renumbered in ascending order)",
                             "theorem": "trace validation", "mismatches": len(badm), "examples": badm[:3], "log": ""})
    for k in (0, len(cases) - 1):
        c.sample({"kind": kinds[k], "history": cases[k].describe(), "observed": io[k][:400]})


def main():
    if "--replay" in sys.argv:
        replay_main(sys.argv[sys.argv.index("--replay") + 1])
    c = vf.Check("C15")
    rng = c.rng
    thorough = c.tier == "thorough"
    c.prove()
    model_ok = c.model_ok()
    impl = vf.build_impl()
    model = vf.build_model("C15") if model_ok else None
    vf.ipc_cleanup()

    fx = fixture_ids()
    nslots = len(fx)                                                # MAX_USERS records in the fixture
    used = [i for i in fx if i]
    fillers = [b"filler%02d" % k for k in range(nslots)]
    def table(free):
        t = (used + fillers)[:nslots - free]
        return t + [b""] * free
    T_STD = fx
    pairs = {"same": (b"newuser1", b"newuser1"), "case-twins": (b"newuser1", b"NewUser1"), "different": (b"newuser1", b"other22")}
    cases, kinds = [], []
    # the witness schedule first: in one process, across two processes, through NewRegister
    for procs, mode in (([0, 0], 0), ([0, 1], 0), ([0, 1], 1)):
        for kind in ("same", "case-twins"):
            cases.append(single(mode, procs, list(pairs[kind]) + [b"late99"], T_STD, WITNESS)); kinds.append("witness/" + kind)
    nw = len(cases)
    for procs in ([0, 0], [0, 1]):
        for kind, (a, b) in sorted(pairs.items()):
            for s in interleavings([4, 4]):                         # every interleaving of two registrations at the 4 segments
                cases.append(single(0, procs, [a, b, b"late99"], T_STD, s)); kinds.append("2x/" + kind)
    n2 = len(cases)
    pool = [b"newuser1", b"NewUser1", b"NEWUSER1", b"other22", b"Other22", b"zed", b"sysop", b"Kahou2"]
    three = [[0, 0, 0], [0, 0, 1], [0, 1, 0], [0, 1, 1], [0, 1, 2]]
    for _ in range(1500 if thorough else 90):
        procs = rng.choice(three)
        ids = [rng.choice(pool) for _ in range(3)] + [rng.choice([b"late99", b"late99", pool[0], pool[3]])]
        s = [0] * 4 + [1] * 4 + [2] * 4
        rng.shuffle(s)
        free = rng.choice([10, 10, 3, 2, 1, 1, 0])
        cases.append(single(rng.choice([0, 0, 0, 1]), procs, ids, table(free), s)); kinds.append("3x/free=%d" % free)
    for _ in range(600 if thorough else 40):                       # two registrations racing for the last slot(s), any ids
        procs = rng.choice([[0, 0], [0, 1]])
        ids = [rng.choice(pool[:6]) for _ in range(2)] + [b"late99"]
        s = [0] * 4 + [1] * 4
        rng.shuffle(s)
        free = rng.choice([1, 1, 2, 0])
        cases.append(single(0, procs, ids, table(free), s)); kinds.append("2x/free=%d" % free)
    nsingle = len(cases)
    # ---- histories: a phase that ends with a refusal INSIDE the lock (the loser of a same-id / case-twin race is refused by
    # the lookup under the semaphore; the loser of a race for the last free slot finds none), then registrations interleaved
    # on the same semaphore, table and worker processes. The lock must be as exclusive after an error path as before it.
    refusals = {"same": ([b"dupuser1", b"dupuser1"], None), "case-twins": ([b"dupuser1", b"DupUser1"], None),
                "last-slot": ([b"dupuser1", b"another1"], 1)}
    for procs1, procs2 in (([0, 0], [0, 0]), ([0, 1], [0, 1]), ([0, 0], [1, 1])):
        for s in interleavings([4, 4]):                             # every interleaving of two registrations after a same-id refusal inside the lock
            cases.append(Case(0, T_STD, [(procs1, refusals["same"][0], WITNESS), (procs2, [b"newuser1", b"other22"], s), ([0], [b"late99"], [])]))
            kinds.append("history/refused-inside,2x")
    nh2 = len(cases)
    for _ in range(800 if thorough else 70):
        kind = rng.choice(sorted(refusals))
        ids1, free1 = refusals[kind]
        nproc = rng.choice([1, 2, 3])
        phases = [([rng.randrange(nproc) for _ in range(2)], ids1, WITNESS)]
        free = free1 if free1 is not None else rng.choice([10, 10, 3, 2])
        if rng.random() < 0.3:                                      # a second refusal inside the lock before the interleaving
            k2 = rng.choice(["same", "case-twins"])
            phases.append(([rng.randrange(nproc) for _ in range(2)], [b"Again77" if k2 == "same" else b"AGAIN77", b"Again77"], WITNESS))
        nt = rng.choice([2, 3, 3])
        ids = [rng.choice(pool + [b"dupuser1", b"fresh01", b"fresh02"]) for _ in range(nt)]
        s = [t for t in range(nt) for _ in range(4)]
        rng.shuffle(s)
        phases.append(([rng.randrange(nproc) for _ in range(nt)], ids, s))
        phases.append(([0], [rng.choice([b"late99", b"late99", pool[3]])], []))
        cases.append(Case(rng.choice([0, 0, 0, 1]), table(free), phases)); kinds.append("history/%s,%dx" % (kind, nt))
    nhist = len(cases)
    # ---- processes joining and leaving while registrations are in flight. A joining process is exec'ed at the token Jp and
    # runs the normal start-up (attach shared memory, cmbbs.PasswdInit with no handle yet: the semaphore exists, attach path)
    # while the calls of the others are parked wherever the schedule left them - before the check, after it, waiting for the
    # semaphore, holding it before the slot search, holding it after the write, returned. Starting must not touch the lock.
    for kind, (a, b) in sorted(pairs.items()):
        for s in interleavings([4, 4]):                             # A in process 0; B in process 1, which joins before B's first step
            for j in range(s.index(1) + 1):
                cases.append(Case(0, T_STD, [([0, 1], [a, b], s[:j] + [J(1)] + s[j:]), ([0], [b"late99"], [])])); kinds.append("join/2x/" + kind)
    njoin2 = len(cases)
    for _ in range(1200 if thorough else 80):                       # 3 registrations, 1-2 joiners, other processes around, few free slots
        nt = 3
        joiners = rng.choice([[2], [2], [1, 2], [2, 3]])
        procs = [rng.choice([0, 0, 1] + joiners) for _ in range(nt)]
        procs[rng.randrange(nt)] = joiners[0]
        ids = [rng.choice(pool) for _ in range(nt)]
        s = [t for t in range(nt) for _ in range(4)]
        rng.shuffle(s)
        for p in joiners:                                           # the join goes anywhere; calls of a process not yet up start after it
            s.insert(rng.randrange(len(s) + 1), J(p))
        free = rng.choice([10, 10, 3, 2, 1])
        cases.append(Case(rng.choice([0, 0, 0, 1]), table(free), [(procs, ids, s), ([rng.choice([0] + joiners)], [rng.choice([b"late99", pool[0], pool[3]])], [])]))
        kinds.append("join/3x/free=%d" % free)
    njoin = len(cases)
    # A process leaving - exit (Qp) or SIGKILL (Kp) - with its calls parked anywhere: SEM_UNDO must give the semaphore back exactly
    # when a call of that process held it; a waiter of another process then gets it; registrations issued afterwards (the id of
    # the dead call, another id) must get through, and every reading obeys the same rule (0 with a call inside, else 1).
    for tk in (Q, K):
        for cproc in (0, 1):                                        # A in process 1 (which goes away); C in process 0, or in process 1 too
            for na in range(4):
                for nc in range(4):
                    for s in interleavings([na, nc]):               # every position of A and C (0..3 segments done each), every order
                        s2 = [0, 0, 0, 0, 1, 1, 1, 1]
                        rng.shuffle(s2)
                        cases.append(Case(0, T_STD, [([1, cproc], [b"newuser1", b"other22"], s + [tk(1)]),
                                                     ([0, 0], [b"newuser1", b"fresh01"], s2), ([0], [b"late99"], [])]))
                        kinds.append("leave/2x/" + ("exit" if tk is Q else "kill"))
    nleave2 = len(cases)
    for _ in range(1500 if thorough else 100):                      # churn: 2-3 registrations over 3 processes, one leaves at a random
        nt = rng.choice([2, 3, 3])                                  # moment, sometimes another one joins before or after, then more calls
        procs = [rng.choice([0, 1, 1, 2]) for _ in range(nt)]
        ids = [rng.choice(pool) for _ in range(nt)]
        s = [t for t in range(nt) for _ in range(4)]
        rng.shuffle(s)
        victim = rng.choice([1, 1, 2])
        s.insert(rng.randrange(len(s) + 1), rng.choice([Q, K])(victim))
        p2 = [0]
        if rng.random() < 0.5:
            s.insert(rng.randrange(len(s) + 1), J(3))
            p2 = [0, 3]
        nt2 = rng.choice([1, 2])
        s2 = [t for t in range(nt2) for _ in range(4)]
        rng.shuffle(s2)
        free = rng.choice([10, 10, 3, 2])
        cases.append(Case(rng.choice([0, 0, 0, 1]), table(free), [(procs, ids, s), ([rng.choice(p2) for _ in range(nt2)], [rng.choice(ids + [b"fresh01"]) for _ in range(nt2)], s2),
                                                                    ([0], [b"late99"], [])]))
        kinds.append("churn/%dx/free=%d" % (nt, free))
    lines = [cs.line() for cs in cases]
    io = run_cases(impl, lines)
    vf.ipc_cleanup()
    c.count(len(lines), "forced interleavings")
    for k in kinds:
        c.cov["distribution"][k] = c.cov["distribution"].get(k, 0) + 1
    c.cov["exhaustive_parts"] = ["all 70 interleavings of 2 registrations at the 4 segments (check / lock / critical section / unlock) x {same id, ids differing in case, different ids} x {one process, two processes} (%d executions)" % (n2 - nw),
                                 "all 70 interleavings of 2 registrations of different ids issued after a same-id race whose loser was refused inside the lock, on the same semaphore x {one process, two processes, refusal and interleaving in different processes} (%d executions)" % (nh2 - nsingle),
                                 "a process joining (exec + start-up with cmbbs.PasswdInit on the attach path) at every point of every interleaving of 2 registrations (one in a running process, one in the joining process) before the joiner's first step x {same id, ids differing in case, different ids} (%d executions)" % (njoin2 - nhist),
                                 "a process leaving (exit, SIGKILL) with its registration after 0..3 of its 4 segments and a second registration (same process / another process) after 0..3 segments, every order of these steps, followed by 2 interleaved registrations (the dead call's id, another id) and a late one (%d executions)" % (nleave2 - njoin)]

    mlines, midx = [], []
    outcomes = {}
    nsem = 0
    for k, (case, line, o) in enumerate(zip(cases, lines, io)):
        bad = predicates(case, o, nslots)
        for key, desc in bad:
            c.violation(key, desc, {"cases": [line], "got": o, "nslots": nslots,
                                    "expected": {"successes per case-insensitive id": "at most 1", "slots": "distinct, previously free", "index and .PASSWDS": "initial table + exactly the successes",
                                                 "passwd semaphore": "never above 1; 0 while a call is inside the lock; 1 when none is, in particular after every phase; never two calls inside"}})
        p = parse(o)
        if p is None:
            continue
        ev, rs, look, idx, pwd = p
        c.nontrivial((kinds[k].split("/")[0], tuple(case.procs), tuple(case.ids), len([i for i in case.tab if i]), tuple(ev)))
        oc = "".join("S" if code == 1 else "D" if code == 3 else {1: "E", 2: "N", 104: "I"}.get(v, "?") for code, v, _ in rs[:-1])
        outcomes[oc] = outcomes.get(oc, 0) + 1
        nsem += len([1 for e in ev if e[1] == 11])
        # ---- the observed trace must be a trace of the model with the same outcome
        mlines.append("2|%s|%s|%s|%s" % (" ".join(map(str, case.procs)), enc(case.ids), enc(case.tab), " ".join(map(str, model_schedule(ev)))))
        midx.append(k)
    c.cov["outcomes(S=registered,E=exists,N=no slot,I=semop interrupted,D=process went away)"] = outcomes
    c.cov["semaphore_readings_checked"] = nsem
    if model and mlines:
        mo = vf.run_model(model, mlines)
        badm = []
        for k, ml, m in zip(midx, mlines, mo):
            ev, rs, look, idx, pwd = parse(io[k])
            obs = [v for _, code, v in ev if code == 11]
            want = "0 " + " ".join("%d %d" % (code, v) for code, v, _ in rs) + " -1 " + enc(idx) + " -1 " + enc(pwd) \
                   + " -1 " + " ".join(map(str, obs)) + " -1 %d" % (obs[-1] if obs else -1)
            if " ".join(m.split()) != " ".join(want.split()):
                badm.append({"case": lines[k], "impl": io[k], "model_case": ml, "model": m})
        c.cov["traces_validated_against_impl"] = len(mlines)
        if badm:
            c.broken.append({"kind": "correspondence", "where": "observed SetupNewUser traces vs Model/C15 replay",
                             "theorem": "trace validation (replay accepts the observed trace with the same results, index and .PASSWDS ids, and the same semaphore value at every reading)",
                             "mismatches": len(badm), "examples": badm[:3], "log": ""})
    # ---- unscheduled runs: real concurrency, no schedule points held (the model is not involved)
    spool = [b"user%02d" % k for k in range(12)] + [b"USER%02d" % k for k in range(6)] + [b"sysop"]
    scases = []
    for r in range(200 if thorough else 10):
        shape = rng.choice([(2, 8), (3, 6), (1, 16), (2, 12)])
        pool = list(spool)
        rng.shuffle(pool)
        scases.append((shape, pool, table(rng.choice([10, 10, 5, 20])), 0))
    for r in range(120 if thorough else 8):                         # processes start up while the others register; few free slots, so that
        shape = rng.choice([(2, 8), (2, 6), (1, 12), (3, 4)])       # nearly every call goes through the lock (and is refused for want of a slot)
        pool = list(spool)
        rng.shuffle(pool)
        nj = rng.choice([1, 2, 2])
        scases.append(((shape[0] + nj, shape[1]), pool, table(rng.choice([3, 5, 2])), nj))
    SROUNDS = 12                                                    # long enough for the start-up of the joiners to fall among the registrations
    slines = ["2|%d %d%s|%s|%s" % (sh[0] - nj, sh[1], " %d %d" % (nj, SROUNDS) if nj else "", enc(pool), enc(tab)) for sh, pool, tab, nj in scases]
    sio = run_cases(impl, slines, par=4)
    vf.ipc_cleanup()
    c.count(len(slines), "unscheduled stress runs")
    sstats = {}
    for (sh, pool, tab, nj), line, o in zip(scases, slines, sio):
        bad, st = stress_predicates(pool, tab, sh, o, nslots, nj, SROUNDS if nj else 1)
        for k, v in st.items():
            sstats[k] = sstats.get(k, 0) + v
        for key, desc in bad:
            c.violation(key, desc, {"cases": [line], "got": o[:3000], "nslots": nslots})
        c.nontrivial(("stress", sh, nj, tuple(pool), tuple(sorted(st.items()))))
    c.cov["stress_call_results"] = sstats
    sweep_section(c, rng, thorough, impl, model, nslots)
    big_section(c, rng, thorough, model)
    c.cov["did_not_return(reported under parallel load / re-run alone with 8x waits / returned on the re-run)"] = [RERUN["reported"], RERUN["rerun"], RERUN["returned_on_rerun"]]
    for k in (0, nw + 5, n2 + 1, nsingle + 5, nh2 + 1, nhist + 7, njoin2 + 1, njoin + 40, nleave2 + 1):
        c.sample({"kind": kinds[k], "history": cases[k].describe(), "observed": io[k][:400]})

    c.finish(rule="the witness schedule (Check,Check,Lock..Unlock,Lock..Unlock) in one process, across two processes and through NewRegister; every interleaving of 2 registrations "
                  "(4 segments each) x 3 id relations x in-process/cross-process; PRNG(seed)-sampled interleavings of 3 registrations over 1..3 processes on tables with 10/3/2/1/0 free slots and of "
                  "2 registrations racing for the last slots; histories on one semaphore/table/set of workers: a refusal inside the lock (same id, case twins, last free slot; sometimes two) followed by "
                  "every interleaving of 2 registrations (x 3 process layouts) and PRNG(seed)-sampled interleavings of 2-3 registrations over 1..3 processes, then a late registration; "
                  "processes joining and leaving while registrations are in flight: a worker process started (exec, shared-memory attach, cmbbs.PasswdInit on the attach path) at every point of every "
                  "interleaving of 2 registrations before the joiner's own first step x 3 id relations, PRNG(seed)-sampled 3-registration histories with 1-2 joiners; a worker process exiting / killed with its "
                  "registration after 0..3 segments and a second registration (same / other process) after 0..3 segments in every order, then registrations of the dead call's id and of another id; "
                  "PRNG(seed)-sampled churn (a process leaves at a random moment, sometimes another joins, more calls); unscheduled runs in which 1-2 processes start up while the others register on a nearly full table; "
                  "the driver reads the semaphore value (semctl GETVAL, workers alive) before the first call, after every controller step and after every phase, and after every unscheduled run; "
                  "production table sizes (second driver, go build -tags 'verif docker': MAX_USERS = 2 000 000 slots, 65 536 buckets): 3 ids x {same, case twins, different ids of one bucket} x {one, two processes} "
                  "registered behind an existing account planted in a slot above 65 536 that shares their bucket (witness schedule and PRNG(seed)-sampled interleavings), PRNG(seed)-sampled 2-3 registrations over 1..3 processes "
                  "with 1-2 such accounts in high and low slots (also registering the old account's own id in another letter case), and tables whose slots 1..65 535/65 536/65 540/66 000 are occupied so that the new accounts "
                  "get slots above 65 536; each followed by a late registration; the driver looks every account of the final index up through cache.DoSearchUserRaw; "
                  "registrations on full tables with the expiry sweep armed (op 6): the last free slot taken by a request stamped 3600/5/86400/0/-5 s relative to the clock and a second request of another id x {.fresh missing, stale}; "
                  "full tables of live accounts, of partly expired accounts, with the ids new/guest, x {.fresh missing, stale, recent}; PRNG(seed)-sampled 1-3 registrations (different ids, same id, case twins, ids of existing accounts) "
                  "with stamps ahead of/behind the clock on tables with 0-2 free slots, 0-50% expired and 20-50% future-stamped accounts, sampled interleavings; "
                  "a case is non-trivial/distinct by its (shape, process assignment, ids, table fill, observed event trace)",
             assumptions=["semop(2) on the passwd semaphore is an atomic P/V granting exclusivity; one DoSearchUserRaw / SetUserID / .PASSWDS record write is one atomic step of the model (the controller serialises the threads at the schedule points)",
                          "tryCleanUser is a no-op (.fresh recent) in every run but those of driver op 6; there the sweep is armed (.fresh missing / two hours old) and the table holds accounts whose LastLogin lies before, at and "
                          "after the clock of the registering process (1 s .. 10 years later: a request served while the clock was ahead); the real clock cannot be set, so the stamps are placed relative to the clock the driver reads, "
                          "every stamp at least a day away from an expiry threshold, and a case in which the clock moved across a threshold between the first and the last reading is not judged (none in practice); "
                          "a call leaves reg.checked (sweep + semop) only while no call is inside the lock - a sweep running truly in parallel with the critical section of another call is not forced; "
                          "the sweep theorems (C15_sweep_*) are about the table function and the sequential machine sw_step validated against these runs, not about the interleaving relation of the other theorems",
                          "a call that has not produced the event the controller waits for after 8 s - and, run again alone, after 64 s - never returns (status 2 is only kept when the re-run alone with 8 times longer waits hangs as well)",
                          "SEM_UNDO: when a process goes away (exit or SIGKILL) the kernel adds its per-process adjustment to the semaphore before the parent's wait returns; the harness stops a process only while its calls are parked at the schedule points, in semop, or not started",
                          "a call whose process went away after it had written the index and .PASSWDS (seen at reg.beforeUnlock) holds its slot and id although it never returned",
                          "free slots are chained in ascending order after a load (the model takes the lowest free slot; checked by the trace validation)",
                          "production-size runs (-tags docker): the quick tier uses .PASSWDS files of 65 538 .. 140 005 records with accounts in slots up to 140 000; the last slots of the 2 000 000-slot table (a 1 GB .PASSWDS) are exercised in the thorough tier only; "
                          "their traces are validated against the model after renumbering the slots that matter (planted accounts, the first free slots) in ascending order into the model's 50-slot table - the generated accounts, "
                          "which no request names, are dropped; the verdicts come from the predicates on the real slot numbers, not from this renumbering",
                          "only SetupNewUser/NewRegister and the id-index lookup are run on the production sizes; joins/leaves of processes and the semaphore histories are exercised on the default table sizes (the semaphore code does not depend on MAX_USERS)"])


if __name__ == "__main__":
    main()
