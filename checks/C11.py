#!/usr/bin/env python3
"""C11 — board lookup and board listings equal a scan of the board table.
Proofs in coq/Props/C11.v (generic search development in coq/Base/OddSearch.v); correspondence of the extracted
model with cache.* / bbs.* on real shared memory loaded from harness-written .BRD files; the deciding predicates
compare the implementation's answers with scans of the table written here (C string order, independent of Go)."""
import itertools, os, sys
sys.path.insert(0, os.path.join(os.path.dirname(os.path.abspath(__file__)), "..", "lib"))
import vf

POOL = ["", "a", "A", "ab", "aB", "abc", "b", "aZ", "0z"]          # shared prefixes, case twins, a vacated slot
CLASSES = ["AAAA ", "BBBB ", "AAAAx"]                                 # the third has a non-blank fifth byte
PROBES = ["!", "zz", "aa", "B", "AB", "Abc", "az", "0Z"]              # below first, above last, absent, other letter cases
PREFIXES = ["a", "A", "ab", "aB", "abc", "b", "aZ", "az", "0", "z", "ABCDEFGHIJKL", "a@", "a\xff"]
# last bytes the descending search cannot increment: 'Z' (pool), '@' and 0xFF (the two tables below); C11_autocomplete excludes exactly these
SPECIAL = [["a@", "a_a", "a_b", "aa"], ["a", "ab", "a\xff"]]
LONG = ["ABCDEFGHIJKLM", "abcdefghijklmnop"]                          # 13 and 16 bytes
# classes for the by-class listing walks (Title[:5], fifth byte blank): 0..4 characters padded with blanks to 4 columns,
# sharing prefixes ("N" < "NA" < "NB" < "NBA" < "NBAB"), one padded with NULs instead of blanks, and Big5-like classes of high
# bytes (two columns per character; the second one exercises '-' and '_' of the cursor's URL-safe base64)
WCLASSES = ["N    ", "NB   ", "NBA  ", "NBAB ", "NA   ", "A    ", "     ", "NB\0\0 ", "\xa4\xdf\xb1\x6f ", "\xa4\xdf   ", "\xfb\xef\xbf  "]
WPAIRS = [("NB   ", "NBA  "), ("N    ", "NB   "), ("NB   ", "NB\0\0 "), ("NBA  ", "NBAB "), ("     ", "A    "), ("NA   ", "NB   "),
          ("\xa4\xdf   ", "\xa4\xdf\xb1\x6f ")]


def low(s):
    return bytes(c + 32 if 65 <= c <= 90 else c for c in s.encode("latin-1"))


def ccmp(a, b):
    """sign of C strcmp on byte strings (no NULs inside)"""
    return (a > b) - (a < b)


def casecmp(a, b):
    return ccmp(low(a), low(b))


def toks(s):
    return " ".join(str(c) for c in s.encode("latin-1"))


def names_wire(names):
    return " ".join((toks(n) + " 0") if n else "0" for n in names)


def titles_wire(titles):
    return " ".join(toks(t) for t in titles)


def board_class(t5):
    return t5[:4] if t5[4] == " " else t5[:5]


def main():
    c = vf.Check("C11")
    rng = c.rng
    thorough = c.tier == "thorough"
    c.prove()
    model_ok = c.model_ok()
    impl = vf.build_impl()
    model = vf.build_model("C11") if model_ok else None
    vf.ipc_cleanup()

    NALL = 4 if thorough else 3          # all ordered selections up to this size
    NMAX = 5 if thorough else 4
    tables = []
    for n in range(0, NMAX + 1):
        if n <= NALL:
            sels = list(itertools.permutations(POOL, n))
        else:
            sels = []
            for comb in itertools.combinations(POOL, n):          # every subset, a few orders each
                perms = list(itertools.permutations(comb))
                sels += rng.sample(perms, 3 if not thorough else 6)
        for sel in sels:
            titles = []
            for pos, nm in enumerate(sel):
                titles.append("\0\0\0\0\0" if nm == "" else CLASSES[(pos + len(nm)) % 3])
            tables.append((list(sel), titles))
    # two vacated slots, and a table of larger size
    tables.append((["b", "", "a", ""], ["AAAA ", "\0\0\0\0\0", "BBBB ", "\0\0\0\0\0"]))
    for sp in SPECIAL:
        tables.append((list(reversed(sp)), ["AAAA "] * len(sp)))
    for _ in range(40 if thorough else 6):
        n = rng.randrange(6, 60)
        seen, nm_l = set(), []
        while len(nm_l) < n:
            s = "".join(rng.choice("aAbBzZ09") for _ in range(rng.randrange(1, 6)))
            if s not in seen:
                seen.add(s); nm_l.append(s)
        tables.append((nm_l, [rng.choice(CLASSES) for _ in nm_l]))
    c.cov["exhaustive_parts"].append("every ordered selection of <= %d boards from a pool of %d names (case twins, shared prefixes, a vacated slot), every subset of %d in sampled orders: %d tables" % (NALL, len(POOL), NMAX, len(tables)))

    def tb(t):
        return "%s|%s" % (names_wire(t[0]), titles_wire(t[1]))

    # ---------------------------------------------------------------- load every table, read back both sorted indexes
    def load_tables(tbls):
        l0 = ["0|" + tb(t) for t in tbls]
        o0 = vf.run_impl(impl, "C11", l0)
        c.count(len(l0), "reload+sort")
        res = []
        for t, l, o in zip(tbls, l0, o0):
            names, titles = t
            n = len(names)
            f = o.split()
            ok = f[0] == "0" and int(f[1]) == n and len(f) == 2 + 2 * n
            by_name = [int(x) for x in f[2:2 + n]] if ok else []
            by_class = [int(x) for x in f[2 + n:2 + 2 * n]] if ok else []
            if ok:
                ok = sorted(by_name) == list(range(n)) and sorted(by_class) == list(range(n))
                for a, b in zip(by_name, by_name[1:]):
                    ok = ok and casecmp(names[a], names[b]) <= 0
                for a, b in zip(by_class, by_class[1:]):
                    ka = (titles[a][:4].split("\0")[0].encode("latin-1"), low(names[a]))
                    kb = (titles[b][:4].split("\0")[0].encode("latin-1"), low(names[b]))
                    ok = ok and ka <= kb
            if not ok:
                c.violation("bsorted-not-a-sorted-permutation", "after ReloadBCache of %r the sorted indexes are %s" % (names, o), {"cases": [l], "got": o})
                by_name, by_class = [], []
            res.append((by_name, by_class))
            c.nontrivial(("table", tuple(names), tuple(titles)))
        return res

    sorted_of = load_tables(tables)

    # ---------------------------------------------------------------- queries
    impl_lines, model_lines, meta = [], [], []

    def add(kind, t, so, il, ml, info):
        impl_lines.append(il); model_lines.append(ml); meta.append((kind, t, so, info))

    def add_class_walks(t, by_class):
        names, titles = t
        n = len(names)
        if len(by_class) != n:
            return
        if any("@" in nm for nm in names):      # the cursor is base64(class)@name: '@' cannot occur in a valid board name
            return
        sc_n = [names[i] for i in by_class]
        sc_t = [titles[i] for i in by_class]
        T = tb(t)
        for k in (range(1, n + 2) if n <= NMAX else [1, 2, 3, n]):
            for asc in (1, 0):
                add("cwalk", t, (sc_t, sc_n), "7|%s|%d %d" % (T, k, asc), "7|%s|%s|%d %d" % (titles_wire(sc_t), names_wire(sc_n), k, asc), (k, asc))

    for t, (by_name, by_class) in zip(tables, sorted_of):
        names, titles = t
        n = len(names)
        if len(by_name) != n:
            continue
        small = n <= NMAX
        sn = [names[i] for i in by_name]                       # names in by-name order
        sc_n = [names[i] for i in by_class]
        sc_t = [titles[i] for i in by_class]
        T = tb(t)
        qs = [x for x in POOL if x] + PROBES if small else rng.sample(names, 6) + PROBES
        for q in qs:
            add("getbid", t, by_name, "1|%s|%s" % (T, toks(q)), "1|%s|%s|%s" % (names_wire(sn), " ".join(str(i + 1) for i in by_name), toks(q)), q)
            for asc in (1, 0):
                add("byname", t, sn, "2|%s|%s|%d" % (T, toks(q), asc), "2|%s|%s|%d" % (names_wire(sn), toks(q), asc), (q, asc))
        cls_q = ["AAAA", "BBBB", "AAAAx", "0000", "zzzz"]
        nm_q = ["a", "ab", "!", "zz", "aB"] if small else rng.sample(names, 3) + ["!"]
        for cl in cls_q:
            for q in nm_q:
                for asc in (1, 0):
                    add("byclass", t, (sc_t, sc_n), "3|%s|%s|%s|%d" % (T, toks(cl), toks(q), asc),
                        "3|%s|%s|%s|%s|%d" % (titles_wire(sc_t), names_wire(sc_n), toks(cl), toks(q), asc), (cl, q, asc))
        for kw in PREFIXES + LONG + [""]:
            for asc in (1, 0):
                add("autocomplete", t, sn, "4|%s|%s|%d" % (T, toks(kw), asc), "4|%s|%s|%d" % (names_wire(sn), toks(kw), asc), (kw, asc))
        for k in (range(1, n + 2) if small else [1, 3, n]):
            for asc in (1, 0):
                add("walk", t, sn, "5|%s|%d %d" % (T, k, asc), "5|%s|%d %d" % (names_wire(sn), k, asc), (k, asc))
        if small:
            for kw in ["a", "ab", "A"]:
                for k in (1, 2):
                    add("acwalk", t, sn, "6|%s|%s|%d 1" % (T, toks(kw), k), None, (kw, k, 1))
        add_class_walks(t, by_class)

    # ---------------------------------------------------------------- by-class listing walks: the same name tables with
    # short, blank-padded, prefix-sharing classes (three class assignments per table)
    ctables, cseen = [], set()
    for ti, (names, _) in enumerate(tables):
        pair = WPAIRS[rng.randrange(len(WPAIRS))]
        for titles in ([WCLASSES[ti % len(WCLASSES)]] * len(names),
                       [rng.choice(pair) for _ in names],
                       [rng.choice(WCLASSES) for _ in names]):
            ct = (names, ["\0\0\0\0\0" if nm == "" else tt for nm, tt in zip(names, titles)])
            if (tuple(ct[0]), tuple(ct[1])) not in cseen:
                cseen.add((tuple(ct[0]), tuple(ct[1])))
                ctables.append(ct)
    c.cov["exhaustive_parts"].append("by-class listing walks: every table above as it is + with 3 assignments of classes of 0..4 characters "
                                     "padded with blanks/NULs and sharing prefixes (%d tables), every page size 1..n+1, both directions" % len(ctables))
    for t, (by_name, by_class) in zip(ctables, load_tables(ctables)):
        add_class_walks(t, by_class)

    io = vf.run_impl(impl, "C11", impl_lines, deadline_ms=20000)
    if model:
        idx = [i for i, m in enumerate(model_lines) if m is not None]
        mo = vf.run_model(model, [model_lines[i] for i in idx])
        vf.correspond(c, "cache.* / bbs.LoadGeneralBoards vs model", [impl_lines[i] for i in idx], [io[i] for i in idx], mo)
    c.count(len(impl_lines), "queries")

    def pos_first(pred, seq):
        for i, x in enumerate(seq):
            if pred(x):
                return i + 1
        return -1

    def pos_last(pred, seq):
        for i in range(len(seq) - 1, -1, -1):
            if pred(seq[i]):
                return i + 1
        return -1

    def cwalk_want(so, info):
        st, sn = so
        k, asc = info
        vis = [i + 1 for i, nm in enumerate(sn) if nm]
        if not asc:
            vis = vis[::-1]
        return "0 %d%s" % (max(1, -(-len(vis) // k)), "".join(" %d" % v for v in vis))

    def cwalk_key(so, info):
        """signature of a failing by-class walk: the two known input classes first"""
        st, sn = so
        d = "-asc" if info[1] else "-desc"
        if any(x[4] not in (" ", "\0") for x in st):
            return "find-by-class-nonblank-fifth-title-byte"   # cursor class = Title[:4], searched against Title[:5]
        keys = [(x[:4].split("\0")[0], low(nm)) for x, nm in zip(st, sn) if nm]
        if len(set(keys)) < len(keys):
            return "listing-case-twins"                        # two boards of one class with names equal up to case
        if any(x[:4].split("\0")[0].endswith(" ") for x, nm in zip(st, sn) if nm):
            return "listing-by-class-padded-class" + d         # a class shorter than 4 columns, padded with blanks
        return "listing-by-class" + d

    sampled = set()
    for l, o, (kind, t, so, info) in zip(impl_lines, io, meta):
        names, titles = t
        f = o.split()
        c.cov["distribution"][kind] = c.cov["distribution"].get(kind, 0) + 1
        if f[0] in ("1", "2"):
            if kind == "autocomplete" and (len(info[0]) > 12 or len(info[0]) == 0):
                key = "autocomplete-crash-prefix-length"
            elif kind in ("walk", "acwalk") and len({low(x) for x in names}) < len(names):
                key = "listing-case-twins"     # the next-cursor (a name) resolves to the other twin: the walk repeats / never ends
            elif kind == "cwalk":
                want = cwalk_want(so, info)
                c.violation(cwalk_key(so, info), "by-class listing (page size %d, %s) over the by-class order %r %s; every visible board once in order is [status pages positions...] = %s" % (
                    info[0], "asc" if info[1] else "desc", [(x[:4], nm) for x, nm in zip(*so)],
                    "panics" if f[0] == "1" else "is not over after 2n+3 pages (the next-cursor does not advance)", want), {"cases": [l], "expected": want, "got": o})
                continue
            else:
                key = "%s-%s" % (kind, "crash" if f[0] == "1" else "hang")
            c.violation(key, "%s(%r) on table %r: %s" % (kind, info, names, "panics" if f[0] == "1" else "does not return"), {"cases": [l], "got": o})
            continue
        c.nontrivial((kind, tuple(names), info))
        if kind not in sampled:
            sampled.add(kind); c.sample({"op": kind, "table": names, "query": info, "impl": o})
        if kind == "getbid":
            q = info
            want = {i + 1 for i, nm in enumerate(names) if casecmp(nm, q) == 0}
            got = int(f[1])
            if (want and got not in want) or (not want and got != 0):
                c.violation("getbid", "GetBid(%r) on %r = %d, boards with that name: %s" % (q, names, got, sorted(want)), {"cases": [l], "expected": sorted(want) or [0], "got": o})
        elif kind == "byname":
            q, asc = info
            sn = so
            exact = {i + 1 for i, nm in enumerate(sn) if casecmp(nm, q) == 0}
            scan = pos_first(lambda nm: casecmp(nm, q) >= 0, sn) if asc else pos_last(lambda nm: casecmp(nm, q) <= 0, sn)
            got = int(f[1])
            if not ((exact and got in exact) or (not exact and got == scan)):
                below = all(casecmp(nm, q) > 0 for nm in sn)
                key = "find-by-name-asc-below-first" if (asc and below) else "find-by-name"
                c.violation(key, "FindBoardIdxByName(%r, %s) on sorted %r = %d, scan says %s" % (q, "asc" if asc else "desc", sn, got, sorted(exact) or scan),
                            {"cases": [l], "expected": sorted(exact) or scan, "got": o})
        elif kind == "byclass":
            cl, q, asc = info
            st, sn = so

            def kcmp(i):   # compare entry i with the key, as the property's scan does: class as C string, then name ignoring case
                a = ccmp(board_class(st[i]).split("\0")[0].encode("latin-1"), cl.encode("latin-1"))
                return a if a != 0 else casecmp(sn[i], q)
            exact = {i + 1 for i in range(len(sn)) if kcmp(i) == 0}
            scan = pos_first(lambda i: kcmp(i) >= 0, range(len(sn))) if asc else pos_last(lambda i: kcmp(i) <= 0, range(len(sn)))
            got = int(f[1])
            if not ((exact and got in exact) or (not exact and got == scan)):
                below = all(kcmp(i) > 0 for i in range(len(sn)))
                nonblank = any(x[4] not in (" ", "\0") for x in st)
                key = "find-by-class-asc-below-first" if (asc and below) else ("find-by-class-nonblank-fifth-title-byte" if nonblank else "find-by-class")
                c.violation(key, "FindBoardIdxByClass(%r, %r, %s) on %r = %d, scan says %s" % (cl, q, "asc" if asc else "desc", list(zip(st, sn)), got, sorted(exact) or scan),
                            {"cases": [l], "expected": sorted(exact) or scan, "got": o})
        elif kind == "autocomplete":
            kw, asc = info
            sn = so
            n = len(sn)
            has = lambda nm: low(nm).startswith(low(kw))
            if kw == "":
                want = (1 if asc else n) if n > 0 else -1
            elif len(kw) > 12:
                want = -1
            else:
                want = pos_first(has, sn) if asc else pos_last(has, sn)
            got = int(f[1])
            if got != want:
                twins = len({low(x) for x in sn}) < len(sn)
                if not asc and kw and kw[-1] in "Z":
                    key = "autocomplete-desc-upper-Z"
                elif not asc and kw and kw[-1] == "@":
                    key = "autocomplete-desc-at-sign"
                elif not asc and kw and kw[-1] == "\xff":
                    key = "autocomplete-desc-0xff"
                elif twins:
                    key = "autocomplete-case-twins"
                else:
                    key = "autocomplete"
                c.violation(key, "FindBoardAutoCompleteStartIdx(%r, %s) on sorted %r = %d, first/last board carrying the prefix is %d" % (kw, "asc" if asc else "desc", sn, got, want),
                            {"cases": [l], "expected": want, "got": o})
        elif kind in ("walk", "acwalk"):
            sn = so
            if kind == "walk":
                k, asc = info
                vis = [i + 1 for i, nm in enumerate(sn) if nm]
            else:
                kw, k, asc = info
                vis = [i + 1 for i, nm in enumerate(sn) if nm and low(nm).startswith(low(kw))]
            if not asc:
                vis = vis[::-1]
            want = "0 %d%s" % (max(1, -(-len(vis) // k)), "".join(" %d" % v for v in vis))
            if o.strip() != want:
                twins = len({low(x) for x in sn}) < len(sn)
                key = "listing-case-twins" if twins else kind
                c.violation(key, "%s listing (page size %d, %s%s) over sorted %r: [status pages positions...] = %s, every visible board once in order is %s" % (
                    "by-name" if kind == "walk" else "auto-complete", k, "asc" if asc else "desc", "" if kind == "walk" else ", prefix %r" % kw, sn, o, want),
                    {"cases": [l], "expected": want, "got": o})

        elif kind == "cwalk":
            st, sn = so
            k, asc = info
            want = cwalk_want(so, info)
            if o.strip() != want:
                c.violation(cwalk_key(so, info), "by-class listing (page size %d, %s) over the by-class order %r: [status pages positions...] = %s, every visible board once in order is %s" % (
                    k, "asc" if asc else "desc", [(x[:4], nm) for x, nm in zip(st, sn)], o, want), {"cases": [l], "expected": want, "got": o})

    c.finish(rule="tables: every ordered selection of <= %d names from the pool %r + subsets of %d in PRNG(seed) orders + random tables of 6..59 boards; "
                  "queries: every pool name, probes below/above/absent/other case; classes incl. one with a non-blank fifth title byte; prefixes incl. empty, 12, 13 and 16 bytes, and last bytes 'Z', '@', 0xFF (+ two tables on which the latter two fail); "
                  "both directions; page sizes 1..n+1; by-class listing walks on every table and on each with 3 PRNG(seed) assignments of the classes %r; non-trivial = distinct (table, operation, query) that returned" % (NALL, POOL, NMAX, WCLASSES),
             assumptions=["the table is quiescent during lookups (BBusyState sleep-and-proceed is not a lock and is not modelled)",
                          "sort.Sort is library code: its output is read back from shared memory and checked to be a sorted permutation on every table, not re-proved",
                          "listings are walked as SYSOP (every non-vacated, non-group board visible); other visibility predicates are not exercised",
                          "the empty board name (a vacated slot) is not used as a query",
                          "by-class listing walks skip tables with '@' in a board name: the cursor is base64(class)@name and '@' cannot occur in a valid board name (BoardID_t.IsValid)"])


if __name__ == "__main__":
    main()
