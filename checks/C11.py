#!/usr/bin/env python3
"""C11 — board lookup and board listings equal a scan of the board table.
Proofs in coq/Props/C11.v (generic search development in coq/Base/OddSearch.v); correspondence of the extracted
model with cache.* / bbs.* on real shared memory loaded from harness-written .BRD files; the deciding predicates
compare the implementation's answers with scans of the table written here (C string order, independent of Go)."""
import itertools, os, sys
sys.path.insert(0, os.path.join(os.path.dirname(os.path.abspath(__file__)), "..", "lib"))
import vf

POOL = ["", "a", "A", "ab", "aB", "abc", "b", "aZ", "0z"]          # shared prefixes, case twins, a vacated slot
CLASSES = ["AAAA ", "BBBB ", "AAAAx"]                                 # the third has a non-blank fifth byte
PROBES = ["!", "zz", "aa", "B", "AB", "Abc", "az", "0Z"]              # below first, above last, absent, other letter cases
PREFIXES = ["a", "A", "ab", "aB", "abc", "b", "aZ", "az", "0", "z", "ABCDEFGHIJKL", "a@", "a\xff"]
# last bytes the descending search cannot increment: 'Z' (pool), '@' and 0xFF (the two tables below); C11_autocomplete excludes exactly these
SPECIAL = [["a@", "a_a", "a_b", "aa"], ["a", "ab", "a\xff"]]
LONG = ["ABCDEFGHIJKLM", "abcdefghijklmnop"]                          # 13 and 16 bytes
# classes for the by-class listing walks (Title[:5], fifth byte blank): 0..4 characters padded with blanks to 4 columns,
# sharing prefixes ("N" < "NA" < "NB" < "NBA" < "NBAB"), one padded with NULs instead of blanks, and Big5-like classes of high
# bytes (two columns per character; the second one exercises '-' and '_' of the cursor's URL-safe base64)
WCLASSES = ["N    ", "NB   ", "NBA  ", "NBAB ", "NA   ", "A    ", "     ", "NB\0\0 ", "\xa4\xdf\xb1\x6f ", "\xa4\xdf   ", "\xfb\xef\xbf  "]
WPAIRS = [("NB   ", "NBA  "), ("N    ", "NB   "), ("NB   ", "NB\0\0 "), ("NBA  ", "NBAB "), ("     ", "A    "), ("NA   ", "NB   "),
          ("\xa4\xdf   ", "\xa4\xdf\xb1\x6f ")]


# field-width boundaries of board names (BoardID_t holds IDLEN = 12 characters + NUL): lengths 1, 2, 11 and 12, names sharing their
# first 11 characters (with each other and with the 11-character name that is their prefix), no case twins; classes of the full 4 columns
N11 = "abcdefghijk"
WIDE = ["", "a", "ab", N11, N11 + "l", N11 + "M", "Zbcdefghijkl"]
WIDE_CLASSES = ["AAAA ", "BBBB ", "\xa4\xdf\xb1\x6f "]
WIDE_PROBES = [N11[:10], N11 + "k", N11 + "z", N11 + "la", "zbcdefghijk", "ZBCDEFGHIJKL", "A"]   # 10, 12 (absent), 13 bytes, other letter case
WIDE_PREFIXES = ["a", "ab", N11[:10], N11, N11 + "l", N11 + "m", N11.upper() + "L", N11 + "k", "z", "Zbcdefghijkl", N11 + "la", ""]


# names with bytes >= 0x80 (a foreign .BRD; Big5 text): the comparison helpers must order and match them byte-wise, folding only
# 'A'..'Z'. Two names that differ only in their high bytes, names whose order is decided by a high byte against another high byte
# or against an ASCII byte, a pair that is "equal up to case" only for a UTF-8 aware lower-casing (C3 89 / C3 A9), twin-free.
HPOOL = ["", "a", "az", "a\xb4", "a\xc0z", "\xa4b", "\xb4\xfax", "\xb5a", "\xb8\xd5x", "\xc3\xa9x"]
HPROBES = ["\xb4\xfaX", "\xB8\xd5X", "A\xb4", "\xb4\xfay", "\xb8\xd6x", "\xb4\xfbx", "\xa4", "\x80", "\xc3\x89x", "\xc3\x89X", "\xff\xfe", "b", "AZ"]
HCLASSES = ["AAAA ", "\xa4\xdf\xb1\x6f ", "\xa4\xdf\xb1\xe5 "]
HPREFIXES = ["\xb4", "\xb4\xfa", "\xb4\xfaX", "\xb8", "\xb8\xd5", "a", "a\xb4", "A\xc0", "\xa4", "\xc3", "\xc3\x89", "\xb6", "\x80"]

# filtered listings (LoadGeneralBoards with a title / keyword filter): whole titles = class, blank, the rest, with Big5 text.
# The filters are matched byte-wise after folding 'A'..'Z' (types.Cstrcasestr); F_BIG5 = two Big5 characters.
F_BIG5 = "\xb4\xfa\xb8\xd5"
FTITLES = ["AAAA \xa1\xb7" + F_BIG5 + " test",                 # holds the filter
           "AAAA \xa1\xb7\xa4\xdf\xb1\xe5board",                 # four OTHER high bytes
           "\xa4\xdf\xb1\x6f \xa1\xb7\xb4\xfaTest\xb8\xd5",        # the filter's bytes, not adjacent
           "BBBB \xa1\xb7plain ASCII Title",
           "BBBB \xb8\xd5\xb4\xfa",                               # the two characters the other way round, no more text
           "NB   \xa1\xb7" + F_BIG5 + F_BIG5,
           "\xa4\xdf\xb1\xe5 \xa1\xb7\xb4\xfa\xb8\xd6"]             # differs from the filter in its last byte
FNAMES = ["ab", "Abc", "b1", "sysop", "k\xb4\xfa", "Zz", "TESTER", "k\xb8\xd5"]
TITLE_FILTERS = [F_BIG5, "\xb8\xd5", "\xb4\xfa\xb8\xd6", "\xb4\xfa\xb8\xd7", "TEST", "test", "\xa4\xdf", "\xa1\xb7\xb4", "zzz", "\xc0\xc1\xc2\xc3", "Title\xb8"]
KEYWORD_FILTERS = ["\xb4\xfa", "AB", "\xb8\xd5", "sys", "\xb9\xfa", "tEsT", "\xb8\xd5\xb4"]

# article-index states of the boards' own .DIR (driver op 11); 2..7 are what an unrelated feature / a long-lived site leaves behind
DIR_STATES = {0: "no .DIR", 1: "two records with 10-digit time-stamps", 2: "last record M.997843374.A.1EA (9-digit time-stamp)", 3: ".DIR is a directory",
              4: "one record with an all-NUL filename", 5: "one record 'garbage' + half a record", 6: "last record .d (safe-deleted)",
              7: "valid .DIR, .DIR.bottom is a directory"}


def low(s):
    return bytes(c + 32 if 65 <= c <= 90 else c for c in s.encode("latin-1"))


def aup(s):
    """upper case of the ASCII letters only (str.upper would map U+00B5 and friends)"""
    return "".join(chr(ord(ch) - 32) if "a" <= ch <= "z" else ch for ch in s)


def ccmp(a, b):
    """sign of C strcmp on byte strings (no NULs inside)"""
    return (a > b) - (a < b)


def casecmp(a, b):
    return ccmp(low(a), low(b))


def toks(s):
    return " ".join(str(c) for c in s.encode("latin-1"))


def names_wire(names):
    return " ".join((toks(n) + " 0") if n else "0" for n in names)


def titles_wire(titles):
    return " ".join(toks(t) for t in titles)


def board_class(t5):
    return t5[:4] if t5[4] == " " else t5[:5]


# ---------------------------------------------------------------------------------------------------------------- histories
# first-time / error paths of (re)loading the board cache, then creations, then ALL lookups (driver op 8, go/impl/cmd/implrun/c11hist.go;
# model: reload / install / create / new_board in coq/Model/C11.v; theorem C11_lookups_after_any_history). The reference below is a
# scan of the board table as the operations should have left it, written here: every number the driver prints is predicted.
H_NAMES = ["sysop13", "Ab", "abcdefghijk", "abcdefghijkl", "abcdefghijkM", "Zz-_.9", "k0", "Qq1"]      # twin-free; 2, 11, 12 characters
H_CLASSES = ["AAAA", "NB\0\0", "\xa4\xdf\xb1\x6f", "BBBB"]                                                 # as mNewbrd writes them: Title[:4], then a blank


def h_nt(name, t5):
    return " ".join(str(x) for x in name.encode("latin-1").ljust(13, b"\0") + t5.encode("latin-1"))


class HRef:
    """the board file and the board table as the history should leave them"""

    def __init__(self):
        self.file = None      # None = no .BRD; else the list of its complete records (name, Title[:5])
        self.tbl = []

    def orders(self):
        n = len(self.tbl)
        bn = sorted(range(n), key=lambda i: low(self.tbl[i][0]))
        bc = sorted(range(n), key=lambda i: (self.tbl[i][1][:4].split("\0")[0].encode("latin-1"), low(self.tbl[i][0])))
        return bn, bc

    def status(self, err=0):
        return [err, 0, 0, len(self.tbl), -1 if self.file is None else len(self.file)]

    def step(self, st):
        """expected record of one step (list of ints); st = (kind, ...)"""
        kind = st[0]
        if kind == "install":
            self.file = list(st[1]); self.tbl = list(st[1])[:100]
            return self.status()
        if kind == "reload":
            if self.file is not None:
                self.tbl = list(self.file)[:100]
            return self.status()
        if kind == "create":
            self.file = (self.file or []) + [st[1]]; self.tbl = self.tbl + [st[1]]
            return self.status()
        if kind == "newboard":
            name, cls = st[1], st[2]
            e = (name, cls + " ")
            if any(casecmp(nm, name) == 0 for nm, _ in self.tbl):
                return self.status(4)
            vac = [i for i, (nm, _) in enumerate(self.tbl) if nm == ""]
            if vac:
                self.file[vac[0]] = e; self.tbl[vac[0]] = e
            else:
                self.file = (self.file or []) + [e]; self.tbl = self.tbl + [e]
            return self.status()
        bn, bc = self.orders()
        sn = [self.tbl[i][0] for i in bn]
        cn = [self.tbl[i][0] for i in bc]
        ct = [self.tbl[i][1] for i in bc]
        n = len(self.tbl)

        def first(pred, seq):
            return next((i + 1 for i, x in enumerate(seq) if pred(x)), -1)

        def last(pred, seq):
            return next((i + 1 for i in range(len(seq) - 1, -1, -1) if pred(seq[i])), -1)

        if kind == "name":
            q = st[1]
            bid = first(lambda e: casecmp(e[0], q) == 0, self.tbl)
            out = [max(bid, 0)]
            for asc in (1, 0):
                ex = first(lambda nm: casecmp(nm, q) == 0, sn)
                out.append(ex if ex > 0 else (first(lambda nm: casecmp(nm, q) >= 0, sn) if asc else last(lambda nm: casecmp(nm, q) <= 0, sn)))
            for asc in (1, 0):
                has = lambda nm: low(nm).startswith(low(q))
                out.append(-1 if len(q) > 12 else (first(has, sn) if asc else last(has, sn)))
            return self.status() + out
        if kind == "class":
            cl, q = st[1], st[2]

            def kcmp(i):
                a = ccmp(board_class(ct[i]).split("\0")[0].encode("latin-1"), cl.encode("latin-1"))
                return a if a != 0 else casecmp(cn[i], q)
            out = []
            for asc in (1, 0):
                ex = first(lambda i: kcmp(i) == 0, range(n))
                out.append(ex if ex > 0 else (first(lambda i: kcmp(i) >= 0, range(n)) if asc else last(lambda i: kcmp(i) <= 0, range(n))))
            return self.status() + out
        if kind in ("walk", "acwalk"):
            k, asc = st[1], st[2]
            order = cn if (kind == "walk" and st[3]) else sn
            vis = [i + 1 for i, nm in enumerate(order) if nm and (kind == "walk" or low(nm).startswith(low(st[3])))]
            if not asc:
                vis = vis[::-1]
            return self.status() + [max(1, -(-len(vis) // k))] + vis
        if kind == "dump":
            out = bn + bc
            for nm, t5 in self.tbl:
                out += list(nm.encode("latin-1").ljust(13, b"\0") + t5.encode("latin-1"))
            return self.status() + out
        raise ValueError(kind)


def h_wire(st):
    kind = st[0]
    if kind == "install":
        return "1 %d %d %s" % (st[2], len(st[1]), " ".join(h_nt(nm, t5) for nm, t5 in st[1]))
    if kind == "reload":
        return "2"
    if kind == "create":
        return "3 " + h_nt(*st[1])
    if kind == "newboard":
        return "4 %s %s" % (" ".join(str(x) for x in st[1].encode("latin-1").ljust(13, b"\0")), toks(st[2]))
    if kind == "name":
        return "5 " + toks(st[1])
    if kind == "class":
        return "6 %d %s %s" % (len(st[1]), toks(st[1]), toks(st[2]))
    if kind == "walk":
        return "7 %d %d %d" % (st[1], st[2], st[3])
    if kind == "acwalk":
        return "8 %d %d %s" % (st[1], st[2], toks(st[3]))
    return "9"


H_WHAT = {"install": "ReloadBCache of a .BRD of %d complete records + %d further bytes", "reload": "ReloadBCache", "create": "AppendRecord + AddbrdTouchCache of %r",
          "newboard": "bbs.CreateBoard(%r, class %r)"}


def h_describe(st):
    k = st[0]
    if k == "install":
        return H_WHAT[k] % (len(st[1]), st[2])
    if k == "reload":
        return H_WHAT[k]
    if k == "create":
        return H_WHAT[k] % (st[1],)
    if k == "newboard":
        return H_WHAT[k] % (st[1], st[2])
    return "%s%r" % (k, tuple(st[1:]))


def h_observe(ref_tbl, rng, acw, full):
    """the lookups after a mutating step: every board name in three letter cases, absent names, prefixes, classes, all walks"""
    names = [nm for nm, _ in ref_tbl if nm]
    obs = [("dump",)]
    qs = []
    for nm in names:
        qs += [nm, nm.upper(), nm.lower()]
        if len(nm) >= 11:
            qs += [nm[:10], nm[:11]]
    qs += ["Zzz", "aa", "s"] if full else ["aa"]
    seen = set()
    for q in qs:
        if q not in seen and not q[-1] in "Z@\xff":        # a last byte 'Z' is the known finding of descending auto-completion
            seen.add(q); obs.append(("name", q))
    for cl in sorted({t5[:4].split("\0")[0] for nm, t5 in ref_tbl if nm} | {"AAA"}):
        for q in (names[:1] + names[-1:] + ["m"] if full else names[-1:]):
            obs.append(("class", cl, q))
    n = len(ref_tbl)
    for k in ([1, 2, n + 1] if full else [1]):
        for asc in (1, 0):
            for by in (0, 1):
                obs.append(("walk", k, asc, by))
            if acw:
                for kw in sorted({nm[:1].lower() for nm in names} | {nm[:11] for nm in names if len(nm) >= 11}):
                    obs.append(("acwalk", k, asc, kw))
    return obs


def h_scenarios(rng, thorough):
    """(label, steps): first-time / error paths of loading, then creations, then a reload of the file the creations made"""
    ent = lambda i, c=0: (H_NAMES[i], H_CLASSES[c] + " ")
    starts = [("no-board-file", [("reload",)]),
              ("no-board-file-reloaded-twice", [("reload",), ("reload",)]),
              ("no-reload-at-all", []),
              ("empty-board-file", [("install", [], 0)]),
              ("board-file-shorter-than-a-record", [("install", [], 100)]),
              ("board-file-with-incomplete-last-record", [("install", [ent(7, 1), ent(1, 0)], 255)]),
              ("no-board-file-then-incomplete-one", [("reload",), ("install", [], 1)]),
              ("board-file-with-vacated-slot", [("install", [ent(7, 0), ("", "\0\0\0\0\0"), ent(6, 3)], 0)])]
    out = []
    nvar = 6 if thorough else 2
    for label, pre in starts:
        for v in range(nvar):
            used = {nm for st in pre if st[0] == "install" for nm, _ in st[1]}
            pool = [i for i in range(len(H_NAMES)) if H_NAMES[i] not in used]
            rng.shuffle(pool)
            if v == 0:
                pool = [0] + [i for i in pool if i != 0]         # the first variant creates "sysop13" first
            ncre = 1 if v == 0 else rng.randrange(2, 5)
            steps = list(pre)
            for j in range(ncre):
                i = pool[j]
                cl = H_CLASSES[rng.randrange(len(H_CLASSES))]
                if (v + j) % 2 == 0 or len(H_NAMES[i]) < 2 or not H_NAMES[i][0].isalpha():
                    steps.append(("create", (H_NAMES[i], cl + " ")))
                else:
                    steps.append(("newboard", H_NAMES[i], cl))
            if v == 1:
                steps.append(("newboard", H_NAMES[pool[0]].upper(), "AAAA"))      # the name exists in another letter case: refused
            steps.append(("reload",))
            out.append(("%s/%d" % (label, v), steps))
    return out


def h_build(label, steps, rng, acw, full):
    """-> (case line, expected result line, [(step, expected record)]): an observation after every operation"""
    ref = HRef()
    seq = []
    for st in steps:
        seq.append((st, ref.step(st)))
        for ob in h_observe(ref.tbl, rng, acw, full):
            seq.append((ob, ref.step(ob)))
    line = "8|" + "|".join(h_wire(st) for st, _ in seq)
    exp = "0 " + " ".join("%d %s" % (len(r), " ".join(str(x) for x in r)) for _, r in seq)
    return line, exp, seq


def h_parse(o):
    """result line -> list of records (lists of ints), or None"""
    f = o.split()
    if not f or f[0] != "0":
        return None
    v = [int(x) for x in f[1:]]
    recs, i = [], 0
    while i < len(v):
        recs.append(v[i + 1:i + 1 + v[i]]); i += 1 + v[i]
    return recs


def histories(c, impl, model, rng, thorough):
    scen = h_scenarios(rng, thorough)
    lines, exps, seqs, labels, mlines = [], [], [], [], []
    for label, steps in scen:
        for acw in (False, True):            # the auto-complete listing is not modelled: a second, implementation-only line with its walks
            line, exp, seq = h_build(label, steps, rng, acw, not acw)
            lines.append(line); exps.append(exp); seqs.append(seq); labels.append(label); mlines.append(None if acw else line)
    c.cov["exhaustive_parts"].append("histories in fresh driver state: %d scenarios = 8 first-time / error paths of loading (no .BRD, reloaded twice, no reload, empty .BRD, "
                                     ".BRD shorter than a record, incomplete last record, none then incomplete, vacated slot) x creations (AppendRecord + AddbrdTouchCache and "
                                     "bbs.CreateBoard, names of 2/11/12 characters, a refused duplicate) x a final reload; after every operation: busy flags, BNumber, file size, "
                                     "table dump, both sorted indexes, GetBid / FindBoardIdxByName / auto-complete for every name in three letter cases + absent names + prefixes, "
                                     "FindBoardIdxByClass, all listing walks" % len(scen))
    io = vf.run_impl(impl, "C11", lines, deadline_ms=90000)
    c.count(sum(len(sq) for sq in seqs), "history-steps")
    if model:
        idx = [i for i, m in enumerate(mlines) if m is not None]
        mo = vf.run_model(model, [mlines[i] for i in idx])
        vf.correspond(c, "history of reloads / creations / lookups (op 8) vs model", [lines[i] for i in idx], [io[i] for i in idx], mo)
    for line, exp, seq, label, o in zip(lines, exps, seqs, labels, io):
        c.cov["distribution"]["history"] = c.cov["distribution"].get("history", 0) + 1
        hist = "; ".join(h_describe(st) for st, _ in seq if st[0] in H_WHAT)
        if o.split()[:1] in (["1"], ["2"]):
            c.violation("history-" + ("crash" if o.split()[0] == "1" else "hang"), "in fresh state, the history [%s] %s" % (hist, "panics" if o.split()[0] == "1" else "does not return"),
                        {"cases": [line], "expected": exp, "got": o})
            continue
        recs = h_parse(o)
        if recs is None or len(recs) != len(seq):
            c.violation("history-output", "in fresh state, the history [%s]: unreadable result" % hist, {"cases": [line], "expected": exp, "got": o})
            continue
        c.nontrivial(("history", line))
        c.sample({"op": "history", "scenario": label, "operations": hist, "impl": o[:300]})
        done = []
        flagged = False
        for (st, want), got in zip(seq, recs):
            if st[0] in H_WHAT:
                done.append(h_describe(st))
            if got == [-7]:
                continue                            # not run: a busy flag was left set earlier (already reported)
            if got == want:
                continue
            after = "in fresh state, after [%s]" % "; ".join(done)
            rep = {"cases": [line], "expected": exp, "got": o}
            if len(got) >= 5 and (got[1] != 0 or got[2] != 0):
                if not flagged:
                    flagged = True
                    c.violation("busy-flag-left-set-after-" + (st[0] if st[0] in H_WHAT else "lookup"),
                                "%s: BBusyState = %d, boards with BusyStateB set = %d after %s returned (every later lookup sleeps on it, SortBCache and ResetBoard refuse)" % (
                                    after, got[1], got[2], h_describe(st)), rep)
                if got[:1] + got[3:] == want[:1] + want[3:]:
                    continue
            if len(got) >= 5 and got[0] != want[0] and st[0] in ("walk", "acwalk"):
                c.violation("history-listing-%s-%s" % (st[0], "error" if got[0] == 6 else "does-not-end"), "%s: %s listing (page size %d, %s%s) %s; every visible board once in order is [pages positions...] = %s" % (
                    after, "auto-complete" if st[0] == "acwalk" else ("by-class" if st[3] else "by-name"), st[1], "asc" if st[2] else "desc", ", prefix %r" % st[3] if st[0] == "acwalk" else "",
                    "returns an error" if got[0] == 6 else "is not over after 2n+3 pages (the next-cursor does not advance)", want[5:]), rep)
            elif len(got) >= 5 and got[0] != want[0]:
                c.violation("history-%s-refused" % st[0] if want[0] == 0 else "history-%s-not-refused" % st[0],
                            "%s: %s returns error class %d, expected %d" % (after, h_describe(st), got[0], want[0]), rep)
            elif len(got) >= 5 and got[3:5] != want[3:5]:
                c.violation("history-board-count", "%s: BNumber = %d with %d complete records in .BRD, expected %d and %d" % (after, got[3], got[4], want[3], want[4]), rep)
            elif st[0] == "dump":
                n = want[3]
                c.violation("history-table-differs-from-board-file" if got[5 + 2 * n:] != want[5 + 2 * n:] else "history-bsorted-not-a-sorted-permutation",
                            "%s: the cache holds [BSorted by name, by class, 13 name + 5 title bytes per board] = %s, the board file and its sorted orders are %s" % (after, got[5:], want[5:]), rep)
            elif st[0] in ("name", "class"):
                what = ["GetBid", "FindBoardIdxByName asc", "FindBoardIdxByName desc", "FindBoardAutoCompleteStartIdx asc", "FindBoardAutoCompleteStartIdx desc"] if st[0] == "name" \
                    else ["FindBoardIdxByClass asc", "FindBoardIdxByClass desc"]
                bad = [(w, g, x) for w, g, x in zip(what, got[5:], want[5:]) if g != x and g != -7]
                if bad:
                    c.violation("history-lookup-" + bad[0][0].split()[0], "%s, table %r: %s%r = %d, a scan of the table says %d" % (
                        after, [nm for nm, _ in seq_tbl(seq, st)], bad[0][0], tuple(st[1:]), bad[0][1], bad[0][2]), rep)
            else:
                if -7 in got:
                    continue
                c.violation("history-listing-" + st[0], "%s: %s listing (page size %d, %s%s): [pages positions...] = %s, every visible board once in order is %s" % (
                    after, "auto-complete" if st[0] == "acwalk" else ("by-class" if st[3] else "by-name"), st[1], "asc" if st[2] else "desc",
                    ", prefix %r" % st[3] if st[0] == "acwalk" else "", got[5:], want[5:]), rep)


# ------------------------------------------------------------------------------------- a writer stopped inside its critical section
# driver op 12 (go/impl/cmd/implrun/c11busy.go; model: stall / waited / st_* / stalled_run; theorems C11_lookups_do_not_depend_on_the_busy_flag,
# C11_lookups_under_a_stalled_writer). BBusyState is left set over a WHOLE table (a writer of another process slower than the reader's one-second
# wait, or killed right after setting the flag: it stays behind for the next server run); every lookup and listing still has to equal the scan.
# Then the flag is released and G goroutines repeat the cache.* lookups at once: every answer has to be the sequential one.
S_CALLS = {"name": ["GetBid", "FindBoardIdxByName asc", "FindBoardIdxByName desc", "FindBoardAutoCompleteStartIdx asc", "FindBoardAutoCompleteStartIdx desc"],
           "class": ["FindBoardIdxByClass asc", "FindBoardIdxByClass desc"]}


def s_cases(rng, thorough):
    """(label, table, v, G, R)"""
    ent = lambda i, c=0: (H_NAMES[i], H_CLASSES[c] + " ")
    fixed = [("one-board", [ent(0, 0)], 1), ("vacated-slot", [ent(7, 0), ("", "\0\0\0\0\0"), ent(6, 3), ent(1, 1)], 1),
             ("full-width-names", [ent(4, 2), ent(2, 0), ent(3, 0), ent(5, 1)], 2)]
    out = []
    for label, tbl, v in fixed:
        out.append((label, tbl, v, 8, 8000 if thorough else 2000))
    for j in range(8 if thorough else 2):
        idx = rng.sample(range(len(H_NAMES)), rng.randrange(2, 7))
        tbl = [ent(i, rng.randrange(len(H_CLASSES))) for i in idx]
        out.append(("random/%d" % j, tbl, rng.choice([1, 1, 3, -1]), rng.choice([2, 4, 8, 16]), 8000 if thorough else 2000))
    return out


def s_build(tbl, v, G, R, rng):
    ref = HRef()
    st0 = ref.step(("install", tbl, 0))
    obs = [ob for ob in h_observe(ref.tbl, rng, False, True) if ob[0] in ("name", "class")]
    obs += [("walk", 2, asc, by) for asc in (1, 0) for by in (0, 1)] + [("walk", len(tbl) + 1, 1, 0)]
    want = [ref.step(ob) for ob in obs]
    busy = lambda r: r[:1] + [v] + r[2:]
    seq = [(("install", tbl, 0), st0, "A")] + [(ob, w, "A") for ob, w in zip(obs, want)] + [(("stall", v), busy(st0), "B")] + \
          [(ob, busy(w), "B") for ob, w in zip(obs, want)] + [(("release",), st0, "C")] + [(("concurrent", G, R), st0 + [0, -1, -1, 0], "C")]
    line = "12|0 %d %s|%d %d %d|%s" % (len(tbl), " ".join(h_nt(nm, t5) for nm, t5 in tbl), v, G, R, "|".join(h_wire(ob) for ob in obs))
    exp = "0 " + " ".join("%d %s" % (len(r), " ".join(str(x) for x in r)) for _, r, _ in seq)
    return line, exp, seq, obs


def stalled(c, impl, model, rng, thorough):
    cases = s_cases(rng, thorough)
    built = [s_build(tbl, v, G, R, rng) for _, tbl, v, G, R in cases]
    lines = [b[0] for b in built]
    c.cov["exhaustive_parts"].append("lookups under a busy flag left set and by several goroutines at once (op 12): %d tables (one board, a vacated slot, names of 11/12 characters, "
                                     "PRNG(seed) tables of 2..6 boards) loaded in fresh shared memory; GetBid / FindBoardIdxByName / auto-complete for every name in three letter cases + "
                                     "absent names + prefixes, FindBoardIdxByClass, by-name and by-class listing walks - first with nobody writing, then with BBusyState = v (1, 2, 3, -1) "
                                     "set over the whole table for as long as the lookups run (every call in a goroutine of its own), then released and repeated by 2..16 goroutines x "
                                     "%d rounds at once; every number predicted by the reference scan" % (len(cases), cases[0][4]))
    io = vf.run_impl(impl, "C11", lines, deadline_ms=240000)
    c.count(sum(len(b[2]) for b in built), "stalled-writer-steps")
    if model:
        mo = vf.run_model(model, lines)
        vf.correspond(c, "lookups under a stalled writer / by several goroutines (op 12) vs model", lines, io, mo)
    for (label, tbl, v, G, R), (line, exp, seq, obs), o in zip(cases, built, io):
        c.cov["distribution"]["stalled-writer"] = c.cov["distribution"].get("stalled-writer", 0) + 1
        names = [nm for nm, _ in tbl]
        rep = {"cases": [line], "expected": exp, "got": o}
        if o.split()[:1] in (["1"], ["2"]):
            c.violation("stalled-writer-" + ("crash" if o.split()[0] == "1" else "hang"), "table %r loaded in fresh state, then lookups with BBusyState = %d left set / by %d goroutines at once: %s" % (
                names, v, G, "panics" if o.split()[0] == "1" else "does not return"), rep)
            continue
        recs = h_parse(o)
        if recs is None or len(recs) != len(seq):
            c.violation("stalled-writer-output", "table %r, BBusyState = %d: unreadable result" % (names, v), rep)
            continue
        c.nontrivial(("stalled", line))
        c.sample({"op": "stalled-writer", "case": label, "table": names, "flag": v, "goroutines": G, "rounds": R, "impl": o[:300]})
        seen = set()
        for (st, want, phase), got in zip(seq, recs):
            if got == want:
                continue
            if phase == "A":
                if len(got) >= 2 and got[1] != 0:
                    key, what = "busy-flag-left-set-after-install", "ReloadBCache of %r leaves BBusyState = %d" % (names, got[1])
                else:
                    key, what = "stalled-writer-quiescent-" + st[0], "table %r, nobody writing: %s = %s, a scan of the table says %s" % (names, h_describe(st), got[5:], want[5:])
            elif st[0] in ("stall", "release"):
                key, what = "stalled-writer-status", "table %r, after BBusyState was set to %d%s: [err busy busyB n records] = %s, expected %s" % (
                    names, v, "" if st[0] == "stall" else " and released", got, want)
            elif st[0] == "concurrent":
                ob = obs[got[6]] if len(got) >= 9 and 0 <= got[6] < len(obs) else None
                key = "concurrent-lookups-differ"
                what = "table %r, nobody writing, %d goroutines x %d rounds of the lookups at once: %s answers differ from the sequential ones%s" % (
                    names, G, R, got[5] if len(got) > 5 else "?",
                    "" if ob is None or ob[0] not in S_CALLS else ", e.g. %s%r = %d" % (S_CALLS[ob[0]][got[7]], tuple(ob[1:]), got[8]))
            elif st[0] in S_CALLS:
                bad = [(w, g, x) for w, g, x in zip(S_CALLS[st[0]], got[5:], want[5:]) if g != x]
                if bad:
                    key = "lookup-under-stalled-writer-" + bad[0][0].split()[0]
                    what = "table %r whole and sorted, BBusyState = %d left set by a writer stopped in its critical section: %s%r = %d, a scan of the table says %d" % (
                        names, v, bad[0][0], tuple(st[1:]), bad[0][1], bad[0][2])
                else:
                    key, what = "stalled-writer-status", "table %r, BBusyState = %d: after %s [err busy busyB n records] = %s, expected %s" % (names, v, h_describe(st), got[:5], want[:5])
            else:
                key = "listing-under-stalled-writer-" + ("by-class" if st[3] else "by-name")
                what = "table %r whole and sorted, BBusyState = %d left set by a writer stopped in its critical section: %s listing (page size %d, %s): [err .. pages positions...] = %s, every visible board once in order is %s" % (
                    names, v, "by-class" if st[3] else "by-name", st[1], "asc" if st[2] else "desc", got[:1] + got[5:], want[:1] + want[5:])
            if key not in seen:
                seen.add(key)
                c.violation(key, what, rep)


def seq_tbl(seq, upto):
    """the reference table at the step `upto` of a built scenario (replayed from its operations)"""
    ref = HRef()
    for st, _ in seq:
        if st is upto:
            break
        if st[0] in H_WHAT:
            ref.step(st)
    return ref.tbl


def main():
    c = vf.Check("C11")
    rng = c.rng
    thorough = c.tier == "thorough"
    c.prove()
    model_ok = c.model_ok()
    impl = vf.build_impl()
    model = vf.build_model("C11") if model_ok else None
    vf.ipc_cleanup()

    NALL = 4 if thorough else 3          # all ordered selections up to this size
    NMAX = 5 if thorough else 4
    tables = []
    for n in range(0, NMAX + 1):
        if n <= NALL:
            sels = list(itertools.permutations(POOL, n))
        else:
            sels = []
            for comb in itertools.combinations(POOL, n):          # every subset, a few orders each
                perms = list(itertools.permutations(comb))
                sels += rng.sample(perms, 3 if not thorough else 6)
        for sel in sels:
            titles = []
            for pos, nm in enumerate(sel):
                titles.append("\0\0\0\0\0" if nm == "" else CLASSES[(pos + len(nm)) % 3])
            tables.append((list(sel), titles))
    # two vacated slots, and a table of larger size
    tables.append((["b", "", "a", ""], ["AAAA ", "\0\0\0\0\0", "BBBB ", "\0\0\0\0\0"]))
    for sp in SPECIAL:
        tables.append((list(reversed(sp)), ["AAAA "] * len(sp)))
    for _ in range(40 if thorough else 6):
        n = rng.randrange(6, 60)
        seen, nm_l = set(), []
        while len(nm_l) < n:
            s = "".join(rng.choice("aAbBzZ09") for _ in range(rng.randrange(1, 6)))
            if s not in seen:
                seen.add(s); nm_l.append(s)
        tables.append((nm_l, [rng.choice(CLASSES) for _ in nm_l]))
    # field-width tables: every ordered selection of <= 3 names of WIDE, every subset of 4 and 5 in sampled orders, the whole pool
    first_wide = len(tables)
    for n in range(1, len(WIDE) + 1):
        if n <= 3:
            sels = list(itertools.permutations(WIDE, n))
        else:
            sels = []
            for comb in itertools.combinations(WIDE, n):
                perms = list(itertools.permutations(comb))
                sels += rng.sample(perms, (2 if n < len(WIDE) else 6) * (3 if thorough else 1))
        for sel in sels:
            if not any(len(nm) >= 11 for nm in sel):
                continue                                    # short names only: covered by the pool above
            tables.append((list(sel), ["\0\0\0\0\0" if nm == "" else WIDE_CLASSES[(pos + len(nm)) % 3] for pos, nm in enumerate(sel)]))
    # larger tables with many names of 11 and 12 characters sharing their first 10 / 11 characters, twin-free
    for _ in range(12 if thorough else 4):
        n = rng.randrange(6, 40)
        seen, nm_l = set(), []
        while len(nm_l) < n:
            if rng.random() < 0.6:
                s_ = N11[:10] + rng.choice("kKxX0") + rng.choice(["", "", "l", "M", "0", "z", "_"])
            else:
                s_ = "".join(rng.choice("abzZ09") for _ in range(rng.randrange(1, 4)))
            if s_.lower() not in seen:
                seen.add(s_.lower()); nm_l.append(s_)
        tables.append((nm_l, [rng.choice(WIDE_CLASSES) for _ in nm_l]))
    n_wide = len(tables) - first_wide
    # tables over the high-byte pool: every ordered selection of <= 2, every subset of 3 in one PRNG order, sampled larger ones, the whole pool
    first_high = len(tables)
    for n in range(1, len(HPOOL) + 1):
        if n <= 2:
            sels = list(itertools.permutations(HPOOL, n))
        elif n == 3:
            sels = []
            for comb in itertools.combinations(HPOOL, n):
                perm = list(comb); rng.shuffle(perm); sels.append(tuple(perm))
        else:
            sels = []
            for _ in range((6 if n < len(HPOOL) else 4) * (4 if thorough else 1)):
                perm = list(HPOOL); rng.shuffle(perm); sels.append(tuple(perm[:n]))
        for sel in sels:
            if not any(ord(ch) >= 0x80 for nm in sel for ch in nm):
                continue
            tables.append((list(sel), ["\0\0\0\0\0" if nm == "" else HCLASSES[(pos + len(nm)) % 3] for pos, nm in enumerate(sel)]))
    n_high = len(tables) - first_high
    c.cov["exhaustive_parts"].append("high-byte tables over the names %r (bytes >= 0x80: names differing only in their high bytes, order decided by a high byte, "
                                     "a pair equal only for a UTF-8 aware lower-casing): every ordered selection of <= 2, every subset of 3, sampled larger ones, the whole pool: "
                                     "%d tables; GetBid / FindBoardIdxByName for every pool name, its upper case and %d probes, FindBoardIdxByClass with Big5 classes, "
                                     "auto-completion with high-byte prefixes, by-name / by-class / auto-complete listing walks" % (HPOOL, n_high, len(HPROBES)))
    c.cov["exhaustive_parts"].append("field-width tables over the names %r (lengths 1, 2, 11, 12 = the full BoardID_t, shared 11-character prefixes): every ordered selection of <= 3, "
                                     "every subset of 4..6 in sampled orders, the whole pool, + twin-free random tables of 6..39 boards with 11/12-character names: %d tables; "
                                     "all lookups, by-name / by-class / auto-complete listing walks (both directions, page sizes 1..n+1)" % (WIDE, n_wide))
    c.cov["exhaustive_parts"].append("every ordered selection of <= %d boards from a pool of %d names (case twins, shared prefixes, a vacated slot), every subset of %d in sampled orders: %d tables" % (NALL, len(POOL), NMAX, len(tables)))

    def tb(t):
        return "%s|%s" % (names_wire(t[0]), titles_wire(t[1]))

    # ---------------------------------------------------------------- load every table, read back both sorted indexes
    def load_tables(tbls):
        l0 = ["0|" + tb(t) for t in tbls]
        o0 = vf.run_impl(impl, "C11", l0)
        c.count(len(l0), "reload+sort")
        res = []
        for t, l, o in zip(tbls, l0, o0):
            names, titles = t
            n = len(names)
            f = o.split()
            ok = f[0] == "0" and int(f[1]) == n and len(f) == 2 + 2 * n
            by_name = [int(x) for x in f[2:2 + n]] if ok else []
            by_class = [int(x) for x in f[2 + n:2 + 2 * n]] if ok else []
            if ok:
                ok = sorted(by_name) == list(range(n)) and sorted(by_class) == list(range(n))
                for a, b in zip(by_name, by_name[1:]):
                    ok = ok and casecmp(names[a], names[b]) <= 0
                for a, b in zip(by_class, by_class[1:]):
                    ka = (titles[a][:4].split("\0")[0].encode("latin-1"), low(names[a]))
                    kb = (titles[b][:4].split("\0")[0].encode("latin-1"), low(names[b]))
                    ok = ok and ka <= kb
            if not ok:
                c.violation("bsorted-not-a-sorted-permutation", "after ReloadBCache of %r the sorted indexes are %s" % (names, o), {"cases": [l], "got": o})
                by_name, by_class = [], []
            res.append((by_name, by_class))
            c.nontrivial(("table", tuple(names), tuple(titles)))
        return res

    sorted_of = load_tables(tables)

    # ---------------------------------------------------------------- queries
    impl_lines, model_lines, meta = [], [], []

    def add(kind, t, so, il, ml, info):
        impl_lines.append(il); model_lines.append(ml); meta.append((kind, t, so, info))

    def add_class_walks(t, by_class):
        names, titles = t
        n = len(names)
        if len(by_class) != n:
            return
        if any("@" in nm for nm in names):      # the cursor is base64(class)@name: '@' cannot occur in a valid board name
            return
        sc_n = [names[i] for i in by_class]
        sc_t = [titles[i] for i in by_class]
        T = tb(t)
        for k in (range(1, n + 2) if n <= NMAX else [1, 2, 3, n]):
            for asc in (1, 0):
                add("cwalk", t, (sc_t, sc_n), "7|%s|%d %d" % (T, k, asc), "7|%s|%s|%d %d" % (titles_wire(sc_t), names_wire(sc_n), k, asc), (k, asc))

    def add_wide_queries(t, by_name, by_class):
        """the queries of a field-width table: every pool name and probe of 10..13 bytes, classes of the full width, prefixes of 11 and
        12 bytes, and the three listing walks (auto-complete in both directions, with the start cursor of every page)"""
        names, titles = t
        n = len(names)
        small = n <= len(WIDE)
        sn = [names[i] for i in by_name]
        sc_n = [names[i] for i in by_class]
        sc_t = [titles[i] for i in by_class]
        T = tb(t)
        for q in ([x for x in WIDE if x] + WIDE_PROBES if small else rng.sample(names, 6) + WIDE_PROBES[:3]):
            add("getbid", t, by_name, "1|%s|%s" % (T, toks(q)), "1|%s|%s|%s" % (names_wire(sn), " ".join(str(i + 1) for i in by_name), toks(q)), q)
            for asc in (1, 0):
                add("byname", t, sn, "2|%s|%s|%d" % (T, toks(q), asc), "2|%s|%s|%d" % (names_wire(sn), toks(q), asc), (q, asc))
        for cl in ["AAAA", "BBBB", "\xa4\xdf\xb1\x6f", "AAA"]:
            for q in ([N11, N11 + "l", N11 + "k", "a"] if small else rng.sample(names, 2)):
                for asc in (1, 0):
                    add("byclass", t, (sc_t, sc_n), "3|%s|%s|%s|%d" % (T, toks(cl), toks(q), asc),
                        "3|%s|%s|%s|%s|%d" % (titles_wire(sc_t), names_wire(sc_n), toks(cl), toks(q), asc), (cl, q, asc))
        for kw in WIDE_PREFIXES:
            for asc in (1, 0):
                add("autocomplete", t, sn, "4|%s|%s|%d" % (T, toks(kw), asc), "4|%s|%s|%d" % (names_wire(sn), toks(kw), asc), (kw, asc))
        for k in (range(1, n + 2) if small else [1, 2, 3, n]):
            for asc in (1, 0):
                add("walk", t, sn, "5|%s|%d %d" % (T, k, asc), "5|%s|%d %d" % (names_wire(sn), k, asc), (k, asc))
        for kw in ["a", N11[:10], N11, N11 + "l", "Z", "z"]:
            for k in ((1, 2, 3) if small else (1, 4)):
                for asc in (1, 0):
                    add("acwalk", t, sn, "6|%s|%s|%d %d" % (T, toks(kw), k, asc), None, (kw, k, asc))
        add_class_walks(t, by_class)

    def add_high_queries(t, by_name, by_class):
        names, titles = t
        n = len(names)
        small = n <= 3
        sn = [names[i] for i in by_name]
        sc_n = [names[i] for i in by_class]
        sc_t = [titles[i] for i in by_class]
        T = tb(t)
        pool_q = [x for x in HPOOL if x]
        qs = pool_q + [aup(x) for x in pool_q if aup(x) != x] + HPROBES
        if not small:
            qs = [x for x in names if x] + rng.sample(qs, 8)
        for q in qs:
            add("getbid", t, by_name, "1|%s|%s" % (T, toks(q)), "1|%s|%s|%s" % (names_wire(sn), " ".join(str(i + 1) for i in by_name), toks(q)), q)
            for asc in (1, 0):
                add("byname", t, sn, "2|%s|%s|%d" % (T, toks(q), asc), "2|%s|%s|%d" % (names_wire(sn), toks(q), asc), (q, asc))
        for cl in ["AAAA", "\xa4\xdf\xb1\x6f", "\xa4\xdf\xb1\xe5", "\xa4\xdf\xb1\xe4", "\xa4\xe0"]:
            for q in (["\xb4\xfax", "\xb8\xd5X", "a", "\xb6"] if small else rng.sample(pool_q, 2)):
                for asc in (1, 0):
                    add("byclass", t, (sc_t, sc_n), "3|%s|%s|%s|%d" % (T, toks(cl), toks(q), asc),
                        "3|%s|%s|%s|%s|%d" % (titles_wire(sc_t), names_wire(sc_n), toks(cl), toks(q), asc), (cl, q, asc))
        for kw in HPREFIXES:
            for asc in (1, 0):
                add("autocomplete", t, sn, "4|%s|%s|%d" % (T, toks(kw), asc), "4|%s|%s|%d" % (names_wire(sn), toks(kw), asc), (kw, asc))
        for k in (range(1, n + 2) if small else [1, 2, n]):
            for asc in (1, 0):
                add("walk", t, sn, "5|%s|%d %d" % (T, k, asc), "5|%s|%d %d" % (names_wire(sn), k, asc), (k, asc))
        for kw in ["\xb4", "a", "\xb8\xd5", "\xc3"]:
            for k in ((1, 2) if small else (1, 3)):
                for asc in (1, 0):
                    add("acwalk", t, sn, "6|%s|%s|%d %d" % (T, toks(kw), k, asc), None, (kw, k, asc))
        add_class_walks(t, by_class)

    for ti, (t, (by_name, by_class)) in enumerate(zip(tables, sorted_of)):
        names, titles = t
        n = len(names)
        if len(by_name) != n:
            continue
        if ti >= first_high:
            add_high_queries(t, by_name, by_class)
            continue
        if ti >= first_wide:
            add_wide_queries(t, by_name, by_class)
            continue
        small = n <= NMAX
        sn = [names[i] for i in by_name]                       # names in by-name order
        sc_n = [names[i] for i in by_class]
        sc_t = [titles[i] for i in by_class]
        T = tb(t)
        qs = [x for x in POOL if x] + PROBES if small else rng.sample(names, 6) + PROBES
        for q in qs:
            add("getbid", t, by_name, "1|%s|%s" % (T, toks(q)), "1|%s|%s|%s" % (names_wire(sn), " ".join(str(i + 1) for i in by_name), toks(q)), q)
            for asc in (1, 0):
                add("byname", t, sn, "2|%s|%s|%d" % (T, toks(q), asc), "2|%s|%s|%d" % (names_wire(sn), toks(q), asc), (q, asc))
        cls_q = ["AAAA", "BBBB", "AAAAx", "0000", "zzzz"]
        nm_q = ["a", "ab", "!", "zz", "aB"] if small else rng.sample(names, 3) + ["!"]
        for cl in cls_q:
            for q in nm_q:
                for asc in (1, 0):
                    add("byclass", t, (sc_t, sc_n), "3|%s|%s|%s|%d" % (T, toks(cl), toks(q), asc),
                        "3|%s|%s|%s|%s|%d" % (titles_wire(sc_t), names_wire(sc_n), toks(cl), toks(q), asc), (cl, q, asc))
        for kw in PREFIXES + LONG + [""]:
            for asc in (1, 0):
                add("autocomplete", t, sn, "4|%s|%s|%d" % (T, toks(kw), asc), "4|%s|%s|%d" % (names_wire(sn), toks(kw), asc), (kw, asc))
        for k in (range(1, n + 2) if small else [1, 3, n]):
            for asc in (1, 0):
                add("walk", t, sn, "5|%s|%d %d" % (T, k, asc), "5|%s|%d %d" % (names_wire(sn), k, asc), (k, asc))
        if small:
            for kw in ["a", "ab", "A"]:
                for k in (1, 2):
                    add("acwalk", t, sn, "6|%s|%s|%d 1" % (T, toks(kw), k), None, (kw, k, 1))
        add_class_walks(t, by_class)

    # ---------------------------------------------------------------- by-class listing walks: the same name tables with
    # short, blank-padded, prefix-sharing classes (three class assignments per table)
    ctables, cseen = [], set()
    for ti, (names, _) in enumerate(tables):
        pair = WPAIRS[rng.randrange(len(WPAIRS))]
        for titles in ([WCLASSES[ti % len(WCLASSES)]] * len(names),
                       [rng.choice(pair) for _ in names],
                       [rng.choice(WCLASSES) for _ in names]):
            ct = (names, ["\0\0\0\0\0" if nm == "" else tt for nm, tt in zip(names, titles)])
            if (tuple(ct[0]), tuple(ct[1])) not in cseen:
                cseen.add((tuple(ct[0]), tuple(ct[1])))
                ctables.append(ct)
    c.cov["exhaustive_parts"].append("by-class listing walks: every table above as it is + with 3 assignments of classes of 0..4 characters "
                                     "padded with blanks/NULs and sharing prefixes (%d tables), every page size 1..n+1, both directions" % len(ctables))
    for t, (by_name, by_class) in zip(ctables, load_tables(ctables)):
        add_class_walks(t, by_class)

    # ---------------------------------------------------------------- filtered listings (op 10): whole titles with Big5 text
    def ftitles_wire(fts):
        return " ".join((toks(x) + " 0") if x else "0" for x in fts)

    ftables = []
    for n in ([1, 2, 3, 3, 4, 4, 5, 6, 7] * (3 if thorough else 1)) + [len(FTITLES)]:
        nm_l = rng.sample(FNAMES, min(n, len(FNAMES)))
        tt_l = [rng.choice(FTITLES) for _ in nm_l] if n < len(FTITLES) else rng.sample(FTITLES, len(nm_l))
        if n >= 3:
            i = rng.randrange(len(nm_l)); nm_l[i] = ""; tt_l[i] = ""          # a vacated slot
        ftables.append((nm_l, tt_l))
    ftables.append((list(FNAMES[:len(FTITLES)]), list(FTITLES)))
    f5 = [(nm, [(x[:5] if x else "\0\0\0\0\0") for x in tt]) for nm, tt in ftables]
    for (names, ftitles), t5, (by_name, by_class) in zip(ftables, f5, load_tables(f5)):
        n = len(names)
        if len(by_name) != n:
            continue
        for by, order in ((0, by_name), (1, by_class)):
            sn = [names[i] for i in order]
            sf = [ftitles[i] for i in order]
            for mode, flt in [(1, x) for x in TITLE_FILTERS] + [(2, x) for x in KEYWORD_FILTERS]:
                for k in sorted({1, 2, n + 1}):
                    for asc in (1, 0):
                        add("fwalk", (names, ftitles), (sn, sf), "10|%s|%s|%d %s|%d %d %d" % (names_wire(names), ftitles_wire(ftitles), mode, toks(flt), k, asc, by),
                            "10|%s|%s|%d %s|%d %d %d" % (names_wire(sn), ftitles_wire(sf), mode, toks(flt), k, asc, by), (mode, flt, k, asc, by))
    c.cov["exhaustive_parts"].append("filtered listings: %d tables with whole titles from %d Big5/ASCII titles (the filter present, four other high bytes, the filter's bytes "
                                     "not adjacent / reversed / differing in the last byte) x %d title filters + %d keyword filters (Big5, ASCII in both letter cases, absent) "
                                     "x by name / by class x both directions x page sizes 1, 2, n+1" % (len(ftables), len(FTITLES), len(TITLE_FILTERS), len(KEYWORD_FILTERS)))

    # ---------------------------------------------------------------- listings while the boards' own article indexes are in odd states (op 11)
    dcand = [(t, so) for ti, (t, so) in enumerate(zip(tables, sorted_of))
             if 2 <= len(t[0]) <= 6 and len(so[0]) == len(t[0]) and len({low(x) for x in t[0]}) == len(t[0]) and all(x[4] in " \0" for x in t[1])
             and not any(ch in nm for nm in t[0] for ch in "@/.")]
    dsel = rng.sample(dcand, min(len(dcand), 60 if thorough else 14)) + [x for x in dcand if any(ord(ch) >= 0x80 for nm in x[0][0] for ch in nm)][:3]
    for t, (by_name, by_class) in dsel:
        names, titles = t
        n = len(names)
        T = tb(t)
        vecs = [[st] * n for st in (2, 3, 4, 5, 7)]
        for st in (2, 4, 5, 6):
            v = [rng.choice([0, 1]) for _ in names]; v[rng.randrange(n)] = st; vecs.append(v)
        vecs.append([rng.randrange(8) for _ in names])
        for v in vecs:
            v = [0 if nm == "" else x for nm, x in zip(names, v)]
            for by, order in ((0, by_name), (1, by_class)):
                sn = [names[i] for i in order]
                st_ = [titles[i] for i in order]
                sv = [v[i] for i in order]
                for k in sorted({1, 2, n}):
                    for asc in (1, 0):
                        ml = "5|%s|%d %d" % (names_wire(sn), k, asc) if by == 0 else "7|%s|%s|%d %d" % (titles_wire(st_), names_wire(sn), k, asc)
                        add("dwalk", t, (sn, sv), "11|%s|%s|%d %d %d" % (T, " ".join(str(x) for x in v), k, asc, by), ml, (tuple(v), k, asc, by, ""))
            sn = [names[i] for i in by_name]
            sv = [v[i] for i in by_name]
            kw = next((low(nm[:1]).decode("latin-1") for nm in names if nm), "a")     # lower case: a last byte 'Z' is the known finding of descending auto-completion
            if kw in "@\xff":
                kw = "a"
            for asc in (1, 0):
                add("dwalk", t, (sn, sv), "11|%s|%s|%d %d 2|%s" % (T, " ".join(str(x) for x in v), 1, asc, toks(kw)), None, (tuple(v), 1, asc, 2, kw))
    c.cov["exhaustive_parts"].append("listings right after ReloadBCache (no article count cached) with the boards' own article indexes in the states %r: %d twin-free tables x "
                                     "(every board in state 2 / 3 / 4 / 5 / 7, one board in state 2 / 4 / 5 / 6 among ordinary ones, a PRNG(seed) mix) x by name / by class "
                                     "(page sizes 1, 2, n) / auto-complete x both directions" % (DIR_STATES, len(dsel)))

    io = vf.run_impl(impl, "C11", impl_lines, deadline_ms=20000)
    if model:
        idx = [i for i, m in enumerate(model_lines) if m is not None]
        mo = vf.run_model(model, [model_lines[i] for i in idx])
        vf.correspond(c, "cache.* / bbs.LoadGeneralBoards vs model", [impl_lines[i] for i in idx], [io[i] for i in idx], mo)
    c.count(len(impl_lines), "queries")

    def pos_first(pred, seq):
        for i, x in enumerate(seq):
            if pred(x):
                return i + 1
        return -1

    def pos_last(pred, seq):
        for i in range(len(seq) - 1, -1, -1):
            if pred(seq[i]):
                return i + 1
        return -1

    def cwalk_want(so, info):
        st, sn = so
        k, asc = info
        vis = [i + 1 for i, nm in enumerate(sn) if nm]
        if not asc:
            vis = vis[::-1]
        return "0 %d%s" % (max(1, -(-len(vis) // k)), "".join(" %d" % v for v in vis))

    def cwalk_key(so, info):
        """signature of a failing by-class walk: the two known input classes first"""
        st, sn = so
        d = "-asc" if info[1] else "-desc"
        if any(x[4] not in (" ", "\0") for x in st):
            return "find-by-class-nonblank-fifth-title-byte"   # cursor class = Title[:4], searched against Title[:5]
        keys = [(x[:4].split("\0")[0], low(nm)) for x, nm in zip(st, sn) if nm]
        if len(set(keys)) < len(keys):
            return "listing-case-twins"                        # two boards of one class with names equal up to case
        if any(x[:4].split("\0")[0].endswith(" ") for x, nm in zip(st, sn) if nm):
            return "listing-by-class-padded-class" + d         # a class shorter than 4 columns, padded with blanks
        return "listing-by-class" + d + fw(sn)

    def fw(nms):
        """signature suffix: the table has a board whose name fills the whole BoardID_t"""
        return "-full-width-name" if any(len(x) >= 12 for x in nms) else ""

    sampled = set()
    for l, o, (kind, t, so, info) in zip(impl_lines, io, meta):
        names, titles = t
        f = o.split()
        c.cov["distribution"][kind] = c.cov["distribution"].get(kind, 0) + 1
        if f[0] in ("1", "2"):
            if kind == "autocomplete" and (len(info[0]) > 12 or len(info[0]) == 0):
                key = "autocomplete-crash-prefix-length"
            elif kind in ("walk", "acwalk") and len({low(x) for x in names}) < len(names):
                key = "listing-case-twins"     # the next-cursor (a name) resolves to the other twin: the walk repeats / never ends
            elif kind == "cwalk":
                want = cwalk_want(so, info)
                c.violation(cwalk_key(so, info), "by-class listing (page size %d, %s) over the by-class order %r %s; every visible board once in order is [status pages positions...] = %s" % (
                    info[0], "asc" if info[1] else "desc", [(x[:4], nm) for x, nm in zip(*so)],
                    "panics" if f[0] == "1" else "is not over after 2n+3 pages (the next-cursor does not advance)", want), {"cases": [l], "expected": want, "got": o})
                continue
            else:
                key = "%s-%s%s" % (kind, "crash" if f[0] == "1" else "hang", fw(names) if kind in ("walk", "acwalk") else "")
            c.violation(key, "%s(%r) on table %r: %s" % (kind, info, names, "panics" if f[0] == "1" else
                        ("is not over after 2n+3 pages (the next-cursor does not advance)" if kind in ("walk", "acwalk", "fwalk", "dwalk") else "does not return")), {"cases": [l], "got": o})
            continue
        c.nontrivial((kind, tuple(names), info))
        if kind not in sampled:
            sampled.add(kind); c.sample({"op": kind, "table": names, "query": info, "impl": o})
        if kind == "getbid":
            q = info
            want = {i + 1 for i, nm in enumerate(names) if casecmp(nm, q) == 0}
            got = int(f[1])
            if (want and got not in want) or (not want and got != 0):
                c.violation("getbid", "GetBid(%r) on %r = %d, boards with that name: %s" % (q, names, got, sorted(want)), {"cases": [l], "expected": sorted(want) or [0], "got": o})
        elif kind == "byname":
            q, asc = info
            sn = so
            exact = {i + 1 for i, nm in enumerate(sn) if casecmp(nm, q) == 0}
            scan = pos_first(lambda nm: casecmp(nm, q) >= 0, sn) if asc else pos_last(lambda nm: casecmp(nm, q) <= 0, sn)
            got = int(f[1])
            if not ((exact and got in exact) or (not exact and got == scan)):
                below = all(casecmp(nm, q) > 0 for nm in sn)
                key = "find-by-name-asc-below-first" if (asc and below) else "find-by-name"
                c.violation(key, "FindBoardIdxByName(%r, %s) on sorted %r = %d, scan says %s" % (q, "asc" if asc else "desc", sn, got, sorted(exact) or scan),
                            {"cases": [l], "expected": sorted(exact) or scan, "got": o})
        elif kind == "byclass":
            cl, q, asc = info
            st, sn = so

            def kcmp(i):   # compare entry i with the key, as the property's scan does: class as C string, then name ignoring case
                a = ccmp(board_class(st[i]).split("\0")[0].encode("latin-1"), cl.encode("latin-1"))
                return a if a != 0 else casecmp(sn[i], q)
            exact = {i + 1 for i in range(len(sn)) if kcmp(i) == 0}
            scan = pos_first(lambda i: kcmp(i) >= 0, range(len(sn))) if asc else pos_last(lambda i: kcmp(i) <= 0, range(len(sn)))
            got = int(f[1])
            if not ((exact and got in exact) or (not exact and got == scan)):
                below = all(kcmp(i) > 0 for i in range(len(sn)))
                nonblank = any(x[4] not in (" ", "\0") for x in st)
                key = "find-by-class-asc-below-first" if (asc and below) else ("find-by-class-nonblank-fifth-title-byte" if nonblank else "find-by-class")
                c.violation(key, "FindBoardIdxByClass(%r, %r, %s) on %r = %d, scan says %s" % (cl, q, "asc" if asc else "desc", list(zip(st, sn)), got, sorted(exact) or scan),
                            {"cases": [l], "expected": sorted(exact) or scan, "got": o})
        elif kind == "autocomplete":
            kw, asc = info
            sn = so
            n = len(sn)
            has = lambda nm: low(nm).startswith(low(kw))
            if kw == "":
                want = (1 if asc else n) if n > 0 else -1
            elif len(kw) > 12:
                want = -1
            else:
                want = pos_first(has, sn) if asc else pos_last(has, sn)
            got = int(f[1])
            if got != want:
                twins = len({low(x) for x in sn}) < len(sn)
                if not asc and kw and kw[-1] in "Z":
                    key = "autocomplete-desc-upper-Z"
                elif not asc and kw and kw[-1] == "@":
                    key = "autocomplete-desc-at-sign"
                elif not asc and kw and kw[-1] == "\xff":
                    key = "autocomplete-desc-0xff"
                elif twins:
                    key = "autocomplete-case-twins"
                else:
                    key = "autocomplete"
                c.violation(key, "FindBoardAutoCompleteStartIdx(%r, %s) on sorted %r = %d, first/last board carrying the prefix is %d" % (kw, "asc" if asc else "desc", sn, got, want),
                            {"cases": [l], "expected": want, "got": o})
        elif kind in ("walk", "acwalk"):
            sn = so
            if kind == "walk":
                k, asc = info
                vis = [i + 1 for i, nm in enumerate(sn) if nm]
            else:
                kw, k, asc = info
                vis = [i + 1 for i, nm in enumerate(sn) if nm and low(nm).startswith(low(kw))]
            if not asc:
                vis = vis[::-1]
            want = "0 %d%s" % (max(1, -(-len(vis) // k)), "".join(" %d" % v for v in vis))
            if o.strip() != want:
                twins = len({low(x) for x in sn}) < len(sn)
                key = "listing-case-twins" if twins else kind + fw(sn)
                if kind == "acwalk" and not asc and kw[-1] == "Z" and not twins:
                    key = "autocomplete-desc-upper-Z"      # the start index of the first page is the known finding
                c.violation(key, "%s listing (page size %d, %s%s) over sorted %r: [status pages positions...] = %s, every visible board once in order is %s" % (
                    "by-name" if kind == "walk" else "auto-complete", k, "asc" if asc else "desc", "" if kind == "walk" else ", prefix %r" % kw, sn, o, want),
                    {"cases": [l], "expected": want, "got": o})

        elif kind == "fwalk":
            sn, sf = so
            mode, flt, k, asc, by = info
            lf = low(flt)

            def listed(nm, ft):
                if not nm:
                    return False
                if mode == 1:
                    return lf in low(ft)
                return lf in low(ft) or lf in low(nm)
            vis = [i + 1 for i, (nm, ft) in enumerate(zip(sn, sf)) if listed(nm, ft)]
            if not asc:
                vis = vis[::-1]
            want = "0 %d%s" % (max(1, -(-len(vis) // k)), "".join(" %d" % v for v in vis))
            if o.strip() != want:
                c.violation("filtered-listing-%s%s" % ("title" if mode == 1 else "keyword", "-high-bytes" if any(ord(ch) >= 0x80 for ch in flt) else ""),
                            "%s listing with the %s filter %r (page size %d, %s) over [(name, title)] = %r: [status pages positions...] = %s, the boards whose %s "
                            "the filter (byte-wise, 'A'..'Z' folded), each once in order, are %s" % (
                                "by-class" if by else "by-name", "title" if mode == 1 else "keyword", flt, k, "asc" if asc else "desc", list(zip(sn, sf)), o,
                                "title contains" if mode == 1 else "title or name contains", want), {"cases": [l], "expected": want, "got": o})
        elif kind == "dwalk":
            sn, sv = so
            v, k, asc, by, kw = info
            vis = [i + 1 for i, nm in enumerate(sn) if nm and (by != 2 or low(nm).startswith(low(kw)))]
            if not asc:
                vis = vis[::-1]
            want = "0 %d%s" % (max(1, -(-len(vis) // k)), "".join(" %d" % x for x in vis))
            if o.strip() != want:
                odd = sorted({x for x in sv if x >= 2})
                c.violation("listing-drops-board-with-odd-article-index",
                            "%s listing (page size %d, %s%s) right after ReloadBCache over [(name, state of the board's own article index)] = %r (%s): [status pages positions...] = %s, "
                            "every visible board once in order is %s - the state of a board's article index must not remove it from a listing nor end the paging" % (
                                ["by-name", "by-class", "auto-complete"][by], k, "asc" if asc else "desc", ", prefix %r" % kw if by == 2 else "",
                                list(zip(sn, sv)), "; ".join("%d = %s" % (x, DIR_STATES[x]) for x in odd), o, want), {"cases": [l], "expected": want, "got": o})
        elif kind == "cwalk":
            st, sn = so
            k, asc = info
            want = cwalk_want(so, info)
            if o.strip() != want:
                c.violation(cwalk_key(so, info), "by-class listing (page size %d, %s) over the by-class order %r: [status pages positions...] = %s, every visible board once in order is %s" % (
                    k, "asc" if asc else "desc", [(x[:4], nm) for x, nm in zip(st, sn)], o, want), {"cases": [l], "expected": want, "got": o})

    histories(c, impl, model, rng, thorough)
    stalled(c, impl, model, rng, thorough)

    c.finish(rule="tables: every ordered selection of <= %d names from the pool %r + subsets of %d in PRNG(seed) orders + random tables of 6..59 boards; "
                  "queries: every pool name, probes below/above/absent/other case; classes incl. one with a non-blank fifth title byte; prefixes incl. empty, 12, 13 and 16 bytes, and last bytes 'Z', '@', 0xFF (+ two tables on which the latter two fail); "
                  "both directions; page sizes 1..n+1; by-class listing walks on every table and on each with 3 PRNG(seed) assignments of the classes %r; "
                  "field-width tables: every ordered selection of <= 3 of %r + subsets of 4..6 in PRNG(seed) orders + twin-free random tables with 11/12-character names, probes of 10..13 bytes, "
                  "prefixes of 11 and 12 bytes, by-name / by-class / auto-complete listing walks in both directions; "
                  "histories (op 8, one scenario per case line, fresh shared memory and no .BRD): 8 first-time / error paths of loading x PRNG(seed) creations "
                  "(AppendRecord + AddbrdTouchCache, bbs.CreateBoard) x final reload, every number the driver prints after every operation predicted by the reference; "
                  "stalled writer (op 12): fixed tables + PRNG(seed) tables of 2..6 boards, flag values 1, 2, 3, -1, 2..16 goroutines; "
                  "non-trivial = distinct (table, operation, query) that returned" % (NALL, POOL, NMAX, WCLASSES, WIDE),
             assumptions=["no writer is in the MIDDLE of rewriting the table during lookups (BBusyState sleep-and-proceed is not a lock); a busy flag that stays set over a whole table "
                          "- a writer stopped right after setting it, or a killed writer's flag left in the shared memory - is exercised by op 12 and modelled (stall / waited: theorem "
                          "C11_lookups_under_a_stalled_writer is about the model's reader, the code's reader is tied to it by correspondence and the scan predicate); that no busy flag is "
                          "left set after an operation returns is checked after every operation of every history",
                          "several goroutines of one process doing lookups at once (phase C of op 12) is validation by a stress run of 2..16 goroutines, not a theorem: the executable model "
                          "has no parallelism; a race that needs more overlapping calls than the run makes is not excluded",
                          "histories keep the cache coherent with the board file: a file put in place by the harness is followed by ReloadBCache; deleting .BRD under a loaded "
                          "cache (the old table stays) and refused creations are not exercised; history tables are twin-free with at most one vacated slot, so that "
                          "every output is determined",
                          "sort.Sort is library code: its output is read back from shared memory and checked to be a sorted permutation on every table, not re-proved",
                          "listings are walked as SYSOP (every non-vacated, non-group board visible); other visibility predicates are not exercised",
                          "the empty board name (a vacated slot) is not used as a query",
                          "by-class listing walks skip tables with '@' in a board name: the cursor is base64(class)@name and '@' cannot occur in a valid board name (BoardID_t.IsValid)"])


if __name__ == "__main__":
    main()
