#!/usr/bin/env python3
"""C06 — article lookup and paging over a board index equal a linear scan.
Proofs in coq/Props/C06.v; correspondence of the extracted model with cmsys/ptt/bbs on real .DIR files; the
deciding predicates compare the implementation's own answers with a linear scan written here."""
import itertools, os, sys
sys.path.insert(0, os.path.join(os.path.dirname(os.path.abspath(__file__)), "..", "lib"))
import vf

B = 1500000000          # base creation time (10 digits, below 2^31)
ABSENT = 4000           # a name suffix no generated entry carries
KINDS = (-1, -3, -2)    # delete-marked, garbage time digits, all-zero record


def entries_wire(es):
    """es: list of (t, nm) / ('x', kind). Wire: 't nm' pairs, t < 0 for unparsable entries."""
    out = []
    for i, e in enumerate(es):
        if e[0] == "x":
            out.append("%d %d" % (e[1], i + 1))
        else:
            out.append("%d %d" % e)
    return " ".join(out)


def valid(e):
    return e[0] != "x"


def ref_find(es, T, name, desc):
    """The linear scan of the property: the entry equal to the cursor if any, else the nearest in the listing direction."""
    n = len(es)
    order = range(n - 1, -1, -1) if desc else range(n)
    if name is not None:
        for i in order:
            if valid(es[i]) and es[i] == (T, name):
                return i + 1
    for i in order:
        if valid(es[i]) and (es[i][0] <= T if desc else es[i][0] >= T):
            return i + 1
    return None


def ref_page(es, start, k, desc):
    """The page of k entries from position start (1-based) in the listing direction and the entry after it:
    [count, first position, next cursor T, nm]; next = -1 0: none, -2 0: an unparsable entry."""
    n = len(es)
    pos = list(range(start, 0, -1)) if desc else list(range(start, n + 1))
    items = pos[:k]
    if len(pos) > k:
        e = es[pos[k] - 1]
        nxt = [e[0], e[1]] if valid(e) else [-2, 0]
    else:
        nxt = [-1, 0]
    return [len(items), items[0] if items else 0] + nxt


def ref_bbs_page(es, cur, k, desc):
    """What one bbs.LoadGeneralArticles(cursor, k, desc) call must return according to the property: the page that
    starts at the entry the linear scan positions the cursor at; not-found (3 1) when the scan finds nothing in the
    listing direction; 3 8 (no record) for a cursor on an empty board.  cur: None or (T, nm)."""
    n = len(es)
    if cur is None:
        if n == 0:
            return "0 0 0 -1 0"
        start = n if desc else 1
    else:
        if n == 0:
            return "3 8"
        start = ref_find(es, cur[0], cur[1], desc)
        if start is None:
            return "3 1"
    return "0 " + " ".join(str(x) for x in ref_page(es, start, k, desc))


def cursor_class(es, cur, desc):
    """class of a (T, nm) cursor with respect to the file as it is now"""
    if cur is None:
        return "none"
    vs = [e for e in es if valid(e)]
    if cur in vs:
        return "present"
    if not vs:
        return "no-parsable-entry"
    if cur[0] < vs[0][0]:
        return "below-first"
    if cur[0] > vs[-1][0]:
        return "above-last"
    return "absent"


def parse_walk(o):
    """'0 code pages nvis vis... trace...' -> (code, pages, visited, [[count, first, nT, nNm], ...])"""
    t = [int(x) for x in o.split()]
    code, pages, nvis = t[1], t[2], t[3]
    vis = t[4:4 + nvis]
    tr = t[4 + nvis:]
    return code, pages, vis, [tr[i:i + 4] for i in range(0, len(tr), 4)]


def patterns(n):
    """Every index file of n entries over {invalid, same time as the previous valid entry, later time}."""
    for pat in itertools.product("IEG", repeat=n):
        seen_valid = False
        skip = False
        es = []
        t = B
        for i, c in enumerate(pat):
            if c == "I":
                es.append(("x", KINDS[(i + n) % 3]))
                continue
            if not seen_valid:
                if c == "E":
                    skip = True   # the first valid entry has nothing to be equal to: same file as with 'G'
                    break
                seen_valid = True
            elif c == "G":
                t += 2
            es.append((t, i + 1))
        if not skip:
            yield "".join(pat), es


def cursors(es):
    """(T, name or None, class) — each present pair, an absent name at each time (with and without a name),
    times in the gaps, below the first and above the last entry."""
    out = []
    times = sorted({e[0] for e in es if valid(e)})
    for e in es:
        if valid(e):
            out.append((e[0], e[1], "present"))
    for t in times:
        out.append((t, ABSENT, "absent-name"))
        out.append((t, None, "time-only"))
        out.append((t + 1, ABSENT, "gap"))
    lo = times[0] if times else B
    hi = times[-1] if times else B
    out.append((lo - 5, ABSENT, "below-first"))
    out.append((lo - 1, None, "below-first"))
    out.append((hi + 5, ABSENT, "above-last"))
    out.append((hi + 7, None, "above-last"))
    return out


def find_line(es, total, T, name, desc):
    return "1|%s|%d %d %d %d %d" % (entries_wire(es), total, T, 0 if name is None else 1, 0 if name is None else name, 1 if desc else 0)


def spec_line(es, T, name, desc):
    return "6|%s|%d %d %d %d" % (entries_wire(es), T, 0 if name is None else 1, 0 if name is None else name, 1 if desc else 0)


def fmt_es(es):
    return "[" + ", ".join("x" if not valid(e) else "%d/%d" % (e[0] - B, e[1]) for e in es) + "]"


def fmt_big(es):
    return fmt_es(es) if len(es) <= 12 else "a %d-entry file %s ... %s" % (len(es), fmt_es(es[:3])[:-1], fmt_es(es[-2:])[1:])


def clip(o, n=260):
    o = o.strip()
    return o if len(o) <= n else o[:n] + " ... (%d numbers)" % len(o.split())


SAFEDEL = ".deleted"    # the site configuration FN_SAFEDEL is the first sd bytes of it: sd = 2 the default ".d", sd = 8 ".deleted"
BS = B + 3395           # base creation time of the files whose names differ only in the leading time digits


def cfg(sd, line):
    """the case 'op|...' under FN_SAFEDEL of sd bytes: '20 sd op|...'"""
    op, rest = line.split("|", 1)
    return "20 %d %s|%s" % (sd, op, rest)


def patterns_step(n, step, nm):
    """patterns(n) with creation times `step` seconds apart and ONE suffix for all entries of different seconds:
    M.<BS + j*step>.A.<nm> - with step 10000 the names differ only in bytes 2..7; entries of one second: nm, nm+1, ..."""
    for pat, es in patterns(n):
        times = sorted({e[0] for e in es if valid(e)})
        out, prev, run = [], None, 0
        for e in es:
            if not valid(e):
                out.append(e)
                continue
            t = BS + times.index(e[0]) * step
            run = run + 1 if t == prev else 0
            prev = t
            out.append((t, nm + run))
        yield pat, out


def cursors_step(es, step):
    """cursors(es) + for every entry the same suffix at a time 1, 2 steps before / after it (a name that differs from the
    entry's only in the leading time digits), when that is not an entry itself"""
    out = cursors(es)
    have = {e for e in es if valid(e)}
    seen = set()
    for e in es:
        if valid(e):
            for d in (-2, -1, 1, 2):
                cur = (e[0] + d * step, e[1])
                if cur not in have and cur not in seen and 0 <= cur[0] < 2 ** 31:
                    seen.add(cur)
                    out.append((cur[0], cur[1], "same-suffix-other-time"))
    return out


def ref_records(es, start, cnt, desc):
    """cmsys.GetRecords(start, cnt, desc) as a linear reader of the file: 'status (position t nm)...'"""
    n = len(es)
    if start < 1:
        return "3 4"
    idxs = [] if start > n else (list(range(start, 0, -1))[:cnt] if desc else list(range(start, n + 1))[:cnt])
    toks = ["0"]
    for i in idxs:
        e = es[i - 1]
        toks += [str(i)] + ([str(e[0]), str(e[1])] if valid(e) else ["-1", "0"])
    return " ".join(toks)


def main():
    c = vf.Check("C06")
    rng = c.rng
    thorough = c.tier == "thorough"
    c.prove()
    model_ok = c.model_ok()
    impl = vf.build_impl()
    model = vf.build_model("C06") if model_ok else None
    vf.ipc_cleanup()

    def both(lines, label, impl_too=True):
        io = vf.run_impl(impl, "C06", lines, deadline_ms=20000) if impl_too else None
        mo = None
        if model:
            mo = vf.run_model(model, lines)
            if impl_too:
                vf.correspond(c, label, lines, io, mo)
        return io, mo

    def crash_or_hang(lines, outs, what):
        for l, o in zip(lines, outs):
            st = o.split()[0]
            if st in ("1", "2"):
                c.violation("%s-%s" % (what, "crash" if st == "1" else "hang"),
                            "%s %s on a well-formed index file: case %s" % (what, "panics" if st == "1" else "does not return", l[:300]),
                            {"cases": [l], "got": o})

    NMAX = 9 if thorough else 7
    NWALK_BBS = 7 if thorough else 5
    files = []
    for n in range(0, NMAX + 1):
        for pat, es in patterns(n):
            files.append((pat, es))
    c.cov["exhaustive_parts"].append("every index file of n <= %d entries over {unparsable, same time, later time} (%d files), every cursor class, both directions" % (NMAX, len(files)))

    # ---------------------------------------------------------------- FindRecordStartIdx against the linear scan
    lines, meta = [], []
    for pat, es in files:
        for (T, name, cls) in cursors(es):
            for desc in (True, False):
                lines.append(find_line(es, len(es), T, name, desc))
                meta.append((es, T, name, desc, cls))
    io, mo = both(lines, "cmsys.FindRecordStartIdx")
    c.count(len(lines), "find")
    crash_or_hang(lines, io, "FindRecordStartIdx")
    # the Coq specification find_spec (extracted) and the scan written here must be the same function
    if model:
        sl = [spec_line(*m[:4]) for m in meta]
        so = vf.run_model(model, sl)
    for i, (l, o, (es, T, name, desc, cls)) in enumerate(zip(lines, io, meta)):
        want = ref_find(es, T, name, desc)
        exp = "0 %d" % want if want is not None else "3 1"
        if model and so[i].strip() != exp and not any(b["where"] == "find_spec vs reference scan" for b in c.broken):
            c.broken.append({"kind": "correspondence", "where": "find_spec vs reference scan", "theorem": "find_spec (Coq) = linear scan (check)",
                             "examples": [{"case": sl[i], "model": so[i], "ref": exp}], "log": ""})
        if o.split()[0] in ("1", "2"):
            continue
        c.nontrivial(("find", fmt_es(es), T, name, desc))
        if o.strip() != exp:
            first = [e[0] for e in es if valid(e)]
            if not desc and first and T < first[0]:
                key = "find-asc-cursor-below-first"
            else:
                key = "find-%s-%s" % ("desc" if desc else "asc", cls)
            c.violation(key, "FindRecordStartIdx(%s, T=%d%s, %s) = %s, linear scan says %s" % (
                fmt_es(es), T - B, "" if name is None else "/%d" % name, "desc" if desc else "asc", o, exp),
                {"cases": [l], "expected": exp, "got": o})
    c.sample({"op": "FindRecordStartIdx", "file": fmt_es(meta[len(meta) // 2][0]), "cursor": [meta[len(meta) // 2][1] - B, meta[len(meta) // 2][2]],
              "desc": meta[len(meta) // 2][3], "impl": io[len(meta) // 2], "scan": ref_find(*meta[len(meta) // 2][:4])})

    # total differing from the number of records (stale cached count): prefix semantics for total <= n; larger totals only correspond
    lines, meta = [], []
    for pat, es in files:
        n = len(es)
        if n > 5 or n == 0:
            continue
        for total in sorted({0, n - 1, n - 2, n + 1, n + 3, -1}):
            if total == n:
                continue
            cs = cursors(es)
            for (T, name, cls) in (cs if n <= 4 else rng.sample(cs, 4)):
                for desc in (True, False):
                    lines.append(find_line(es, total, T, name, desc))
                    meta.append((es, total, T, name, desc))
    io, mo = both(lines, "cmsys.FindRecordStartIdx(total != records)")
    c.count(len(lines), "find-stale-total")
    for l, o, (es, total, T, name, desc) in zip(lines, io, meta):
        if 0 <= total <= len(es):
            want = ref_find(es[:total], T, name, desc)
            exp = "0 %d" % want if want is not None else "3 1"
            if o.strip() != exp:
                first = [e[0] for e in es[:total] if valid(e)]
                key = "find-asc-cursor-below-first" if (not desc and first and T < first[0]) else "find-prefix-total"
                c.violation(key, "FindRecordStartIdx(%s, total=%d, T=%d, %s) = %s, scan of the first %d entries says %s" % (
                    fmt_es(es), total, T - B, "desc" if desc else "asc", o, total, exp), {"cases": [l], "expected": exp, "got": o})
        elif o.split()[0] in ("1", "2"):
            c.violation("find-stale-total-crash", "FindRecordStartIdx with total=%d on %d records: status %s" % (total, len(es), o), {"cases": [l], "got": o})

    # ---------------------------------------------------------------- GetRecord
    lines, meta = [], []
    for pat, es in files:
        n = len(es)
        qs = [(e[0], e[1]) for e in es if valid(e)]
        times = sorted({e[0] for e in es if valid(e)})
        qs += [(t, ABSENT) for t in times] + [(t + 1, ABSENT) for t in times] + [((times[0] if times else B) - 3, ABSENT), ((times[-1] if times else B) + 3, 1)]
        for (T, nm) in qs:
            lines.append("2|%s|%d %d %d" % (entries_wire(es), n, T, nm))
            meta.append((es, T, nm))
    io, mo = both(lines, "cmsys.GetRecord")
    c.count(len(lines), "getrecord")
    crash_or_hang(lines, io, "GetRecord")
    for l, o, (es, T, nm) in zip(lines, io, meta):
        pos = [i + 1 for i, e in enumerate(es) if valid(e) and e == (T, nm)]
        exp = "0 %d" % pos[0] if pos else "3 1"
        c.nontrivial(("get", fmt_es(es), T, nm))
        if o.split()[0] not in ("1", "2") and o.strip() != exp:
            c.violation("getrecord", "GetRecord(%s, %d/%d) = %s, scan says %s" % (fmt_es(es), T - B, nm, o, exp), {"cases": [l], "expected": exp, "got": o})
    c.sample({"op": "GetRecord", "file": fmt_es(meta[-7][0]), "name": [meta[-7][1] - B, meta[-7][2]], "impl": io[-7]})

    # ---------------------------------------------------------------- GetRecords
    lines, meta = [], []
    for pat, es in files:
        n = len(es)
        if n > 5:
            continue
        for start in range(0, n + 2):
            for cnt in range(0, n + 2):
                for desc in (True, False):
                    lines.append("3|%s|%d %d %d" % (entries_wire(es), start, cnt, 1 if desc else 0))
                    meta.append((es, start, cnt, desc))
    io, mo = both(lines, "cmsys.GetRecords")
    c.count(len(lines), "getrecords")
    crash_or_hang(lines, io, "GetRecords")
    for l, o, (es, start, cnt, desc) in zip(lines, io, meta):
        n = len(es)
        if start < 1:
            exp = "3 4"
        else:
            idxs = list(range(start, 0, -1))[:cnt] if desc else list(range(start, n + 1))[:cnt]
            if start > n:
                idxs = []
            toks = ["0"]
            for i in idxs:
                e = es[i - 1]
                toks += [str(i)] + ([str(e[0]), str(e[1])] if valid(e) else ["-1", "0"])
            exp = " ".join(toks)
        if o.split()[0] not in ("1", "2") and o.strip() != exp:
            c.violation("getrecords", "GetRecords(%s, start=%d, n=%d, %s) = %s, expected %s" % (fmt_es(es), start, cnt, "desc" if desc else "asc", o, exp),
                        {"cases": [l], "expected": exp, "got": o})

    # ---------------------------------------------------------------- page walks
    def walk_expect(es, k, desc):
        n = len(es)
        order = list(range(n, 0, -1)) if desc else list(range(1, n + 1))
        pages = max(1, -(-n // k))
        return "0 0 %d%s" % (pages, "".join(" %d" % i for i in order))

    def boundary_invalid(es, k, desc):
        """is some next-cursor entry of the ideal walk unparsable?"""
        n = len(es)
        order = list(range(n, 0, -1)) if desc else list(range(1, n + 1))
        return any(not valid(es[order[j] - 1]) for j in range(k, n, k))

    def judge_walk(op, what, lines, outs, meta, note="", kp=""):
        for l, o, (es, k, desc) in zip(lines, outs, meta):
            st = o.split()[0]
            if st in ("1", "2"):
                zero = any(e == ("x", -2) for e in es)
                key = kp + "%s-%s%s" % (what, "crash" if st == "1" else "hang", "-zeroed-entry" if (zero and st == "1") else "")
                c.violation(key, "%s page walk%s (page size %d, %s) over %s %s" % (what, note, k, "desc" if desc else "asc", fmt_big(es), "panics" if st == "1" else "does not terminate"),
                            {"cases": [l], "got": o})
                continue
            exp = walk_expect(es, k, desc)
            c.nontrivial((what + note, fmt_es(es), k, desc))
            if o.strip() != exp:
                if boundary_invalid(es, k, desc):
                    key = "deleted-page-boundary"
                else:
                    key = kp + "%s-page-walk" % what
                c.violation(key, "%s page walk%s (page size %d, %s) over %s: [status end pages visited...] = %s, every entry once in order would be %s%s" % (
                    what, note, k, "desc" if desc else "asc", fmt_big(es), clip(o), clip(exp),
                    "  (end 90 = a listed summary is not the record stored at its position)" if o.split()[1:2] == ["90"] else ""), {"cases": [l], "expected": exp, "got": o})

    lines, meta = [], []
    for pat, es in files:
        n = len(es)
        for k in range(1, n + 2):
            for desc in (True, False):
                lines.append("4|%s|%d %d" % (entries_wire(es), k, 1 if desc else 0))
                meta.append((es, k, desc))
    io, mo = both(lines, "page walk (cmsys.GetRecords + FindRecordStartIdx)")
    c.count(len(lines), "walk-cmsys")
    judge_walk(4, "cmsys", lines, io, meta)
    c.sample({"op": "page walk", "file": fmt_es(meta[-9][0]), "page_size": meta[-9][1], "desc": meta[-9][2], "impl": io[-9]})
    c.cov["exhaustive_parts"].append("page walks for every page size <= n+1, both directions, over all those files")

    lines, meta = [], []
    for pat, es in files:
        n = len(es)
        if n > NWALK_BBS:
            continue
        for k in range(1, n + 2):
            for desc in (True, False):
                lines.append("5|%s|%d %d" % (entries_wire(es), k, 1 if desc else 0))
                meta.append((es, k, desc))
    io, mo = both(lines, "page walk (bbs.LoadGeneralArticles)")
    c.count(len(lines), "walk-bbs")
    judge_walk(5, "bbs", lines, io, meta)
    c.sample({"op": "bbs.LoadGeneralArticles walk", "file": fmt_es(meta[-5][0]), "page_size": meta[-5][1], "desc": meta[-5][2], "impl": io[-5]})

    # ---------------------------------------------------------------- bbs.LoadGeneralArticles with client-supplied cursors
    # every cursor class (none, present, absent name at each time, each gap, below first, above last), both directions,
    # page sizes 1..n+1: the page that comes back (count, first position, next cursor) against the linear scan
    NCUR_BBS = 7 if thorough else 6
    lines, meta = [], []
    for pat, es in files:
        n = len(es)
        if n > NCUR_BBS:
            continue
        curs = [(None, "none")] + [((T, nm), cls) for (T, nm, cls) in cursors(es) if nm is not None]
        times = sorted({e[0] for e in es if valid(e)})
        curs += [(((times[0] if times else B) - 1, ABSENT), "below-first"), (((times[-1] if times else B) + 1, ABSENT), "above-last")]
        ks = range(1, n + 2) if n <= 4 else (1, 2, n, n + 1)
        for cur, cls in curs:
            for k in ks:
                for desc in (True, False):
                    lines.append("7|%s|%s %d %d" % (entries_wire(es), "0 0 0" if cur is None else "1 %d %d" % cur, k, 1 if desc else 0))
                    meta.append((es, cur, k, desc, cls))
    io, mo = both(lines, "bbs.LoadGeneralArticles(client cursor)")
    c.count(len(lines), "bbs-cursor")
    crash_or_hang(lines, io, "bbs.LoadGeneralArticles")
    # the Coq specification bbs_page_spec (extracted; what C06_bbs_page_eq_scan is stated against) and the reference here must agree
    if model:
        sl = ["9|" + l.split("|", 1)[1] for l in lines]
        so = vf.run_model(model, sl)
        for i, (es, cur, k, desc, cls) in enumerate(meta):
            exp = ref_bbs_page(es, cur, k, desc)
            if so[i].strip() != exp:
                c.broken.append({"kind": "correspondence", "where": "bbs_page_spec vs reference page", "theorem": "bbs_page_spec (Coq) = linear-scan page (check)",
                                 "examples": [{"case": sl[i], "model": so[i], "ref": exp}], "log": ""})
                break
    for l, o, (es, cur, k, desc, cls) in zip(lines, io, meta):
        if o.split()[0] in ("1", "2"):
            continue
        exp = ref_bbs_page(es, cur, k, desc)
        cls = cursor_class(es, cur, desc)
        c.nontrivial(("bbscur", fmt_es(es), cur, k, desc))
        if o.strip() != exp:
            first = [e[0] for e in es if valid(e)]
            if cur is not None and not desc and first and cur[0] < first[0]:
                key = "find-asc-cursor-below-first"
            elif exp.startswith("0") and exp.split()[3] == "-2" and o.split()[:3] == exp.split()[:3]:
                key = "deleted-page-boundary"
            else:
                key = "bbs-cursor-%s-%s" % ("desc" if desc else "asc", cls)
            c.violation(key, "bbs.LoadGeneralArticles(%s, cursor %s [%s], page size %d, %s) = %s; the linear scan gives %s  "
                             "([status count first-position next-cursor]; 3 1 = not found: nothing to list in that direction)" % (
                fmt_es(es), "none" if cur is None else "%d/%d" % (cur[0] - B, cur[1]), cls, k, "desc" if desc else "asc", o.strip(), exp),
                {"cases": [l], "expected": exp, "got": o})
    c.sample({"op": "bbs.LoadGeneralArticles(cursor)", "file": fmt_es(meta[-3][0]), "cursor": [meta[-3][1][0] - B, meta[-3][1][1]], "class": meta[-3][4],
              "page_size": meta[-3][2], "desc": meta[-3][3], "impl": io[-3], "scan": ref_bbs_page(*meta[-3][:4])})
    c.cov["exhaustive_parts"].append("bbs.LoadGeneralArticles with every client-supplied cursor class over all files of n <= %d entries" % NCUR_BBS)

    # ---------------------------------------------------------------- walks during which entries are deleted between pages
    def ideal_cursors(es, k, desc):
        """positions (1-based) the next-cursor points at before page 1, 2, ... of the walk over the unchanged file"""
        n = len(es)
        order = list(range(n, 0, -1)) if desc else list(range(1, n + 1))
        return [order[j] for j in range(k, n, k)]

    def judge_stale_walk(lines, outs, meta):
        """Direct predicates on what bbs.LoadGeneralArticles itself returned along the walk:
        (1) it ends; (2) every page is the page the linear scan gives for the cursor the server handed out before and the
        file as it is at that request - and the walk ends exactly when that scan has nothing (more) to list;
        (3) no position is listed twice (except inside the run of entries sharing their creation time with a deleted entry:
        there the scan by creation time cannot tell them apart) and every entry still parsable at the end was listed."""
        for l, o, (es0, k, desc, dels) in zip(lines, outs, meta):
            st = o.split()[0]
            dtxt = ", ".join("entry %d deleted before page %d" % (pos + 1, pg + 1) for pg, pos in dels)
            what = "bbs.LoadGeneralArticles walk (page size %d, %s) over %s, %s" % (k, "desc" if desc else "asc", fmt_es(es0), dtxt or "no deletion")
            if st in ("1", "2"):
                c.violation("bbs-stale-walk-%s" % ("crash" if st == "1" else "does-not-terminate"),
                            "%s %s" % (what, "panics" if st == "1" else "does not end within 2n+6 pages (the listing restarts / cycles)"),
                            {"cases": [l], "got": o})
                continue
            if st != "0":
                c.violation("bbs-stale-walk-status", "%s: status %s" % (what, o), {"cases": [l], "got": o})
                continue
            code, pages, vis, tr = parse_walk(o)
            c.nontrivial(("stale", fmt_es(es0), k, desc, tuple(dels)))
            es = list(es0)
            cur = None
            bad = None
            for pg in range(pages + 1):
                for (dp, pos) in dels:
                    if dp == pg and 0 <= pos < len(es):
                        es[pos] = ("x", -1)
                if pg > 0:
                    nT, nNm = tr[pg - 1][2], tr[pg - 1][3]
                    if nT == -1:
                        exp_end = 0
                    elif nT == -2:
                        exp_end = 5
                    else:
                        exp_end = None
                        cur = (nT, nNm)
                    if exp_end is not None:
                        if pg != pages or code != exp_end:
                            bad = (pg, "after the last cursor (%d) the walk must end with code %d; it ended with code %d after %d pages" % (nT, exp_end, code, pages), None)
                        break
                exp = ref_bbs_page(es, cur, k, desc)
                if pg == pages:
                    got = "3 %d" % code
                else:
                    got = "0 " + " ".join(str(x) for x in tr[pg])
                if got != exp:
                    bad = (pg, "page %d (cursor %s, %s): got %s, the linear scan over the file at that moment gives %s" % (
                        pg + 1, "none" if cur is None else "%d/%d" % (cur[0] - B, cur[1]), cursor_class(es, cur, desc), got, exp), cursor_class(es, cur, desc))
                    break
            if bad is not None:
                first = [e[0] for e in es if valid(e)]
                if cur is not None and not desc and first and cur[0] < first[0] and bad[2] is not None:
                    key = "find-asc-cursor-below-first"
                else:
                    key = "bbs-stale-cursor-%s-%s" % ("desc" if desc else "asc", bad[2] or "end")
                c.violation(key, "%s: %s" % (what, bad[1]), {"cases": [l], "expected": "page %d: %s" % (bad[0] + 1, bad[1]), "got": o})
                for pg in range(bad[0] + 1, pages + 1):   # the file as it is at the end, for predicate (3)
                    for (dp, pos) in dels:
                        if dp == pg and 0 <= pos < len(es):
                            es[pos] = ("x", -1)
            # (3) on the visited positions
            dtimes = {es0[pos][0] for (_, pos) in dels if 0 <= pos < len(es0) and valid(es0[pos])}
            # positions inside the run of entries that carry the creation time of a deleted entry (unparsable ones in between included)
            amb = set()
            for t_ in dtimes:
                run = [i + 1 for i, e in enumerate(es0) if valid(e) and e[0] == t_]
                amb.update(range(run[0], run[-1] + 1))
            seen = set()
            rep = [p_ for p_ in vis if (p_ in seen or seen.add(p_)) and p_ not in amb]
            if rep:
                c.violation("bbs-stale-walk-revisit", "%s: positions %s are listed more than once (visited: %s)" % (what, sorted(set(rep)), vis),
                            {"cases": [l], "expected": "every position at most once", "got": o})
            elif code == 5:
                if not (tr and tr[-1][2] == -2):
                    c.violation("bbs-stale-walk-end", "%s: ended with the strconv error without an unparsable cursor" % what, {"cases": [l], "got": o})
                # the known finding 'deleted-page-boundary' (reported by the static walks above): the listing stops on an unparsable boundary entry
            else:
                missing = [i + 1 for i, e in enumerate(es) if valid(e) and (i + 1) not in seen]
                if missing:
                    c.violation("bbs-stale-walk-skipped", "%s: entries at positions %s are still there and were never listed (visited: %s, end code %d)" % (what, missing, vis, code),
                                {"cases": [l], "expected": "every remaining entry listed", "got": o})

    def stale_line(es, k, desc, dels):
        return "8|%s|%d %d|%s" % (entries_wire(es), k, 1 if desc else 0, " ".join("%d %d" % d for d in dels))

    NDEL_ALL = 6 if thorough else 5     # every single deletion (any parsable entry, before any later page)
    NDEL_BND = 7 if thorough else 6     # the entry the cursor points at (+ its neighbours in the listing direction)
    lines, meta = [], []
    for pat, es in files:
        n = len(es)
        if n == 0 or n > NDEL_BND:
            continue
        vpos = [i for i, e in enumerate(es) if valid(e)]
        for k in range(1, n + 1):
            for desc in (True, False):
                bnd = ideal_cursors(es, k, desc)
                scheds = set()
                for pg, b in enumerate(bnd, start=1):
                    if not valid(es[b - 1]):
                        continue   # the static walk already ends there (deleted-page-boundary)
                    if n <= NDEL_ALL:
                        for pos in vpos:
                            scheds.add(((pg, pos),))
                    # the boundary entry, alone and together with 1.. of the parsable entries after it in the listing direction
                    after = [p_ for p_ in (reversed(vpos) if desc else vpos) if (p_ < b - 1 if desc else p_ > b - 1)]
                    for m in range(0, len(after) + 1):
                        if m in (0, 1, len(after)):
                            scheds.add(tuple([(pg, b - 1)] + [(pg, p_) for p_ in after[:m]]))
                for d in sorted(scheds):
                    lines.append(stale_line(es, k, desc, d))
                    meta.append((es, k, desc, d))
    io, mo = both(lines, "bbs.LoadGeneralArticles walk with deletions between pages")
    c.count(len(lines), "walk-bbs-deletions")
    judge_stale_walk(lines, io, meta)
    c.sample({"op": "bbs.LoadGeneralArticles walk, entry deleted between pages", "file": fmt_es(meta[-1][0]), "page_size": meta[-1][1], "desc": meta[-1][2],
              "deleted (page, position)": [list(d) for d in meta[-1][3]], "impl": io[-1]})
    c.cov["exhaustive_parts"].append("bbs walks with the cursor's entry (and its neighbours in the listing direction) deleted before any page, files of n <= %d; every single deletion for n <= %d" % (NDEL_BND, NDEL_ALL))


    # ---------------------------------------------------------------- the environment of a lookup
    # (a) the PATH LAYOUT of the index: a regular file, a symbolic link to a file next to it / in another directory, a
    #     chain of links, a second hard link - with the board's article count obtained by the project's own first access
    #     (count reset to 0, cache.GetBTotalWithRetry -> SetBTotal) instead of being set by the harness;
    # (b) OTHER OPERATIONS OF THE SAME PROCESS inside the same index while the lookup runs: an AppendRecord parked after
    #     taking the index lock, a DeleteRecord parked after registering the lock, another FindRecordStartIdx parked after
    #     opening the file (schedule points, nothing written yet), and the same lookup in four free-running goroutines.
    # The entries are unchanged in every case, so every answer must be the linear scan's - the same references as above.
    LAYOUTS = {0: "regular file", 1: "symbolic link (relative)", 2: "symbolic link into another directory", 3: "chain of two symbolic links", 4: "second hard link"}
    MODES = {1: "an AppendRecord of the same process holds the index lock (nothing written yet)",
             2: "a DeleteRecord of the same process has registered the index lock (nothing written yet)",
             3: "another FindRecordStartIdx of the same process has the index open",
             4: "the same lookup runs in four goroutines of the process at once"}
    NENV = 5 if thorough else 4
    efiles = [(pat, es) for pat, es in files if len(es) <= NENV]
    big_env = [bigs_e for bigs_e in ([(B + (i // 3) * 7, i) for i in range(130)],)]

    def env_cases(es, full):
        """(op line without wrapper, kind, expected result, text) for one file"""
        n = len(es)
        out = []
        curs = [None] + [(T, nm) for (T, nm, cls) in cursors(es) if nm is not None]
        if not full:
            curs = curs[:2] + curs[-3:]
        for cur in curs:
            for k in ((1, n + 1) if full else (n + 1,)):
                for desc in (True, False):
                    out.append(("7|%s|%s %d %d" % (entries_wire(es), "0 0 0" if cur is None else "1 %d %d" % cur, k, 1 if desc else 0), "bbs-cursor",
                                ref_bbs_page(es, cur, k, desc),
                                "bbs.LoadGeneralArticles(%s, cursor %s, page size %d, %s)" % (fmt_big(es), "none" if cur is None else "%d/%d" % (cur[0] - B, cur[1]), k, "desc" if desc else "asc")))
        for (T, name, cls) in (cursors(es) if full else cursors(es)[:2] + cursors(es)[-2:]):
            for desc in (True, False):
                want = ref_find(es, T, name, desc)
                out.append((find_line(es, n, T, name, desc), "find", "0 %d" % want if want is not None else "3 1",
                            "FindRecordStartIdx(%s, T=%d%s, %s)" % (fmt_big(es), T - B, "" if name is None else "/%d" % name, "desc" if desc else "asc")))
        times = sorted({e[0] for e in es if valid(e)})
        qs = [(e[0], e[1]) for e in es if valid(e)] + [(t, ABSENT) for t in times[:1]]
        for (T, nm) in (qs if full else qs[:1] + qs[-2:]):
            pos = [i + 1 for i, e in enumerate(es) if valid(e) and e == (T, nm)]
            out.append(("2|%s|%d %d %d" % (entries_wire(es), n, T, nm), "getrecord", "0 %d" % pos[0] if pos else "3 1",
                        "GetRecord(%s, %d/%d)" % (fmt_big(es), T - B, nm)))
        return out

    def env_walks(es, full):
        n = len(es)
        return [(op, what, k, desc) for op, what in ((4, "cmsys"), (5, "bbs")) for k in (range(1, n + 2) if full else (1, 20, n + 1)) for desc in (True, False)]

    for wrap, table, kname in ((30, LAYOUTS, "index-path"), (31, MODES, "overlap")):
        lines, meta = [], []
        wl, wm = {}, {}
        for v in sorted(table):
            if wrap == 30 and v == 0 and False:
                continue
            for pat, es in efiles + [("big", b) for b in big_env]:
                full = len(es) <= NENV
                if wrap == 31 and full and (len(es) > NENV - 1 or (len(es) > 2 and v == 4)):
                    continue     # the parked modes on the files of n <= 3 entries, the free-running mode on n <= 2
                if wrap == 30 and full and len(es) > NENV - 1 and v != 1:
                    continue     # every layout on n <= 3, the relative symbolic link on all files
                for (l, kind, exp, txt) in env_cases(es, full):
                    lines.append("%d %d %s" % (wrap, v, l))
                    meta.append((v, kind, exp, txt))
                for (op, what, k, desc) in env_walks(es, full):
                    wl.setdefault((v, op), []).append("%d %d %d|%s|%d %d" % (wrap, v, op, entries_wire(es), k, 1 if desc else 0))
                    wm.setdefault((v, op), []).append((es, k, desc))
        io, mo = both(lines, "lookups: %s" % kname)
        c.count(len(lines), kname)
        for l, o, (v, kind, exp, txt) in zip(lines, io, meta):
            st = o.split()[0]
            where = ("the index is a %s, article count by first access" if wrap == 30 else "while %s") % table[v]
            c.nontrivial((kname, v, l))
            if st in ("1", "2"):
                c.violation("%s-%d-%s-%s" % (kname, v, kind, "crash" if st == "1" else "does-not-return"),
                            "%s, %s: %s" % (txt, where, "panics" if st == "1" else "does not return while the other operation is inside the index"), {"cases": [l], "got": o})
            elif o.strip() != exp:
                if kind == "bbs-cursor" and exp.startswith("0") and exp.split()[3] == "-2" and o.split()[:3] == exp.split()[:3]:
                    key = "deleted-page-boundary"
                else:
                    key = "%s-%d-%s" % (kname, v, kind)
                c.violation(key, "%s, %s = %s; the linear scan of the (unchanged) entries gives %s  (3 8 / an empty page: the board counts 0 articles; 3 10: refused by the per-process lock table)" % (
                    txt, where, o.strip(), exp), {"cases": [l], "expected": exp, "got": o})
        for (v, op) in sorted(wl):
            io, mo = both(wl[(v, op)], "page walks: %s %d" % (kname, v))
            c.count(len(wl[(v, op)]), kname + "-walk")
            judge_walk(op, "cmsys" if op == 4 else "bbs", wl[(v, op)], io, wm[(v, op)],
                       (", the index a %s" if wrap == 30 else " while %s") % table[v], kp="%s-%d-" % (kname, v))
        c.sample({"op": kname, "case": lines[-1][:160], "impl": io[-1][:80]})
    c.cov["exhaustive_parts"].append("every file of n <= %d entries (n <= %d under the relative symbolic link) reached through each path layout %s with the article count taken by first access, and "
                                     "(n <= %d: the parked modes, n <= 2: free-running goroutines) with another operation of the same process inside the index %s: "
                                     "bbs.LoadGeneralArticles with every cursor class, FindRecordStartIdx, GetRecord, both page walks" % (
                                         NENV - 1, NENV, sorted(LAYOUTS.values()), NENV - 1, sorted(MODES)))

    # ---------------------------------------------------------------- random large files
    nfiles = 60 if thorough else 10
    lines, meta = [], []
    wl, wm = [], []
    sl_, sm_ = [], []
    for fi in range(nfiles):
        n = rng.choice([rng.randrange(8, 40), rng.randrange(40, 300), rng.randrange(300, 2001)])
        pinv = rng.choice([0.0, 0.05, 0.3, 0.8])
        peq = rng.choice([0.0, 0.2, 0.7])
        es, t = [], B + rng.randrange(1000)
        for i in range(n):
            if rng.random() < pinv:
                es.append(("x", rng.choice(KINDS[:2])))
            else:
                if rng.random() >= peq:
                    t += rng.randrange(1, 4)
                es.append((t, rng.randrange(0, 4000)))
        # file names are unique in a board: drop accidental duplicates
        seen = set()
        for i, e in enumerate(es):
            if valid(e):
                while e in seen:
                    e = (e[0], (e[1] + 1) % 4000)
                seen.add(e)
                es[i] = e
        vs = [e for e in es if valid(e)]
        cs = []
        for _ in range(14 if not thorough else 40):
            if vs and rng.random() < 0.5:
                e = rng.choice(vs); cs.append((e[0], e[1]))
            elif vs:
                e = rng.choice(vs); cs.append((e[0] + rng.choice([0, 1, -1]), rng.choice([ABSENT, None])))
        lo = vs[0][0] if vs else B
        hi = vs[-1][0] if vs else B
        cs += [(lo - 2, ABSENT), (hi + 2, ABSENT), (lo, None), (hi, None)]
        for (T, name) in cs:
            for desc in (True, False):
                lines.append(find_line(es, n, T, name, desc)); meta.append((es, T, name, desc))
        for k in sorted({1 if n < 300 else 17, 20, n // 2 + 1, n, n + 1}):
            for desc in (True, False):
                wl.append("4|%s|%d %d" % (entries_wire(es), k, 1 if desc else 0)); wm.append((es, k, desc))
        # walks through bbs.LoadGeneralArticles during which the cursor's entry is deleted (alone, with its next
        # neighbour, with everything after it in the listing direction - the cursor is then out of range)
        if n <= (600 if thorough else 300):
            vpos = [i for i, e in enumerate(es) if valid(e)]
            for k in sorted({1 if n < 40 else 7, 20}):
                for desc in (True, False):
                    bnd = []
                    for b in ideal_cursors(es, k, desc):
                        if not valid(es[b - 1]):
                            break
                        bnd.append(b)
                    if not bnd:
                        continue
                    picks = {len(bnd), rng.randrange(1, len(bnd) + 1)}
                    for pg in sorted(picks):
                        b = bnd[pg - 1]
                        after = [p_ for p_ in (reversed(vpos) if desc else vpos) if (p_ < b - 1 if desc else p_ > b - 1)]
                        for m in sorted({0, min(1, len(after)), len(after) if len(after) <= 25 else 2}):
                            d = tuple([(pg, b - 1)] + [(pg, p_) for p_ in after[:m]])
                            sl_.append(stale_line(es, k, desc, d)); sm_.append((es, k, desc, d))
    io, mo = both(sl_, "bbs.LoadGeneralArticles walk with deletions (random files)")
    c.count(len(sl_), "walk-bbs-deletions-random")
    judge_stale_walk(sl_, io, sm_)
    io, mo = both(lines, "cmsys.FindRecordStartIdx(random files)")
    c.count(len(lines), "find-random")
    crash_or_hang(lines, io, "FindRecordStartIdx")
    for l, o, (es, T, name, desc) in zip(lines, io, meta):
        want = ref_find(es, T, name, desc)
        exp = "0 %d" % want if want is not None else "3 1"
        c.nontrivial(("findr", len(es), T, name, desc))
        if o.split()[0] not in ("1", "2") and o.strip() != exp:
            first = [e[0] for e in es if valid(e)]
            key = "find-asc-cursor-below-first" if (not desc and first and T < first[0]) else "find-random"
            c.violation(key, "FindRecordStartIdx on a %d-entry file, T=%d%s, %s: %s, linear scan says %s" % (
                len(es), T - B, "" if name is None else "/%d" % name, "desc" if desc else "asc", o, exp), {"cases": [l], "expected": exp, "got": o})
    io, mo = both(wl, "page walk (random files)")
    c.count(len(wl), "walk-random")
    for l, o, (es, k, desc) in zip(wl, io, wm):
        st = o.split()[0]
        exp = walk_expect(es, k, desc)
        if st in ("1", "2"):
            c.violation("cmsys-walk-" + ("crash" if st == "1" else "hang"), "page walk over a %d-entry file, page size %d: status %s" % (len(es), k, st), {"cases": [l], "got": o})
        elif o.strip() != exp:
            key = "deleted-page-boundary" if boundary_invalid(es, k, desc) else "cmsys-page-walk"
            c.violation(key, "page walk over a %d-entry file, page size %d, %s: ended %s after visiting %d entries" % (
                len(es), k, "desc" if desc else "asc", " ".join(o.split()[:3]), len(o.split()) - 3), {"cases": [l], "expected": exp[:200], "got": o[:200]})
    # ---------------------------------------------------------------- the name comparison itself, under every delete-prefix length
    def sdname(sd):
        return 'FN_SAFEDEL="%s"' % SAFEDEL[:sd]

    etimes = [BS, BS + 1, BS + 10000, BS + 10 ** 5, BS + 10 ** 7, BS + 10 ** 8, BS - 10 ** 9]
    enames = [(t, nm) for t in etimes for nm in (7, 8, ABSENT)]
    lines, meta = [], []
    for sd in range(2, 9):
        for a in enames:
            for b in enames:
                lines.append("20 %d 21|%d %d %d %d %d" % (sd, sd, a[0], a[1], b[0], b[1]))
                meta.append((sd, a, b))
    io, mo = both(lines, "ptttype.Filename_t.Eq (every FN_SAFEDEL prefix length)")
    c.count(len(lines), "name-eq")
    for l, o, (sd, a, b) in zip(lines, io, meta):
        exp = "0 %d" % (1 if a == b else 0)
        c.nontrivial(("eq", sd, a, b))
        if o.strip() != exp:
            c.violation("name-eq-config", "Filename_t.Eq(M.%010d.A.%03X, M.%010d.A.%03X) under %s = %s; these are %s names (expected %s)" % (
                a[0], a[1], b[0], b[1], sdname(sd), o, "equal" if a == b else "two different", exp), {"cases": [l], "expected": exp, "got": o})

    # ---------------------------------------------------------------- lookups and walks under the site configurations FN_SAFEDEL=".d" / ".deleted"
    # the same enumerations as above (smaller n), over files whose names differ only in the leading digits of the time
    # (bytes 2..7 with 10000 seconds between entries) and share one suffix, each case once per configuration
    NCFG = 5 if thorough else 4
    if thorough:
        combos = [(sd, st) for sd in range(2, 9) for st in (10000, 10 ** 6, 10 ** 8)]
    else:
        combos = [(2, 10000), (8, 10000), (8, 10 ** 7), (rng.choice([3, 4, 5, 6, 7]), 10 ** 8)]
    ncfgfiles = 0
    for sd, step in combos:
        sfiles = []
        for n in range(0, NCFG + 1):
            sfiles.extend(patterns_step(n, step, 7))
        if sd == 8 and step == 10000:
            sfiles.extend((pat, es) for pat, es in files if len(es) <= 3)   # and the files of the enumerations above
        ncfgfiles += len(sfiles)
        note = " under %s" % sdname(sd)
        # FindRecordStartIdx
        lines, meta = [], []
        for pat, es in sfiles:
            for (T, name, cls) in cursors_step(es, step):
                for desc in (True, False):
                    lines.append(cfg(sd, find_line(es, len(es), T, name, desc)))
                    meta.append((es, T, name, desc, cls))
        io, mo = both(lines, "cmsys.FindRecordStartIdx" + note)
        c.count(len(lines), "find-config")
        crash_or_hang(lines, io, "FindRecordStartIdx")
        for l, o, (es, T, name, desc, cls) in zip(lines, io, meta):
            if o.split()[0] in ("1", "2"):
                continue
            want = ref_find(es, T, name, desc)
            exp = "0 %d" % want if want is not None else "3 1"
            c.nontrivial(("find", sd, fmt_es(es), T, name, desc))
            if o.strip() != exp:
                first = [e[0] for e in es if valid(e)]
                key = "find-asc-cursor-below-first" if (not desc and first and T < first[0]) else "find-config-%s-%s" % ("desc" if desc else "asc", cls)
                c.violation(key, "FindRecordStartIdx(%s, T=%d%s, %s)%s = %s, linear scan says %s" % (
                    fmt_es(es), T - B, "" if name is None else "/%d" % name, "desc" if desc else "asc", note, o, exp), {"cases": [l], "expected": exp, "got": o})
        # GetRecord: found at its position iff an entry carries exactly that name
        lines, meta = [], []
        for pat, es in sfiles:
            for (T, nm, cls) in cursors_step(es, step):
                if nm is not None:
                    lines.append(cfg(sd, "2|%s|%d %d %d" % (entries_wire(es), len(es), T, nm)))
                    meta.append((es, T, nm, cls))
        io, mo = both(lines, "cmsys.GetRecord" + note)
        c.count(len(lines), "getrecord-config")
        crash_or_hang(lines, io, "GetRecord")
        for l, o, (es, T, nm, cls) in zip(lines, io, meta):
            pos = [i + 1 for i, e in enumerate(es) if valid(e) and e == (T, nm)]
            exp = "0 %d" % pos[0] if pos else "3 1"
            c.nontrivial(("get", sd, fmt_es(es), T, nm))
            if o.split()[0] not in ("1", "2") and o.strip() != exp:
                c.violation("getrecord-config", "GetRecord(%s, M.%010d.A.%03X = %d/%d [%s])%s = %s, a linear scan for that name says %s  "
                            "(0 <position> -99 = found at <position>, but the header returned carries another name)" % (
                                fmt_es(es), T, nm, T - B, nm, cls, note, o, exp), {"cases": [l], "expected": exp, "got": o})
        # page walks (cmsys composition and bbs.LoadGeneralArticles) and single bbs pages with client-supplied cursors
        for op, what in ((4, "cmsys"), (5, "bbs")):
            lines, meta = [], []
            for pat, es in sfiles:
                for k in range(1, len(es) + 2):
                    for desc in (True, False):
                        lines.append(cfg(sd, "%d|%s|%d %d" % (op, entries_wire(es), k, 1 if desc else 0)))
                        meta.append((es, k, desc))
            io, mo = both(lines, "page walk (%s)%s" % (what, note))
            c.count(len(lines), "walk-%s-config" % what)
            judge_walk(op, what, lines, io, meta, note)
        lines, meta = [], []
        for pat, es in sfiles:
            n = len(es)
            curs = [(None, "none")] + [((T, nm), cls) for (T, nm, cls) in cursors_step(es, step) if nm is not None]
            for cur, cls in curs:
                for k in sorted({1, 2, n + 1}):
                    for desc in (True, False):
                        lines.append(cfg(sd, "7|%s|%s %d %d" % (entries_wire(es), "0 0 0" if cur is None else "1 %d %d" % cur, k, 1 if desc else 0)))
                        meta.append((es, cur, k, desc, cls))
        io, mo = both(lines, "bbs.LoadGeneralArticles(client cursor)" + note)
        c.count(len(lines), "bbs-cursor-config")
        crash_or_hang(lines, io, "bbs.LoadGeneralArticles")
        for l, o, (es, cur, k, desc, cls0) in zip(lines, io, meta):
            if o.split()[0] in ("1", "2"):
                continue
            exp = ref_bbs_page(es, cur, k, desc)
            cls = cursor_class(es, cur, desc)
            c.nontrivial(("bbscur", sd, fmt_es(es), cur, k, desc))
            if o.strip() != exp:
                first = [e[0] for e in es if valid(e)]
                if cur is not None and not desc and first and cur[0] < first[0]:
                    key = "find-asc-cursor-below-first"
                elif exp.startswith("0") and exp.split()[3] == "-2" and o.split()[:3] == exp.split()[:3]:
                    key = "deleted-page-boundary"
                else:
                    key = "bbs-cursor-config-%s-%s" % ("desc" if desc else "asc", cls)
                c.violation(key, "bbs.LoadGeneralArticles(%s, cursor %s [%s], page size %d, %s)%s = %s; the linear scan gives %s" % (
                    fmt_es(es), "none" if cur is None else "%d/%d" % (cur[0] - B, cur[1]), cls, k, "desc" if desc else "asc", note, o.strip(), exp),
                    {"cases": [l], "expected": exp, "got": o})
    c.sample({"op": "GetRecord under a site configuration", "case": lines[-1][:200], "impl": io[-1]})
    c.cov["exhaustive_parts"].append("Filename_t.Eq on %d name pairs under every FN_SAFEDEL prefix length 2..8; FindRecordStartIdx / GetRecord / both page walks / "
                                     "bbs.LoadGeneralArticles(cursor) over every file of n <= %d entries whose names differ only in the leading time digits, "
                                     "under (prefix length, seconds between entries) in %s" % (len(enames) ** 2, NCFG, combos))

    # ---------------------------------------------------------------- pages of 128 and more entries (several read blocks in one GetRecords call)
    # every summary is looked at only after the call has returned (the driver keeps what GetRecords / LoadGeneralArticles
    # handed out and compares it with the record stored at that position)
    bigs = []
    for n in ((129, 130, 256, 257, 300, 385, 513, 1000) if thorough else (130, 300, 385)):
        es = [(B + (i // 3) * 7, i) for i in range(n)]                     # a busy board: three articles per second
        bigs.append(es)
        es2 = list(es)
        for i in rng.sample(range(n), max(2, n // 40)):                     # the same with delete-marked entries anywhere
            es2[i] = ("x", rng.choice(KINDS[:2]))
        bigs.append(es2)
    nbig = len(bigs)
    bix = {id(es): i for i, es in enumerate(bigs)}
    lines, meta = [], []
    for es in bigs:
        n = len(es)
        for start in sorted({1, 2, 128, 129, n - 128, n - 1, n}):
            for cnt in sorted({127, 128, 129, 130, 200, 256, 257, 258, n, n + 1}):
                for desc in (True, False):
                    lines.append("3|%s|%d %d %d" % (entries_wire(es), start, cnt, 1 if desc else 0))
                    meta.append((es, start, cnt, desc))
    lines += [cfg(8, l) for l in lines[:40]]
    meta += meta[:40]
    io, mo = both(lines, "cmsys.GetRecords (128 and more records in one call)")
    c.count(len(lines), "getrecords-large")
    crash_or_hang(lines, io, "GetRecords")
    for l, o, (es, start, cnt, desc) in zip(lines, io, meta):
        exp = ref_records(es, start, cnt, desc)
        c.nontrivial(("getrecords-large", bix[id(es)], start, cnt, desc, l[:2]))
        if o.split()[0] not in ("1", "2") and o.strip() != exp:
            got, want = o.split()[1:], exp.split()[1:]
            bad = [j // 3 for j in range(0, min(len(got), len(want)), 3) if got[j:j + 3] != want[j:j + 3]]
            c.violation("getrecords-large", "GetRecords(%s, start=%d, n=%d, %s): %d summaries, %d expected; %s  (looked at after the call returned)" % (
                fmt_big(es), start, cnt, "desc" if desc else "asc", len(got) // 3, len(want) // 3,
                "the %d-th summary [position t nm] is %s, the record stored there is %s (%d summaries differ from their records)" % (
                    bad[0] + 1, got[3 * bad[0]:3 * bad[0] + 3], want[3 * bad[0]:3 * bad[0] + 3], len(bad)) if bad else "count differs"),
                {"cases": [l], "expected": exp, "got": o})
    for op, what in ((4, "cmsys"), (5, "bbs")):
        lines, meta = [], []
        for es in bigs:
            n = len(es)
            for k in sorted({127, 128, 129, 150, 255, 256, 257, n - 1, n, n + 1}):
                for desc in (True, False):
                    lines.append("%d|%s|%d %d" % (op, entries_wire(es), k, 1 if desc else 0))
                    meta.append((es, k, desc))
        lines += [cfg(8, l) for l in lines[:20]]
        meta += meta[:20]
        io, mo = both(lines, "page walk (%s, page sizes of 128 and more)" % what)
        c.count(len(lines), "walk-%s-large" % what)
        judge_walk(op, what, lines, io, meta, " with a large page")
    lines, meta = [], []
    for es in bigs:
        n = len(es)
        vs = [e for e in es if valid(e)]
        curs = [None, vs[0], vs[1], vs[len(vs) // 2], vs[-2], vs[-1], (vs[len(vs) // 2][0], ABSENT), (vs[0][0] - 1, ABSENT), (vs[-1][0] + 1, ABSENT)]
        for cur in curs:
            for k in (127, 128, 129, 200, n):
                for desc in (True, False):
                    lines.append("7|%s|%s %d %d" % (entries_wire(es), "0 0 0" if cur is None else "1 %d %d" % cur, k, 1 if desc else 0))
                    meta.append((es, cur, k, desc))
    io, mo = both(lines, "bbs.LoadGeneralArticles(client cursor, page sizes of 128 and more)")
    c.count(len(lines), "bbs-cursor-large")
    crash_or_hang(lines, io, "bbs.LoadGeneralArticles")
    for l, o, (es, cur, k, desc) in zip(lines, io, meta):
        if o.split()[0] in ("1", "2"):
            continue
        exp = ref_bbs_page(es, cur, k, desc)
        cls = cursor_class(es, cur, desc)
        c.nontrivial(("bbscur-large", bix[id(es)], cur, k, desc))
        if o.strip() != exp:
            if exp.startswith("0") and exp.split()[3] == "-2" and o.split()[:3] == exp.split()[:3]:
                key = "deleted-page-boundary"
            else:
                key = "bbs-cursor-large-%s-%s" % ("desc" if desc else "asc", cls)
            c.violation(key, "bbs.LoadGeneralArticles(%s, cursor %s [%s], page size %d, %s) = %s; the linear scan gives %s  "
                             "(3 90 = a listed summary is not the record stored at its position)" % (
                fmt_big(es), "none" if cur is None else "%d/%d" % (cur[0] - B, cur[1]), cls, k, "desc" if desc else "asc", o.strip(), exp),
                {"cases": [l], "expected": exp, "got": o})
    c.sample({"op": "bbs.LoadGeneralArticles, page of 128 and more", "file entries": len(meta[-1][0]), "page_size": meta[-1][2], "desc": meta[-1][3], "impl": io[-1]})
    c.cov["exhaustive_parts"].append("GetRecords counts / page sizes 127..258, n-1, n, n+1 over files of %s entries (with and without unparsable entries), "
                                     "both directions, starts at both ends and at the block borders" % sorted({len(es) for es in bigs}))
    c.cov["distribution"]["index files"] = len(files) + nfiles + nbig + ncfgfiles

    c.finish(rule="files: complete enumeration of {unparsable, equal time, later time}^n for n <= %d (three kinds of unparsable entry) + %d PRNG(seed) files of 8..2000 entries; "
                  "cursors: every present (time,name), an absent name and a name-less cursor at every time, every gap, below first, above last; both directions; "
                  "page sizes 1..n+1; bbs.LoadGeneralArticles called with every cursor class (client-supplied cursors) on all files of n <= %d entries, and walked on its own cursors "
                  "while the cursor's entry (alone / with its neighbours / with everything after it in the listing direction) or any single entry is deleted between pages; "
                  "site configurations: the lookups, both walks and the bbs cursor calls again under FN_SAFEDEL=\".d\" and \".deleted\" (and one more prefix length / all of 2..8 in the thorough tier) over every file of n <= %d entries "
                  "whose names differ only in the leading digits of the time (10^4 .. 10^8 seconds apart, one shared suffix), with cursors / looked-up names of the same shape, and Filename_t.Eq itself under every prefix length; "
                  "environment: every file of n <= 3 (thorough 4; n <= 4 / 5 under the relative symbolic link) entries and one of 130 under each of 5 path layouts of the index (count by first access) and with an append / delete / lookup of the same process parked inside the index or four goroutines running the lookup at once; "
                  "large pages: GetRecords counts and page sizes 127..258, n-1, n, n+1 over %d files of 130..385 (thorough: ..1000) entries, every summary compared with the stored record after the call returned; a case is non-trivial if it is a distinct (configuration, file, cursor, direction) / (configuration, file, page size, direction) that returned" % (NMAX, nfiles, NCUR_BBS, NCFG, nbig),
             assumptions=["cursor time and cursor file name are consistent (every caller in ptt/bbs derives both from one file name; DeserializeArticleIdxStr enforces it)",
                          "creation times in [0, 2^31): Time4 subtraction is modelled with wrap32",
                          "file names within one index are unique (Stampfile creates them with O_EXCL)",
                          "a deletion overwrites the index entry in place with a delete-marked one (cmsys.SubstituteRecord, as DeleteArticles does); the index is not compacted between pages",
                          "the index file is quiescent during a lookup; os file I/O, strconv.Atoi and encoding/binary are exercised, not verified",
                          "of the site configuration only FN_SAFEDEL is varied (set through its configuration key and ptttype.InitConfig()): prefix lengths 2 and 8 always, 3..7 sampled (thorough: all); every other key keeps its default",
                          "GetRecords is exercised up to 1000 records in one call (quick: 386); larger counts rest on C06_getrecords_eq_scan and the model correspondence only",
                          "path layout and overlap (validation, not theorem): the index reached through a regular file, symbolic links (relative, into another directory, a chain of two) and a second hard link with the board's count obtained by first access; another operation of the SAME process parked inside the index at the schedule points append.locked / flock.tabled / find.opened with nothing written yet, and four free-running goroutines; kernel path resolution and goroutine parallelism are not in the Coq model (C06_env_independent is about the model), symbolic-link directories and overlap at other points are not exercised",
                          "on first access the error cache.SetBTotal returns AFTER storing the count when the last entry has no parsable creation time is ignored by the harness",
                          "bbs-level cursor text round trip (Serialize/DeserializeArticleIdxStr via the article id of C13) is validated by the bbs walk correspondence, proved only in C13"])


if __name__ == "__main__":
    main()
