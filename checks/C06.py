#!/usr/bin/env python3
"""C06 — article lookup and paging over a board index equal a linear scan.
Proofs in coq/Props/C06.v; correspondence of the extracted model with cmsys/ptt/bbs on real .DIR files; the
deciding predicates compare the implementation's own answers with a linear scan written here."""
import itertools, os, sys
sys.path.insert(0, os.path.join(os.path.dirname(os.path.abspath(__file__)), "..", "lib"))
import vf

B = 1500000000          # base creation time (10 digits, below 2^31)
ABSENT = 4000           # a name suffix no generated entry carries
KINDS = (-1, -3, -2)    # delete-marked, garbage time digits, all-zero record


def entries_wire(es):
    """es: list of (t, nm) / ('x', kind). Wire: 't nm' pairs, t < 0 for unparsable entries."""
    out = []
    for i, e in enumerate(es):
        if e[0] == "x":
            out.append("%d %d" % (e[1], i + 1))
        else:
            out.append("%d %d" % e)
    return " ".join(out)


def valid(e):
    return e[0] != "x"


def ref_find(es, T, name, desc):
    """The linear scan of the property: the entry equal to the cursor if any, else the nearest in the listing direction."""
    n = len(es)
    order = range(n - 1, -1, -1) if desc else range(n)
    if name is not None:
        for i in order:
            if valid(es[i]) and es[i] == (T, name):
                return i + 1
    for i in order:
        if valid(es[i]) and (es[i][0] <= T if desc else es[i][0] >= T):
            return i + 1
    return None


def patterns(n):
    """Every index file of n entries over {invalid, same time as the previous valid entry, later time}."""
    for pat in itertools.product("IEG", repeat=n):
        seen_valid = False
        skip = False
        es = []
        t = B
        for i, c in enumerate(pat):
            if c == "I":
                es.append(("x", KINDS[(i + n) % 3]))
                continue
            if not seen_valid:
                if c == "E":
                    skip = True   # the first valid entry has nothing to be equal to: same file as with 'G'
                    break
                seen_valid = True
            elif c == "G":
                t += 2
            es.append((t, i + 1))
        if not skip:
            yield "".join(pat), es


def cursors(es):
    """(T, name or None, class) — each present pair, an absent name at each time (with and without a name),
    times in the gaps, below the first and above the last entry."""
    out = []
    times = sorted({e[0] for e in es if valid(e)})
    for e in es:
        if valid(e):
            out.append((e[0], e[1], "present"))
    for t in times:
        out.append((t, ABSENT, "absent-name"))
        out.append((t, None, "time-only"))
        out.append((t + 1, ABSENT, "gap"))
    lo = times[0] if times else B
    hi = times[-1] if times else B
    out.append((lo - 5, ABSENT, "below-first"))
    out.append((lo - 1, None, "below-first"))
    out.append((hi + 5, ABSENT, "above-last"))
    out.append((hi + 7, None, "above-last"))
    return out


def find_line(es, total, T, name, desc):
    return "1|%s|%d %d %d %d %d" % (entries_wire(es), total, T, 0 if name is None else 1, 0 if name is None else name, 1 if desc else 0)


def spec_line(es, T, name, desc):
    return "6|%s|%d %d %d %d" % (entries_wire(es), T, 0 if name is None else 1, 0 if name is None else name, 1 if desc else 0)


def fmt_es(es):
    return "[" + ", ".join("x" if not valid(e) else "%d/%d" % (e[0] - B, e[1]) for e in es) + "]"


def main():
    c = vf.Check("C06")
    rng = c.rng
    thorough = c.tier == "thorough"
    c.prove()
    model_ok = c.model_ok()
    impl = vf.build_impl()
    model = vf.build_model("C06") if model_ok else None
    vf.ipc_cleanup()

    def both(lines, label, impl_too=True):
        io = vf.run_impl(impl, "C06", lines, deadline_ms=20000) if impl_too else None
        mo = None
        if model:
            mo = vf.run_model(model, lines)
            if impl_too:
                vf.correspond(c, label, lines, io, mo)
        return io, mo

    def crash_or_hang(lines, outs, what):
        for l, o in zip(lines, outs):
            st = o.split()[0]
            if st in ("1", "2"):
                c.violation("%s-%s" % (what, "crash" if st == "1" else "hang"),
                            "%s %s on a well-formed index file: case %s" % (what, "panics" if st == "1" else "does not return", l[:300]),
                            {"cases": [l], "got": o})

    NMAX = 9 if thorough else 7
    NWALK_BBS = 7 if thorough else 5
    files = []
    for n in range(0, NMAX + 1):
        for pat, es in patterns(n):
            files.append((pat, es))
    c.cov["exhaustive_parts"].append("every index file of n <= %d entries over {unparsable, same time, later time} (%d files), every cursor class, both directions" % (NMAX, len(files)))

    # ---------------------------------------------------------------- FindRecordStartIdx against the linear scan
    lines, meta = [], []
    for pat, es in files:
        for (T, name, cls) in cursors(es):
            for desc in (True, False):
                lines.append(find_line(es, len(es), T, name, desc))
                meta.append((es, T, name, desc, cls))
    io, mo = both(lines, "cmsys.FindRecordStartIdx")
    c.count(len(lines), "find")
    crash_or_hang(lines, io, "FindRecordStartIdx")
    # the Coq specification find_spec (extracted) and the scan written here must be the same function
    if model:
        sl = [spec_line(*m[:4]) for m in meta]
        so = vf.run_model(model, sl)
    for i, (l, o, (es, T, name, desc, cls)) in enumerate(zip(lines, io, meta)):
        want = ref_find(es, T, name, desc)
        exp = "0 %d" % want if want is not None else "3 1"
        if model and so[i].strip() != exp and not any(b["where"] == "find_spec vs reference scan" for b in c.broken):
            c.broken.append({"kind": "correspondence", "where": "find_spec vs reference scan", "theorem": "find_spec (Coq) = linear scan (check)",
                             "examples": [{"case": sl[i], "model": so[i], "ref": exp}], "log": ""})
        if o.split()[0] in ("1", "2"):
            continue
        c.nontrivial(("find", fmt_es(es), T, name, desc))
        if o.strip() != exp:
            first = [e[0] for e in es if valid(e)]
            if not desc and first and T < first[0]:
                key = "find-asc-cursor-below-first"
            else:
                key = "find-%s-%s" % ("desc" if desc else "asc", cls)
            c.violation(key, "FindRecordStartIdx(%s, T=%d%s, %s) = %s, linear scan says %s" % (
                fmt_es(es), T - B, "" if name is None else "/%d" % name, "desc" if desc else "asc", o, exp),
                {"cases": [l], "expected": exp, "got": o})
    c.sample({"op": "FindRecordStartIdx", "file": fmt_es(meta[len(meta) // 2][0]), "cursor": [meta[len(meta) // 2][1] - B, meta[len(meta) // 2][2]],
              "desc": meta[len(meta) // 2][3], "impl": io[len(meta) // 2], "scan": ref_find(*meta[len(meta) // 2][:4])})

    # total differing from the number of records (stale cached count): prefix semantics for total <= n; larger totals only correspond
    lines, meta = [], []
    for pat, es in files:
        n = len(es)
        if n > 5 or n == 0:
            continue
        for total in sorted({0, n - 1, n - 2, n + 1, n + 3, -1}):
            if total == n:
                continue
            cs = cursors(es)
            for (T, name, cls) in (cs if n <= 4 else rng.sample(cs, 4)):
                for desc in (True, False):
                    lines.append(find_line(es, total, T, name, desc))
                    meta.append((es, total, T, name, desc))
    io, mo = both(lines, "cmsys.FindRecordStartIdx(total != records)")
    c.count(len(lines), "find-stale-total")
    for l, o, (es, total, T, name, desc) in zip(lines, io, meta):
        if 0 <= total <= len(es):
            want = ref_find(es[:total], T, name, desc)
            exp = "0 %d" % want if want is not None else "3 1"
            if o.strip() != exp:
                first = [e[0] for e in es[:total] if valid(e)]
                key = "find-asc-cursor-below-first" if (not desc and first and T < first[0]) else "find-prefix-total"
                c.violation(key, "FindRecordStartIdx(%s, total=%d, T=%d, %s) = %s, scan of the first %d entries says %s" % (
                    fmt_es(es), total, T - B, "desc" if desc else "asc", o, total, exp), {"cases": [l], "expected": exp, "got": o})
        elif o.split()[0] in ("1", "2"):
            c.violation("find-stale-total-crash", "FindRecordStartIdx with total=%d on %d records: status %s" % (total, len(es), o), {"cases": [l], "got": o})

    # ---------------------------------------------------------------- GetRecord
    lines, meta = [], []
    for pat, es in files:
        n = len(es)
        qs = [(e[0], e[1]) for e in es if valid(e)]
        times = sorted({e[0] for e in es if valid(e)})
        qs += [(t, ABSENT) for t in times] + [(t + 1, ABSENT) for t in times] + [((times[0] if times else B) - 3, ABSENT), ((times[-1] if times else B) + 3, 1)]
        for (T, nm) in qs:
            lines.append("2|%s|%d %d %d" % (entries_wire(es), n, T, nm))
            meta.append((es, T, nm))
    io, mo = both(lines, "cmsys.GetRecord")
    c.count(len(lines), "getrecord")
    crash_or_hang(lines, io, "GetRecord")
    for l, o, (es, T, nm) in zip(lines, io, meta):
        pos = [i + 1 for i, e in enumerate(es) if valid(e) and e == (T, nm)]
        exp = "0 %d" % pos[0] if pos else "3 1"
        c.nontrivial(("get", fmt_es(es), T, nm))
        if o.split()[0] not in ("1", "2") and o.strip() != exp:
            c.violation("getrecord", "GetRecord(%s, %d/%d) = %s, scan says %s" % (fmt_es(es), T - B, nm, o, exp), {"cases": [l], "expected": exp, "got": o})
    c.sample({"op": "GetRecord", "file": fmt_es(meta[-7][0]), "name": [meta[-7][1] - B, meta[-7][2]], "impl": io[-7]})

    # ---------------------------------------------------------------- GetRecords
    lines, meta = [], []
    for pat, es in files:
        n = len(es)
        if n > 5:
            continue
        for start in range(0, n + 2):
            for cnt in range(0, n + 2):
                for desc in (True, False):
                    lines.append("3|%s|%d %d %d" % (entries_wire(es), start, cnt, 1 if desc else 0))
                    meta.append((es, start, cnt, desc))
    io, mo = both(lines, "cmsys.GetRecords")
    c.count(len(lines), "getrecords")
    crash_or_hang(lines, io, "GetRecords")
    for l, o, (es, start, cnt, desc) in zip(lines, io, meta):
        n = len(es)
        if start < 1:
            exp = "3 4"
        else:
            idxs = list(range(start, 0, -1))[:cnt] if desc else list(range(start, n + 1))[:cnt]
            if start > n:
                idxs = []
            toks = ["0"]
            for i in idxs:
                e = es[i - 1]
                toks += [str(i)] + ([str(e[0]), str(e[1])] if valid(e) else ["-1", "0"])
            exp = " ".join(toks)
        if o.split()[0] not in ("1", "2") and o.strip() != exp:
            c.violation("getrecords", "GetRecords(%s, start=%d, n=%d, %s) = %s, expected %s" % (fmt_es(es), start, cnt, "desc" if desc else "asc", o, exp),
                        {"cases": [l], "expected": exp, "got": o})

    # ---------------------------------------------------------------- page walks
    def walk_expect(es, k, desc):
        n = len(es)
        order = list(range(n, 0, -1)) if desc else list(range(1, n + 1))
        pages = max(1, -(-n // k))
        return "0 0 %d%s" % (pages, "".join(" %d" % i for i in order))

    def boundary_invalid(es, k, desc):
        """is some next-cursor entry of the ideal walk unparsable?"""
        n = len(es)
        order = list(range(n, 0, -1)) if desc else list(range(1, n + 1))
        return any(not valid(es[order[j] - 1]) for j in range(k, n, k))

    def judge_walk(op, what, lines, outs, meta):
        for l, o, (es, k, desc) in zip(lines, outs, meta):
            st = o.split()[0]
            if st in ("1", "2"):
                zero = any(e == ("x", -2) for e in es)
                key = "%s-%s%s" % (what, "crash" if st == "1" else "hang", "-zeroed-entry" if (zero and st == "1") else "")
                c.violation(key, "%s page walk (page size %d, %s) over %s %s" % (what, k, "desc" if desc else "asc", fmt_es(es), "panics" if st == "1" else "does not terminate"),
                            {"cases": [l], "got": o})
                continue
            exp = walk_expect(es, k, desc)
            c.nontrivial((what, fmt_es(es), k, desc))
            if o.strip() != exp:
                if boundary_invalid(es, k, desc):
                    key = "deleted-page-boundary"
                else:
                    key = "%s-page-walk" % what
                c.violation(key, "%s page walk (page size %d, %s) over %s: [status end pages visited...] = %s, every entry once in order would be %s" % (
                    what, k, "desc" if desc else "asc", fmt_es(es), o, exp), {"cases": [l], "expected": exp, "got": o})

    lines, meta = [], []
    for pat, es in files:
        n = len(es)
        for k in range(1, n + 2):
            for desc in (True, False):
                lines.append("4|%s|%d %d" % (entries_wire(es), k, 1 if desc else 0))
                meta.append((es, k, desc))
    io, mo = both(lines, "page walk (cmsys.GetRecords + FindRecordStartIdx)")
    c.count(len(lines), "walk-cmsys")
    judge_walk(4, "cmsys", lines, io, meta)
    c.sample({"op": "page walk", "file": fmt_es(meta[-9][0]), "page_size": meta[-9][1], "desc": meta[-9][2], "impl": io[-9]})
    c.cov["exhaustive_parts"].append("page walks for every page size <= n+1, both directions, over all those files")

    lines, meta = [], []
    for pat, es in files:
        n = len(es)
        if n > NWALK_BBS:
            continue
        for k in range(1, n + 2):
            for desc in (True, False):
                lines.append("5|%s|%d %d" % (entries_wire(es), k, 1 if desc else 0))
                meta.append((es, k, desc))
    io, mo = both(lines, "page walk (bbs.LoadGeneralArticles)")
    c.count(len(lines), "walk-bbs")
    judge_walk(5, "bbs", lines, io, meta)
    c.sample({"op": "bbs.LoadGeneralArticles walk", "file": fmt_es(meta[-5][0]), "page_size": meta[-5][1], "desc": meta[-5][2], "impl": io[-5]})

    # ---------------------------------------------------------------- random large files
    nfiles = 60 if thorough else 10
    lines, meta = [], []
    wl, wm = [], []
    for fi in range(nfiles):
        n = rng.choice([rng.randrange(8, 40), rng.randrange(40, 300), rng.randrange(300, 2001)])
        pinv = rng.choice([0.0, 0.05, 0.3, 0.8])
        peq = rng.choice([0.0, 0.2, 0.7])
        es, t = [], B + rng.randrange(1000)
        for i in range(n):
            if rng.random() < pinv:
                es.append(("x", rng.choice(KINDS[:2])))
            else:
                if rng.random() >= peq:
                    t += rng.randrange(1, 4)
                es.append((t, rng.randrange(0, 4000)))
        # file names are unique in a board: drop accidental duplicates
        seen = set()
        for i, e in enumerate(es):
            if valid(e):
                while e in seen:
                    e = (e[0], (e[1] + 1) % 4000)
                seen.add(e)
                es[i] = e
        vs = [e for e in es if valid(e)]
        cs = []
        for _ in range(14 if not thorough else 40):
            if vs and rng.random() < 0.5:
                e = rng.choice(vs); cs.append((e[0], e[1]))
            elif vs:
                e = rng.choice(vs); cs.append((e[0] + rng.choice([0, 1, -1]), rng.choice([ABSENT, None])))
        lo = vs[0][0] if vs else B
        hi = vs[-1][0] if vs else B
        cs += [(lo - 2, ABSENT), (hi + 2, ABSENT), (lo, None), (hi, None)]
        for (T, name) in cs:
            for desc in (True, False):
                lines.append(find_line(es, n, T, name, desc)); meta.append((es, T, name, desc))
        for k in sorted({1 if n < 300 else 17, 20, n // 2 + 1, n, n + 1}):
            for desc in (True, False):
                wl.append("4|%s|%d %d" % (entries_wire(es), k, 1 if desc else 0)); wm.append((es, k, desc))
    io, mo = both(lines, "cmsys.FindRecordStartIdx(random files)")
    c.count(len(lines), "find-random")
    crash_or_hang(lines, io, "FindRecordStartIdx")
    for l, o, (es, T, name, desc) in zip(lines, io, meta):
        want = ref_find(es, T, name, desc)
        exp = "0 %d" % want if want is not None else "3 1"
        c.nontrivial(("findr", len(es), T, name, desc))
        if o.split()[0] not in ("1", "2") and o.strip() != exp:
            first = [e[0] for e in es if valid(e)]
            key = "find-asc-cursor-below-first" if (not desc and first and T < first[0]) else "find-random"
            c.violation(key, "FindRecordStartIdx on a %d-entry file, T=%d%s, %s: %s, linear scan says %s" % (
                len(es), T - B, "" if name is None else "/%d" % name, "desc" if desc else "asc", o, exp), {"cases": [l], "expected": exp, "got": o})
    io, mo = both(wl, "page walk (random files)")
    c.count(len(wl), "walk-random")
    for l, o, (es, k, desc) in zip(wl, io, wm):
        st = o.split()[0]
        exp = walk_expect(es, k, desc)
        if st in ("1", "2"):
            c.violation("cmsys-walk-" + ("crash" if st == "1" else "hang"), "page walk over a %d-entry file, page size %d: status %s" % (len(es), k, st), {"cases": [l], "got": o})
        elif o.strip() != exp:
            key = "deleted-page-boundary" if boundary_invalid(es, k, desc) else "cmsys-page-walk"
            c.violation(key, "page walk over a %d-entry file, page size %d, %s: ended %s after visiting %d entries" % (
                len(es), k, "desc" if desc else "asc", " ".join(o.split()[:3]), len(o.split()) - 3), {"cases": [l], "expected": exp[:200], "got": o[:200]})
    c.cov["distribution"]["index files"] = len(files) + nfiles

    c.finish(rule="files: complete enumeration of {unparsable, equal time, later time}^n for n <= %d (three kinds of unparsable entry) + %d PRNG(seed) files of 8..2000 entries; "
                  "cursors: every present (time,name), an absent name and a name-less cursor at every time, every gap, below first, above last; both directions; "
                  "page sizes 1..n+1; a case is non-trivial if it is a distinct (file, cursor, direction) / (file, page size, direction) that returned" % (NMAX, nfiles),
             assumptions=["cursor time and cursor file name are consistent (every caller in ptt/bbs derives both from one file name; DeserializeArticleIdxStr enforces it)",
                          "creation times in [0, 2^31): Time4 subtraction is modelled with wrap32",
                          "file names within one index are unique (Stampfile creates them with O_EXCL)",
                          "the index file is quiescent during a lookup; os file I/O, strconv.Atoi and encoding/binary are exercised, not verified",
                          "bbs-level cursor text round trip (Serialize/DeserializeArticleIdxStr via the article id of C13) is validated by the bbs walk correspondence, proved only in C13"])


if __name__ == "__main__":
    main()
