#!/usr/bin/env python3
"""C17 — Big5 <-> UTF-8: proofs in coq/Props/C17.v; exhaustive correspondence and direct predicates on
types.Big5ToUtf8 / types.Utf8ToBig5 (all 65 536 two-byte Big5 inputs, every row of both tables, all
one/two-byte and all three-byte lead/continuation patterns of UTF-8, generated malformed strings), plus the initialisation
paths: histories of start-up attempts (good, bad path of either table then retry, repeated) each in a fresh driver process and
followed by a reduced sweep, whole start-ups (op 12: TIME_LOCATION that loads or not; table paths that are symbolic links of every kind,
created for real by the driver) with the same predicate, and ptttype.InitConfig() sequences (BBSNAME_BIG5 must be the conversion of BBSNAME)."""
import os, resource, sys
from concurrent.futures import ThreadPoolExecutor
sys.path.insert(0, os.path.join(os.path.dirname(os.path.abspath(__file__)), "..", "lib"))
import vf

# ocamlopt needs a deep stack for the 680 000 list cells of the extracted tables (vf.build_model
# raises the limit for coqc only); children inherit this.
try:
    resource.setrlimit(resource.RLIMIT_STACK, (resource.RLIM_INFINITY, resource.RLIM_INFINITY))
except (ValueError, OSError):
    pass

DEADLINE_MS = 2000
CONFIRM_MS = 8000
REPL_BIG5 = [0xFF, 0xFD]           # what Utf8ToBig5 appends for a sequence it has no entry for
REPL_UTF8 = [0xEF, 0xBF, 0xBD]     # U+FFFD
FRESH = {"VERIF_C17_FRESH": "1"}   # driver env: leave the tables as a new process has them (ops 10 / 11 initialise them)
INIT_DEADLINE_MS = 30000


def read_table(name):
    """The check's own reader of a UAO table file: (big5, ucs) rows; the last row of a key wins, as in a Go map."""
    rows = []
    with open(os.path.join(vf.REPO, "types", name), "rb") as f:
        lines = f.read().split(b"\n")[1:]
    for l in lines:
        p = l.split(b" ")
        if len(p) != 2:
            continue
        try:
            a, b = p[0][2:].strip(), p[1][2:].strip()
            if len(a) > 4 or len(b) > 4:
                continue
            big5 = int.from_bytes(bytes.fromhex(a.decode()).ljust(2, b"\0"), "big")
            ucs = int.from_bytes(bytes.fromhex(b.decode()).ljust(2, b"\0"), "big")
        except ValueError:
            continue
        rows.append((big5, ucs))
    return rows


def enc(u):
    """reference UTF-8 encoder (RFC 3629 bit layout) for u < 0x10000; surrogates are encoded like any other value"""
    if u < 0x80:
        return [u]
    if u < 0x800:
        return [0xC0 | (u >> 6), 0x80 | (u & 0x3F)]
    return [0xE0 | (u >> 12), 0x80 | ((u >> 6) & 0x3F), 0x80 | (u & 0x3F)]


def toks(bs):
    return " ".join(str(b) for b in bs)


def out_bytes(line):
    t = line.split()
    return [int(x) for x in t[1:]]


def u2b_stall_class(s):
    """None when every lead byte of s has the bytes its pattern needs (the three arms of Utf8ToBig5 cover it);
    otherwise the class of the first position no arm covers."""
    i = 0
    while i < len(s):
        b = s[i]
        if b < 0x80:
            i += 1
        elif b & 0xE0 == 0xC0 and len(s) - i >= 2:
            i += 2
        elif b & 0xF0 == 0xE0 and len(s) - i >= 3:
            i += 3
        elif b & 0xC0 == 0x80:
            return "lone-continuation-byte"
        elif b & 0xE0 == 0xC0 or b & 0xF0 == 0xE0:
            return "truncated-sequence"
        else:
            return "four-byte-or-invalid-lead"
    return None


def main():
    c = vf.Check("C17")
    rng = c.rng
    thorough = c.tier == "thorough"
    c.prove()
    model_ok = c.model_ok()
    impl = vf.build_impl()
    model = vf.build_model("C17") if model_ok else None

    b2u_rows = read_table("uao250-b2u.big5.txt")
    u2b_rows = read_table("uao250-u2b.big5.txt")
    b2u = dict(b2u_rows)                               # big5 code -> ucs
    u2b = {u: b for (b, u) in u2b_rows if u >= 0x80}   # ucs -> big5 code (keys below 0x80 collapse to "\0" in Go and are never looked up)
    mutual = sorted(b for b, u in b2u.items() if u2b.get(u) == b and b >= 0x8000)
    c.cov["tables"] = {"b2u_rows": len(b2u_rows), "u2b_rows": len(u2b_rows), "mutual_pairs": len(mutual)}

    def both(lines, label):
        io = vf.run_impl(impl, "C17", lines, deadline_ms=DEADLINE_MS)
        # a status 2 must be a stall of the conversion, not of a loaded machine: confirm with a longer deadline
        # (the first three; if any of them returns after all, every reported stall is re-run that way)
        late = [i for i, r in enumerate(io) if r.split()[:1] == ["2"]]
        recheck = late[:3]
        while recheck:
            returned = False
            for i in recheck:
                r = vf.run_impl(impl, "C17", [lines[i]], deadline_ms=CONFIRM_MS)[0]
                if r.split()[:1] != ["2"]:
                    io[i] = r
                    returned = True
            recheck = [i for i in late[3:] if io[i].split()[:1] == ["2"]] if returned and recheck == late[:3] else []
        if model:
            mo = vf.run_model(model, lines)
            vf.correspond(c, label, lines, io, mo)
        return io

    def terminated(op, s, r, what):
        """direct predicate 'the conversion returns': status 0. Returns False (and records the violation) otherwise."""
        st = r.split()[0]
        if st == "0":
            return True
        if st == "7":
            return False        # not run: the driver had already stalled 40 times in this batch (those are reported)
        if op == 2 and st == "2":
            cls = u2b_stall_class(s) or "well-formed-input"
            c.violation("u2b-stall:" + cls, "Utf8ToBig5 does not return within %d ms on bytes [%s] (%s, %s)" % (DEADLINE_MS, " ".join("%02X" % b for b in s), cls, what),
                        {"cases": ["2|" + toks(s)], "got": r, "expected_status": "0"})
        else:
            c.violation("%s-%s" % ("b2u" if op == 1 else "u2b", {"1": "crash", "2": "stall"}.get(st, "status" + st)),
                        "%s on bytes [%s] ends with status %s (%s)" % ("Big5ToUtf8" if op == 1 else "Utf8ToBig5", " ".join("%02X" % b for b in s), st, what),
                        {"cases": ["%d|%s" % (op, toks(s))], "got": r, "expected_status": "0"})
        return False

    # ------------------------------------------------------------ probe: does Utf8ToBig5 return on malformed input at all?
    probe = [[0xF0, 0x9F, 0x98, 0x80], [0x80], [0xE4, 0xB8], [0xC3], [0xBF, 0x41], [0x41, 0xF8], [0xFF], [0x41, 0xE4, 0xB8, 0x80, 0xE4], [0xF4, 0x8F, 0xBF, 0xBF, 0x42]]
    lp = ["2|" + toks(s) for s in probe]
    op_ = both(lp, "Utf8ToBig5(probe: malformed input)")
    c.count(len(lp), "u2b probe (malformed)")
    stalls = False
    for s, r in zip(probe, op_):
        c.nontrivial(("u2b", tuple(s)))
        if not terminated(2, s, r, "probe"):
            stalls = True
    c.sample({"op": "Utf8ToBig5", "input": " ".join("%02X" % b for b in probe[0]), "result": op_[0], "note": "status 2 = no return before the deadline"})
    # When the probe already stalls, inputs of the same shape would cost DEADLINE_MS each (tens of thousands of them):
    # they are left out of the enumerations below and the number left out is reported.
    skipped = [0]

    def feasible(s):
        if stalls and u2b_stall_class(s) is not None:
            skipped[0] += 1
            return False
        return True

    # ------------------------------------------------------------ Big5 -> UTF-8, every two-byte input
    codes = [(hi, lo) for hi in range(256) for lo in range(256)]
    l1 = ["1|%d %d" % hl for hl in codes]
    o1 = both(l1, "Big5ToUtf8(all 65536 two-byte inputs)")
    c.count(len(l1), "b2u two-byte (exhaustive)")
    n_mapped = 0
    for (hi, lo), r in zip(codes, o1):
        if not terminated(1, [hi, lo], r, "two-byte sweep"):
            continue
        got = out_bytes(r)
        code = hi * 256 + lo
        if hi < 0x80:
            want = [[hi] + ([lo] if lo < 0x80 else [])]          # ASCII is copied; a dangling lead byte is dropped
            # (a dangling lead byte may also become the replacement)
            if lo >= 0x80:
                want.append([hi] + REPL_UTF8)
            key, what = "b2u-ascii", "ASCII byte not copied"
        elif code in b2u:
            want = [enc(b2u[code])]
            key, what = "b2u-table-exact", "mapped code %04X (U+%04X) not converted to the UTF-8 encoding of its table entry" % (code, b2u[code])
            n_mapped += 1
            c.nontrivial(("b2u", code))
            try:
                ok_utf8 = bytes(got).decode("utf-8") == chr(b2u[code])
            except UnicodeDecodeError:
                ok_utf8 = False
            if not ok_utf8:
                c.violation("b2u-valid-utf8", "Big5ToUtf8(%04X) = [%s] is not the well-formed UTF-8 text U+%04X" % (code, " ".join("%02X" % b for b in got), b2u[code]),
                            {"cases": ["1|%d %d" % (hi, lo)], "expected": "0 " + toks(enc(b2u[code])), "got": r})
        else:
            want = [[], REPL_UTF8]                                    # unmapped: dropped or replaced
            key, what = "b2u-unmapped", "unmapped code %04X neither dropped nor replaced" % code
        if got not in want:
            c.violation(key, "Big5ToUtf8([%02X %02X]): %s: got [%s]" % (hi, lo, what, " ".join("%02X" % b for b in got)),
                        {"cases": ["1|%d %d" % (hi, lo)], "expected": "0 " + toks(want[0]), "got": r})
    c.cov["tables"]["b2u_mapped_codes_checked"] = n_mapped
    c.sample({"op": "Big5ToUtf8", "input": "A4 40", "result": o1[0xA440], "table": "U+%04X" % b2u.get(0xA440, 0)})

    # ------------------------------------------------------------ UTF-8 -> Big5: every 1- and 2-byte input, every 3-byte lead/continuation pattern
    ins = [[b] for b in range(256)]
    ins += [[a, b] for a in range(256) for b in range(256)]
    ins += [[a, b, d] for a in range(0xE0, 0xF0) for b in range(0x80, 0xC0) for d in range(0x80, 0xC0)]
    n_enum = len(ins)
    ins = [s for s in ins if feasible(s)]
    l2 = ["2|" + toks(s) for s in ins]
    o2 = both(l2, "Utf8ToBig5(all 1-byte, all 2-byte, all E0-EF x cont x cont inputs)")
    c.count(len(l2), "u2b 1/2/3-byte patterns (exhaustive)")
    res2 = {}
    for s, r in zip(ins, o2):
        if terminated(2, s, r, "pattern sweep"):
            res2[tuple(s)] = out_bytes(r)
    # every row of the u2b table (u >= 0x80): the UTF-8 text of u converts to the row's Big5 code;
    # every other code point of the BMP above 0x7F converts to the replacement (or is dropped)
    rows_checked = 0
    for u in range(0x80, 0x10000):
        s = tuple(enc(u))
        if s not in res2:
            continue
        got = res2[s]
        if u in u2b:
            rows_checked += 1
            c.nontrivial(("u2b", u))
            want = [u2b[u] >> 8, u2b[u] & 0xFF]
            if got != want:
                c.violation("u2b-table-exact", "Utf8ToBig5(U+%04X) = [%s], the table row says %04X" % (u, " ".join("%02X" % b for b in got), u2b[u]),
                            {"cases": ["2|" + toks(s)], "expected": "0 " + toks(want), "got": "0 " + toks(got)})
        elif got not in ([], REPL_BIG5):
            c.violation("u2b-unmapped", "Utf8ToBig5(U+%04X) = [%s]: not in the table, yet neither dropped nor the replacement" % (u, " ".join("%02X" % b for b in got)),
                        {"cases": ["2|" + toks(s)], "expected": "0 " + toks(REPL_BIG5), "got": "0 " + toks(got)})
    c.cov["tables"]["u2b_rows_checked"] = rows_checked
    # ASCII transparency on the enumerated inputs
    for s, got in res2.items():
        if all(b < 0x80 for b in s) and list(s) != got:
            c.violation("u2b-ascii", "Utf8ToBig5 changes the ASCII string %r into [%s]" % (bytes(s), " ".join("%02X" % b for b in got)),
                        {"cases": ["2|" + toks(s)], "expected": "0 " + toks(s), "got": "0 " + toks(got)})
    c.sample({"op": "Utf8ToBig5", "input": "E4 B8 80 (U+4E00)", "result": "0 " + toks(res2.get((0xE4, 0xB8, 0x80), [])), "table": "%04X" % u2b.get(0x4E00, 0)})

    # ------------------------------------------------------------ mutual round trip, every pair
    l3 = ["1|%d %d" % (b >> 8, b & 0xFF) for b in mutual]
    o3 = both(l3, "Big5ToUtf8(mutual pairs)")
    l4 = ["2|" + " ".join(r.split()[1:]) for r in o3]
    o4 = both(l4, "Utf8ToBig5(Big5ToUtf8(mutual pairs))")
    l5 = ["2|" + toks(enc(b2u[b])) for b in mutual]
    o5 = both(l5, "Utf8ToBig5(mutual pairs)")
    l6 = ["1|" + " ".join(r.split()[1:]) for r in o5]
    o6 = both(l6, "Big5ToUtf8(Utf8ToBig5(mutual pairs))")
    c.count(4 * len(mutual), "mutual round trips (exhaustive)")
    for b, ra, rb, rc, rd in zip(mutual, o3, o4, o5, o6):
        s = [b >> 8, b & 0xFF]
        t = enc(b2u[b])
        if ra.split()[0] == "0" and rb.split()[0] == "0" and out_bytes(rb) != s:
            c.violation("roundtrip-b2u2b", "Utf8ToBig5(Big5ToUtf8(%04X)) = [%s]" % (b, " ".join("%02X" % x for x in out_bytes(rb))),
                        {"cases": ["1|" + toks(s), "2|" + " ".join(ra.split()[1:])], "expected": "0 " + toks(s), "got": rb})
        if rc.split()[0] == "0" and rd.split()[0] == "0" and out_bytes(rd) != t:
            c.violation("roundtrip-u2b2u", "Big5ToUtf8(Utf8ToBig5(U+%04X)) = [%s]" % (b2u[b], " ".join("%02X" % x for x in out_bytes(rd))),
                        {"cases": ["2|" + toks(t), "1|" + " ".join(rc.split()[1:])], "expected": "0 " + toks(t), "got": rd})
        for rr, op, inp in ((ra, 1, s), (rb, 2, out_bytes(ra)), (rc, 2, t), (rd, 1, out_bytes(rc))):
            terminated(op, inp, rr, "mutual pair")

    # ------------------------------------------------------------ generated strings
    b2u_keys = sorted(b2u)
    u2b_keys = sorted(u2b)
    unmapped_u = [u for u in range(0x80, 0x10000) if u not in u2b and not 0xD800 <= u < 0xE000]

    def gen_big5(clean):
        s, parts = [], rng.randrange(0, 12)
        for _ in range(parts):
            k = rng.randrange(10)
            if k < 4 or (clean and k >= 8):
                s += [rng.randrange(0x80) for _ in range(rng.randrange(1, 5))]
            elif k < 8:
                b = rng.choice(mutual if clean and rng.random() < 0.7 else b2u_keys)
                s += [b >> 8, b & 0xFF]
            elif k == 8:
                s += [rng.randrange(0x80, 0x100), rng.randrange(0x100)]        # mostly unmapped pairs
            else:
                s += [rng.randrange(0x80, 0x100)]                              # odd lead byte: shifts the pairing
        if not clean and rng.random() < 0.3:
            s.append(rng.randrange(0x80, 0x100))                               # dangling lead byte at the end
        return s

    def gen_utf8(clean):
        s, parts = [], rng.randrange(0, 12)
        for _ in range(parts):
            k = rng.randrange(14)
            if k < 4 or (clean and k >= 8):
                s += [rng.randrange(0x80) for _ in range(rng.randrange(1, 5))]
            elif k < 8:
                s += enc(b2u[rng.choice(mutual)] if clean and rng.random() < 0.7 else rng.choice(u2b_keys))
            elif k == 8:
                s += enc(rng.choice(unmapped_u))                               # well-formed, not in the table
            elif k == 9:
                s += [rng.randrange(0x80, 0xC0)]                               # lone continuation byte
            elif k == 10:
                u = rng.randrange(0x10000, 0x110000)                           # 4-byte sequence (emoji etc.)
                s += [0xF0 | (u >> 18), 0x80 | ((u >> 12) & 0x3F), 0x80 | ((u >> 6) & 0x3F), 0x80 | (u & 0x3F)]
            elif k == 11:
                e = enc(rng.choice(u2b_keys))
                s += e[:rng.randrange(1, len(e))]                              # truncated inside the string
            elif k == 12:
                s += [rng.choice([0xC0, 0xC1, 0xF5, 0xF8, 0xFC, 0xFE, 0xFF, 0xED, 0xE0])] + [rng.randrange(0x100) for _ in range(rng.randrange(0, 3))]
            else:
                s += [rng.randrange(0x100) for _ in range(rng.randrange(1, 4))]
        if not clean and rng.random() < 0.3:
            e = enc(rng.choice(u2b_keys))
            s += e[:rng.randrange(1, len(e))]                                  # truncated at the end
        return s

    n_gen = 300000 if thorough else 12000
    gb = [gen_big5(i % 3 == 0) for i in range(n_gen)] + [[], [0x41], [0xA4], [0xA4, 0x40, 0xA4]]
    gb += [[rng.randrange(256) for _ in range(rng.randrange(0, 40))] for _ in range(n_gen // 4)]
    gu = [gen_utf8(i % 3 == 0) for i in range(n_gen)] + [[], [0x41]]
    gu += [[rng.randrange(256) for _ in range(rng.randrange(0, 40))] for _ in range(n_gen // 4)]
    gu += [list(range(0x80)), [0x7F] * 300 + enc(0x4E00) * 300]
    n_gu = len(gu)
    gu = [s for s in gu if feasible(s)]
    l7 = ["1|" + toks(s) for s in gb]
    o7 = both(l7, "Big5ToUtf8(generated strings)")
    l8 = ["2|" + toks(s) for s in gu]
    o8 = both(l8, "Utf8ToBig5(generated strings)")
    c.count(len(l7), "b2u generated")
    c.count(len(l8), "u2b generated")

    def ref_b2u(s):
        """(expected output, clean): clean when s is only ASCII and mapped codes, without a dangling lead byte"""
        out, i, clean = [], 0, True
        while i < len(s):
            if s[i] < 0x80:
                out.append(s[i]); i += 1
            elif i + 1 >= len(s):
                clean = False; break
            else:
                code = s[i] * 256 + s[i + 1]
                if code in b2u:
                    out += enc(b2u[code])
                else:
                    clean = False
                i += 2
        return out, clean

    def ref_u2b(s):
        """(expected output, all code points mutually mapped) when s is only ASCII and well-formed code points that
        have a table row, else (None, False)"""
        out, i, mut = [], 0, True
        while i < len(s):
            b = s[i]
            if b < 0x80:
                out.append(b); i += 1
                continue
            n = 2 if b & 0xE0 == 0xC0 else 3 if b & 0xF0 == 0xE0 else 0
            seq = s[i:i + n]
            u = None
            if n and len(seq) == n and all(x & 0xC0 == 0x80 for x in seq[1:]):
                u = ((b & 0x1F) << 6 | seq[1] & 0x3F) if n == 2 else ((b & 0x0F) << 12 | (seq[1] & 0x3F) << 6 | seq[2] & 0x3F)
                if enc(u) != seq:
                    u = None                                   # overlong form
            if u is None or u not in u2b:
                return None, False
            mut = mut and b2u.get(u2b[u]) == u and u2b[u] >= 0x8000
            out += [u2b[u] >> 8, u2b[u] & 0xFF]
            i += n
        return out, mut

    n_clean = 0
    mutual_set = set(mutual)
    back_b, back_u = [], []
    for s, r in zip(gb, o7):
        c.nontrivial(("gb", tuple(s)))
        if not terminated(1, s, r, "generated"):
            continue
        got = out_bytes(r)
        want, clean = ref_b2u(s)
        if all(b < 0x80 for b in s) and got != s:
            c.violation("b2u-ascii", "Big5ToUtf8 changes the ASCII string %r" % bytes(s), {"cases": ["1|" + toks(s)], "expected": "0 " + toks(s), "got": r})
        if clean:
            n_clean += 1
            try:
                bytes(got).decode("utf-8")
                valid = True
            except UnicodeDecodeError:
                valid = False
            if not valid:
                c.violation("b2u-valid-utf8", "Big5ToUtf8 of ASCII + mapped codes [%s] is not well-formed UTF-8: [%s]" % (" ".join("%02X" % b for b in s), " ".join("%02X" % b for b in got)),
                            {"cases": ["1|" + toks(s)], "expected": "0 " + toks(want), "got": r})
            elif got != want:
                c.violation("b2u-table-exact", "Big5ToUtf8 of ASCII + mapped codes [%s]: expected [%s], got [%s]" % (" ".join("%02X" % b for b in s), " ".join("%02X" % b for b in want), " ".join("%02X" % b for b in got)),
                            {"cases": ["1|" + toks(s)], "expected": "0 " + toks(want), "got": r})
            if is_mutual_big5(s, mutual_set):
                back_b.append((s, got))
    for s, r in zip(gu, o8):
        c.nontrivial(("gu", tuple(s)))
        if not terminated(2, s, r, "generated"):
            continue
        got = out_bytes(r)
        if all(b < 0x80 for b in s) and got != s:
            c.violation("u2b-ascii", "Utf8ToBig5 changes the ASCII string %r" % bytes(s), {"cases": ["2|" + toks(s)], "expected": "0 " + toks(s), "got": r})
        want, mut = ref_u2b(s)
        if want is not None:
            n_clean += 1
            if got != want:
                c.violation("u2b-table-exact", "Utf8ToBig5 of ASCII + table code points [%s]: expected [%s], got [%s]" % (" ".join("%02X" % b for b in s), " ".join("%02X" % b for b in want), " ".join("%02X" % b for b in got)),
                            {"cases": ["2|" + toks(s)], "expected": "0 " + toks(want), "got": r})
            if mut:
                back_u.append((s, got))
    # strings of ASCII and mutually mapped codes survive there-and-back in both directions
    l9 = ["2|" + toks(t) for (_, t) in back_b]
    o9 = both(l9, "Utf8ToBig5(Big5ToUtf8(strings of mutual codes))")
    l10 = ["1|" + toks(t) for (_, t) in back_u]
    o10 = both(l10, "Big5ToUtf8(Utf8ToBig5(strings of mutual code points))")
    c.count(len(l9) + len(l10), "string round trips")
    for (s, t), r in zip(back_b, o9):
        if terminated(2, t, r, "round trip") and out_bytes(r) != s:
            c.violation("roundtrip-b2u2b", "Utf8ToBig5(Big5ToUtf8([%s])) = [%s]" % (" ".join("%02X" % b for b in s), " ".join("%02X" % b for b in out_bytes(r))),
                        {"cases": ["1|" + toks(s), "2|" + toks(t)], "expected": "0 " + toks(s), "got": r})
    for (s, t), r in zip(back_u, o10):
        if terminated(1, t, r, "round trip") and out_bytes(r) != s:
            c.violation("roundtrip-u2b2u", "Big5ToUtf8(Utf8ToBig5([%s])) = [%s]" % (" ".join("%02X" % b for b in s), " ".join("%02X" % b for b in out_bytes(r))),
                        {"cases": ["2|" + toks(s), "1|" + toks(t)], "expected": "0 " + toks(s), "got": r})
    if gu:
        k = min(len(gu) - 1, 7)
        c.sample({"op": "Utf8ToBig5", "input": " ".join("%02X" % b for b in gu[k]), "result": o8[k]})
        c.sample({"op": "Big5ToUtf8", "input": " ".join("%02X" % b for b in gb[7]), "result": o7[7]})


    # ------------------------------------------------------------ several goroutines of one process (validation only)
    # The converters are called by concurrent request handlers. Op 13 takes the answer each call gives alone, then lets 8
    # goroutines of the driver process repeat their own calls at the same time: every answer must be the sequential one.
    # (A converter that stages its work in package-level state passes every sequential sweep above.) Implementation only: the
    # executable model has no parallelism; what each call must answer alone is decided by the sections above.
    conc_pool = [(1, s) for s, r in zip(gb, o7) if r.split()[:1] == ["0"] and 4 <= len(s) <= 60] + \
                [(2, s) for s, r in zip(gu, o8) if r.split()[:1] == ["0"] and 4 <= len(s) <= 60]
    n_batches, rounds = (40, 6000) if thorough else (8, 2500)
    conc_lines = []
    for bi in range(n_batches):
        grp = [rng.choice(conc_pool) for _ in range(8)]
        if bi % 2 == 0:   # same direction in every goroutine: the most likely sharing
            same = [g for g in conc_pool if g[0] == 1 + (bi // 2) % 2]
            grp = [rng.choice(same) for _ in range(8)]
        conc_lines.append("13 %d|" % rounds + "|".join("%d %s" % (op, toks(s)) for op, s in grp))
    conc_io = vf.run_impl(impl, "C17", conc_lines, deadline_ms=120000)
    c.count(len(conc_lines) * 8 * rounds, "concurrent conversions (8 goroutines)")
    c.cov["concurrent_callers"] = {"batches": len(conc_lines), "goroutines": 8, "rounds": rounds}
    for l, r in zip(conc_lines, conc_io):
        f = r.split()
        if f[:1] == ["7"]:
            continue
        if f[:1] != ["0"]:
            c.violation("concurrent-conversions-status", "8 goroutines converting at once: the driver ends with status %s" % f[:1], {"cases": [l], "expected": "0 0", "got": r[:400]})
        elif f[1] != "0":
            j = int(f[2]); g = l.split("|")[1 + j].split()
            c.violation("concurrent-conversions-differ", "8 goroutines of one process converting their own strings at once (%d rounds each): %s answers differ from what the same call "
                        "answers alone; first: goroutine %d, %s([%s]) = [%s]" % (rounds, f[1], j, "Big5ToUtf8" if g[0] == "1" else "Utf8ToBig5",
                        " ".join("%02X" % int(x) for x in g[1:]), " ".join("%02X" % int(x) for x in f[4:])), {"cases": [l], "expected": "0 0", "got": r[:400]})
        else:
            c.nontrivial(("conc", l[:40]))

    # ------------------------------------------------------------ initialisation paths (the tables are package state)
    # Every scenario is ONE case line run in a fresh driver process: a history of start-up attempts through
    # types.InitConfig() with the table paths taken from the configuration (0 good file, 1 missing file, 2 a directory,
    # 3 empty path; first number of a pair: BIG5_TO_UTF8, second: UTF8_TO_BIG5), followed by a reduced sweep on the
    # tables this leaves. Direct predicate: if the last attempt returned nil, both directions are table-exact and the
    # mutually mapped codes round-trip; in every state every conversion returns.
    def pick(lst, n_edge, n_rand):
        mid = lst[n_edge:len(lst) - n_edge]
        return lst[:n_edge] + rng.sample(mid, min(n_rand, len(mid))) + lst[len(lst) - n_edge:]

    n_r = 1200 if thorough else 120
    b2u_file_order = [b for b in dict.fromkeys(b for b, _ in b2u_rows) if b >= 0x8000]     # first/last rows of the file first/last
    u2b_file_order = [u for u in dict.fromkeys(u for _, u in u2b_rows) if u >= 0x80]
    sweep = []                                                 # (dir, input bytes, expected output or None, predicate name)
    for b in pick(b2u_file_order, 8, n_r):
        sweep.append((1, [b >> 8, b & 0xFF], enc(b2u[b]), "b2u-table-exact"))
    for u in pick(u2b_file_order, 8, n_r):
        sweep.append((2, enc(u), [u2b[u] >> 8, u2b[u] & 0xFF], "u2b-table-exact"))
    for b in pick(mutual, 4, n_r // 2):
        sweep.append((3, [b >> 8, b & 0xFF], [b >> 8, b & 0xFF], "roundtrip-b2u2b"))
        sweep.append((4, enc(b2u[b]), enc(b2u[b]), "roundtrip-u2b2u"))
    for _ in range(20):
        cs = [rng.choice(mutual) if rng.random() < 0.7 else rng.randrange(0x20, 0x7F) for _ in range(rng.randrange(1, 12))]
        sb = [x for cd in cs for x in ([cd] if cd < 0x80 else [cd >> 8, cd & 0xFF])]
        su = [x for cd in cs for x in ([cd] if cd < 0x80 else enc(b2u[cd]))]
        sweep += [(1, sb, su, "b2u-table-exact"), (2, su, sb, "u2b-table-exact"), (3, sb, sb, "roundtrip-b2u2b"), (4, su, su, "roundtrip-u2b2u")]
    for a in ([], [0x41], list(range(0x20, 0x7F)), [0, 0x7F, 0x0A]):
        sweep += [(1, a, a, "b2u-ascii"), (2, a, a, "u2b-ascii")]
    # unmapped and malformed input: must return in every state; what comes out is left to the sweeps above (tables loaded) and to the model
    sweep += [(1, [0x80, 0x80], None, ""), (1, [0xA4], None, ""), (1, [0xFF, 0xFD], None, ""), (2, enc(unmapped_u[0]), None, ""),
              (2, [0xF0, 0x9F, 0x98, 0x80], None, ""), (2, [0x80], None, ""), (2, [0xE4, 0xB8], None, ""), (4, [0xC3], None, "")]
    sweep_txt = "|".join("%d %s" % (d, toks(i)) for d, i, _, _ in sweep)

    histories = [[(0, 0)],                       # the start-up of the other sections, now through types.InitConfig()
                 [(0, 1), (0, 0)],               # first attempt loads Big5->UTF-8 and fails on UTF-8->Big5; retry with the path fixed
                 [(1, 0), (0, 0)],               # first attempt fails on the first table; retry
                 [(0, 0), (0, 0)],               # start-up twice
                 [(1, 1), (0, 0)], [(0, 2), (0, 0)], [(3, 0), (0, 0)], [(2, 3), (0, 1), (0, 0)],
                 [(0, 1), (1, 0)],               # the retry finds the first table loaded (its path no longer matters) and loads the second
                 [(1, 0), (0, 1), (1, 0)],       # same, one attempt later
                 [(0, 0), (1, 1)],               # a later start-up with both paths broken: guards answer, tables stay
                 [(0, 1)], [(1, 0)], []]         # no successful start-up: only "returns" and the correspondence
    for _ in range(12 if thorough else 2):
        histories.append([(rng.randrange(4), rng.randrange(4)) for _ in range(rng.randrange(1, 4))] + [(0, 0)])

    def hist_txt(h):
        return " ".join(" ".join(map(str, a)) for a in h)

    def op_of(h):
        """pairs (pb, pu): op 10; triples (tz, pb, pu): op 12 — whole start-ups with a time zone and linked table paths"""
        return 12 if h and len(h[0]) == 3 else 10

    TZ_LOADS = {0: True, 1: True, 2: False, 3: False}                     # c17start.go: UTC, Local, unknown name, rejected name
    PATH_READS = {0: True, 1: False, 2: False, 3: False, 4: True, 5: True, 6: True, 7: True, 8: False, 9: False}
    LINKED = {4, 5, 7}                                                    # the last component of the path is a symbolic link to the table

    def legend(h):
        if op_of(h) == 10:
            return "pairs: BIG5_TO_UTF8 path, UTF8_TO_BIG5 path; 0 good, 1 missing, 2 directory, 3 empty"
        return ("triples: TIME_LOCATION, BIG5_TO_UTF8 path, UTF8_TO_BIG5 path; time zone 0 UTC, 1 Local, 2 unknown zone (what a host without "
                "zoneinfo answers), 3 rejected name; path 0 good, 1 missing, 2 directory, 3 empty, 4 symlink (absolute target), 5 symlink (relative target), "
                "6 file in a symlinked directory, 7 link to a link, 8 dangling link, 9 link to a directory")

    def attempt_class(a):
        tz, pb, pu = a
        cls = []
        if not TZ_LOADS[tz]:
            cls.append("time-zone-does-not-load")
        if pb in LINKED or pu in LINKED:
            cls.append("symlinked-table-path")
        elif pb == 6 or pu == 6:
            cls.append("symlinked-directory")
        if not (PATH_READS[pb] and PATH_READS[pu]):
            cls.append("unreadable-table-path")
        return "+".join(cls) or "plain-files"

    def hist_key(h, sts=None):
        """class of a history: which table path was bad in the attempts that failed before the last one"""
        if not h:
            return "no-start-up"
        if sts is None or len(sts) != len(h):
            return attempt_class(h[-1]) if op_of(h) == 12 else ",".join("%d-%d" % a for a in h)
        if op_of(h) == 12:
            # class of a whole start-up: the environment of the last attempt, and whether anything came before it
            cls = attempt_class(h[-1])
            if sts[-1] != 0:
                return "start-up-refused:" + cls
            return cls + (":first-start-up" if len(h) == 1 else ":later-start-up")
        bad = set()
        for (pb, pu), st in zip(h[:-1], sts[:-1]):
            if st != 0:
                bad |= ({"BIG5_TO_UTF8"} if pb else set()) | ({"UTF8_TO_BIG5"} if pu else set())
        if sts[-1] != 0:
            return "last-start-up-failed"
        if bad:
            return "retry-after-bad-" + "+".join(sorted(bad))
        return "first-start-up" if len(h) == 1 else "repeated-start-up"

    def fresh(line):
        """one case line in a fresh driver process"""
        return vf.run_impl(impl, "C17", [line], deadline_ms=INIT_DEADLINE_MS, env=FRESH)[0]

    def par_model(lines):
        """every op-10/11 line makes the model load the tables from scratch (about a second each): a few model processes side by side"""
        k = 6
        chunks = [lines[i::k] for i in range(k) if lines[i::k]]
        with ThreadPoolExecutor(max_workers=k) as ex:
            outs = list(ex.map(lambda ch: vf.run_model(model, ch), chunks))
        res = [None] * len(lines)
        for i, o in enumerate(outs):
            res[i::k] = o
        return res

    def parse_sts(t):
        """'0 n st1..stn rest' -> (statuses, rest) or None"""
        if t[:1] != ["0"] or len(t) < 2:
            return None
        n = int(t[1])
        return [int(x) for x in t[2:2 + n]], t[2 + n:]

    # whole start-ups (op 12): the environment a server is started in — TIME_LOCATION that loads or not, table paths that are
    # regular files, symbolic links (absolute / relative / chained / dangling / to a directory) or files in a linked directory
    starts = [[(0, 4, 4)], [(0, 5, 5)], [(1, 7, 7)], [(0, 6, 6)],          # both tables through links of each kind, first start-up
              [(0, 0, 5)], [(0, 4, 0)],                                    # one table linked
              [(0, 8, 0), (0, 4, 5)], [(0, 0, 9), (1, 5, 7)],              # dangling link / link to a directory, then repaired with links
              [(2, 0, 0)], [(3, 0, 0)], [(2, 4, 5)],                       # the time zone does not load: the start-up must be refused ...
              [(2, 0, 0), (0, 0, 0)], [(3, 1, 0), (2, 0, 0), (1, 0, 0)],   # ... and a later one with a time zone loads the tables
              [(0, 0, 0), (2, 0, 0)], [(0, 0, 1), (2, 0, 0)],              # loaded / half loaded, then an attempt without time zone
              [(1, 0, 0)]]
    for _ in range(16 if thorough else 3):
        starts.append([(rng.randrange(4), rng.randrange(10), rng.randrange(10)) for _ in range(rng.randrange(1, 4))])
    for _ in range(8 if thorough else 2):
        starts.append([(rng.randrange(4), rng.randrange(10), rng.randrange(10)) for _ in range(rng.randrange(0, 3))]
                      + [(rng.randrange(2), rng.choice([0, 4, 5, 6, 7]), rng.choice([0, 4, 5, 6, 7]))])
    n_plain = len(histories)
    histories = histories + starts
    init_lines = ["%d|%s|%s" % (op_of(h), hist_txt(h), sweep_txt) for h in histories]
    # vf.run_model remembers a few short lines of each call for the vm_compute cross-check of the extraction inside Coq, up to
    # a fixed number; an op-10/11 line costs several seconds there (the kernel loads the tables again). So: one short line of
    # each op first (they are cross-checked), then cheap lines that use up the remaining slots.
    short = ["10|0 1 0 0|2 228 184 128|3 164 64|1 65 164", "11|0 0|1 %s|0" % toks(list("測試站a".encode("utf-8"))),
             "12|2 0 0 0 8 5 1 4 7|2 228 184 128|3 164 64"]
    if model:
        vf.correspond(c, "start-up history / site name / whole start-up, short lines (ops 10, 11, 12)", short, [fresh(l) for l in short], vf.run_model(model, short))
        for _ in range(3):
            vf.run_model(model, ["1|65 164 64", "2|228 184 128 65", "1|164"])
    with ThreadPoolExecutor(max_workers=6) as ex:
        init_io = list(ex.map(fresh, init_lines))
    if model:
        vf.correspond(c, "start-up histories in fresh processes + reduced sweep (ops 10, 12)", init_lines, init_io, par_model(init_lines),
                      describe=lambda cs: "history " + cs.split("|")[1])
    c.count(len(init_lines) * (1 + len(sweep)), "start-up histories x reduced sweep (fresh process each)")
    reported = set()
    n_exact_states = 0
    for h, line, r in zip(histories, init_lines, init_io):
        c.nontrivial(("init", tuple(h)))
        ps = parse_sts(r.split())
        if ps is None:
            c.violation("init-status:" + hist_key(h), "start-up history [%s] in a fresh process: the driver ends with status %s" % (hist_txt(h), r.split()[:1]),
                        {"cases": ["%d|%s|%s" % (op_of(h), hist_txt(h), "1 164 64")], "env": FRESH, "got": r[:200], "expected_status": "0", "legend": legend(h)})
            continue
        sts, rest = ps
        must_be_exact = bool(sts) and sts[-1] == 0          # the last start-up returned nil: this is a server that runs
        n_exact_states += must_be_exact
        pos = 0
        for (d, inp, want, pred) in sweep:
            if pos >= len(rest):
                break
            st = rest[pos]
            if st == "0":
                ln = int(rest[pos + 1])
                got = [int(x) for x in rest[pos + 2:pos + 2 + ln]]
                pos += 2 + ln
            else:
                got = None
                pos += 1
            key = None
            if got is None:
                key, what = "init-conv-status%s:%s" % (st, hist_key(h, sts)), "does not return normally (status %s)" % st
            elif must_be_exact and want is not None and got != want:
                key, what = "init-%s:%s" % (pred, hist_key(h, sts)), "gives [%s], expected [%s]" % (" ".join("%02X" % x for x in got), " ".join("%02X" % x for x in want))
            if key and key not in reported:
                reported.add(key)
                one = "%d|%s|%d %s" % (op_of(h), hist_txt(h), d, toks(inp))
                again = fresh(one)                            # the minimal scenario by itself, in its own fresh process
                exp = "0 %d %s 0 %d %s" % (len(sts), " ".join(map(str, sts)), len(want), toks(want)) if want is not None else None
                fn = {1: "Big5ToUtf8", 2: "Utf8ToBig5", 3: "Utf8ToBig5(Big5ToUtf8(.))", 4: "Big5ToUtf8(Utf8ToBig5(.))"}[d]
                c.violation(key, "after the start-up history [%s] (%s) whose attempts returned %s "
                                 "(0 = nil), %s on [%s] %s" % (hist_txt(h), legend(h), sts, fn, " ".join("%02X" % x for x in inp), what),
                            dict({"cases": [one], "env": FRESH, "got": again}, **({"expected": exp.strip()} if exp else {"expected_status": "0"})))
    c.cov["init_histories"] = {"run": len(histories), "of_them_whole_start_ups_with_time_zone_and_links": len(histories) - n_plain,
                               "ending_in_nil_start_up": n_exact_states, "conversions_per_history": len(sweep)}
    k = histories.index([(0, 1), (0, 0)])
    c.sample({"op": "start-up history, then Utf8ToBig5", "history": "UTF8_TO_BIG5 missing, then fixed", "statuses+first conversion": " ".join(init_io[k].split()[:9])})

    # ------------------------------------------------------------ the glue: ptttype.InitConfig() derives BBSNAME_BIG5 from BBSNAME
    # op 11: start-up history as above, then a sequence of ptttype.InitConfig() calls, each with a configured site name
    # ([1, bytes]) or none ([0]); after each the driver reports BBSNAME, BBSNAME_BIG5 and types.Utf8ToBig5(BBSNAME).
    def u8(txt):
        return list(txt.encode("utf-8"))

    name_a, name_b = u8("測試站a"), u8("一BBS五")
    default_name = u8("新批踢踢")
    rnd_name = [x for u in rng.sample(u2b_keys, 6) for x in enc(u)]
    mut_name = [x for b in rng.sample(mutual, 5) for x in enc(b2u[b])]
    C, N = (lambda n: [1] + n), [0]
    bbs_scen = [([(0, 0)], [C(name_a)]),                                   # first start-up with a configured name
                ([(0, 0)], [N]),                                           # nothing configured: compiled-in name
                ([(0, 0)], [C([])]),                                       # configured empty name
                ([(0, 0)], [C(default_name)]),                             # the default, but configured
                ([(0, 0)], [C(name_a), C(name_a), C(name_b), N, C([]), C(name_a), C(default_name), N]),
                ([(0, 0)], [N, C(mut_name), N, C(rnd_name)]),
                ([(0, 0)], [C(u8("PTT-bbs 2")), C(u8("\U0001F600x")), C(enc(unmapped_u[0]) + u8("z")), C([0x41, 0xE4, 0xB8]), C([0x80, 0xC3])]),
                ([(0, 1), (0, 0)], [C(name_a), N]),                        # name set after a retried start-up
                ([(1, 0), (0, 0), (0, 0)], [C(mut_name)])]
    bbs_lines = ["11|%s|%s" % (hist_txt(h), "|".join(toks(g) for g in steps)) for h, steps in bbs_scen]
    with ThreadPoolExecutor(max_workers=6) as ex:
        bbs_io = list(ex.map(fresh, bbs_lines))
    if model:
        vf.correspond(c, "ptttype.InitConfig() sequences in fresh processes: BBSNAME / BBSNAME_BIG5 (op 11)", bbs_lines, bbs_io, par_model(bbs_lines))
    c.count(sum(len(st) for _, st in bbs_scen), "ptttype.InitConfig() steps (BBSNAME_BIG5)")

    def lp(t, pos):
        n = int(t[pos])
        return [int(x) for x in t[pos + 1:pos + 1 + n]], pos + 1 + n

    for (h, steps), line, r in zip(bbs_scen, bbs_lines, bbs_io):
        ps = parse_sts(r.split())
        if ps is None:
            c.violation("bbsname-status", "start-up history [%s] + ptttype.InitConfig() steps in a fresh process: the driver ends with status %s" % (hist_txt(h), r.split()[:2]),
                        {"cases": [line], "env": FRESH, "got": r[:200], "expected_status": "0"})
            continue
        sts, rest = ps
        pos, exp_parts = 0, []
        for k, g in enumerate(steps):
            name, pos = lp(rest, pos)
            big5, pos = lp(rest, pos)
            conv, pos = lp(rest, pos)
            c.nontrivial(("bbs", tuple(h), k, tuple(name)))
            want, _ = ref_u2b(name)                           # the check's own conversion when the name is ASCII + table code points
            key = None
            if big5 != conv:
                key = "bbsname-big5-not-converted:" + ("first-start-up" if k == 0 else "later-init") + (":configured" if g[0] == 1 else ":default")
                what = "BBSNAME_BIG5 = [%s] but types.Utf8ToBig5(BBSNAME) = [%s]" % (" ".join("%02X" % x for x in big5), " ".join("%02X" % x for x in conv))
            elif sts and sts[-1] == 0 and want is not None and big5 != want:
                key = "bbsname-big5-table-exact"
                what = "BBSNAME_BIG5 = [%s], the table rows say [%s]" % (" ".join("%02X" % x for x in big5), " ".join("%02X" % x for x in want))
            good = want if (sts and sts[-1] == 0 and want is not None) else conv       # what BBSNAME_BIG5 (and Utf8ToBig5(BBSNAME)) should be
            exp_parts.append("%d %s %d %s %d %s" % (len(name), toks(name), len(good), toks(good), len(good), toks(good)))
            if key and key not in reported:
                reported.add(key)
                one = "11|%s|%s" % (hist_txt(h), "|".join(toks(x) for x in steps[:k + 1]))
                exp = " ".join(("0 %d %s %s" % (len(sts), " ".join(map(str, sts)), " ".join(exp_parts))).split())
                c.violation(key, "after %s ptttype.InitConfig() no. %d of a fresh process (site name %s; BBSNAME = %r): %s" % (
                                "the start-up history [%s]," % hist_txt(h), k + 1, "configured" if g[0] == 1 else "not configured",
                                bytes(name).decode("utf-8", "replace"), what),
                            {"cases": [one], "env": FRESH, "got": fresh(one), "expected": exp})
    c.sample({"op": "ptttype.InitConfig() with go-pttbbs:ptttype.bbsname configured", "result (BBSNAME, BBSNAME_BIG5, Utf8ToBig5(BBSNAME))": bbs_io[0]})

    c.cov["clean_strings_checked_against_reference"] = n_clean
    c.cov["string_round_trips"] = len(l9) + len(l10)
    c.cov["skipped_because_probe_stalls"] = skipped[0]
    c.cov["exhaustive"] = skipped[0] == 0
    c.cov["exhaustive_parts"] = [
        "Big5ToUtf8 on all 65536 two-byte inputs (reference: the check's own reader of uao250-b2u.big5.txt + RFC 3629 encoder + Python's strict UTF-8 decoder)",
        "Utf8ToBig5 on all 256 one-byte and all 65536 two-byte inputs and all 65536 three-byte inputs E0-EF x 80-BF x 80-BF (%d of %d run%s); this contains the UTF-8 text of every row of uao250-u2b.big5.txt and of every unmapped BMP code point above 0x7F" % (
            len(ins), n_enum, "" if not stalls else "; inputs no arm of the scanner covers left out after the probe stalled"),
        "both round trips on each of the %d codes the two tables map to each other" % len(mutual),
    ]
    c.cov["init_paths"] = ("%d start-up histories (good; bad UTF8_TO_BIG5 path then retry; bad BIG5_TO_UTF8 path then retry; twice; missing file / directory / empty path; "
                           "no successful start-up; PRNG histories; whole start-ups with TIME_LOCATION UTC / Local / unknown zone / rejected name and table paths as symbolic links "
                           "with absolute / relative / chained targets, files in a linked directory, dangling links, links to a directory), each in a fresh driver process through types.InitConfig(), each followed by %d conversions "
                           "(first/last/random rows of both tables, mutual round trips, strings); %d ptttype.InitConfig() sequences (configured / default / empty / "
                           "repeated / unmapped / malformed site names) with BBSNAME_BIG5 compared to types.Utf8ToBig5(BBSNAME)" % (len(histories), len(sweep), len(bbs_scen)))
    c.finish(rule="enumerations as listed in exhaustive_parts + PRNG(seed) strings: Big5 side ASCII runs / mapped / unmapped pairs / odd and dangling lead bytes / random bytes; UTF-8 side ASCII runs / table code points / "
                  "unmapped code points / lone continuation bytes / 4-byte sequences / truncated sequences / invalid leads / random bytes. "
                  "Initialisation paths: fixed + PRNG histories of start-up attempts, one fresh driver process each, reduced sweep after each; ptttype.InitConfig() sequences for the site name. "
                  "Every case goes through implementation and extracted model (diffed). "
                  "Non-trivial = distinct mapped Big5 code, distinct u2b row, or distinct generated/probe string",
             assumptions=["the Go map type, append and string<->[]byte conversion are modelled (PositiveMap keyed by the byte string, list append), not verified",
                          "tables are loaded as types.SetIsTest(\"main\") does in a process whose working directory is the repository root (sweeps), "
                          "or through types.InitConfig() with the paths in the viper configuration (initialisation paths)",
                          "an unreadable table file is modelled as 'os.Open or io.ReadAll fails before any row is stored' (missing file, directory, empty path); "
                          "a readable file is the table gosync re-read; a read error in the middle of a file is not modelled",
                          "start-up environment: 'a symbolic link reads as the file it finally points to' and 'postConfig() returns the time-zone error before initBig5()' are "
                          "the model (theorems C17_start_*); that the real os.Open / io.ReadAll / time.LoadLocation behave so is validated, not proved: real links in a scratch "
                          "directory, real zone names, and table exactness / round trip demanded after every start-up that returned nil. A host without zoneinfo is represented "
                          "by an unknown zone name (same error return); FIFOs and other special files as table paths are not exercised",
                          "concurrent callers (op 13): that the converters share no state between goroutines of one process is validated by a parallel run (8 goroutines, "
                          "every answer must be the one the call gives alone), not proved - the executable model has no parallelism; a fixed number of overlapping calls "
                          "gives overwhelming, not total, certainty; on code without shared state no schedule can produce a differing answer, so the clean verdict cannot flip"])


def is_mutual_big5(s, mutual):
    """s is a Big5 string made only of ASCII and codes both tables map to each other"""
    i = 0
    while i < len(s):
        if s[i] < 0x80:
            i += 1
        elif i + 1 < len(s) and s[i] * 256 + s[i + 1] in mutual:
            i += 2
        else:
            return False
    return True


if __name__ == "__main__":
    main()
