#!/usr/bin/env python3
"""C17 — Big5 <-> UTF-8: proofs in coq/Props/C17.v; exhaustive correspondence and direct predicates on
types.Big5ToUtf8 / types.Utf8ToBig5 (all 65 536 two-byte Big5 inputs, every row of both tables, all
one/two-byte and all three-byte lead/continuation patterns of UTF-8, generated malformed strings)."""
import os, resource, sys
sys.path.insert(0, os.path.join(os.path.dirname(os.path.abspath(__file__)), "..", "lib"))
import vf

# ocamlopt needs a deep stack for the 680 000 list cells of the extracted tables (vf.build_model
# raises the limit for coqc only); children inherit this.
try:
    resource.setrlimit(resource.RLIMIT_STACK, (resource.RLIM_INFINITY, resource.RLIM_INFINITY))
except (ValueError, OSError):
    pass

DEADLINE_MS = 2000
CONFIRM_MS = 8000
REPL_BIG5 = [0xFF, 0xFD]           # what Utf8ToBig5 appends for a sequence it has no entry for
REPL_UTF8 = [0xEF, 0xBF, 0xBD]     # U+FFFD


def read_table(name):
    """The check's own reader of a UAO table file: (big5, ucs) rows; the last row of a key wins, as in a Go map."""
    rows = []
    with open(os.path.join(vf.REPO, "types", name), "rb") as f:
        lines = f.read().split(b"\n")[1:]
    for l in lines:
        p = l.split(b" ")
        if len(p) != 2:
            continue
        try:
            a, b = p[0][2:].strip(), p[1][2:].strip()
            if len(a) > 4 or len(b) > 4:
                continue
            big5 = int.from_bytes(bytes.fromhex(a.decode()).ljust(2, b"\0"), "big")
            ucs = int.from_bytes(bytes.fromhex(b.decode()).ljust(2, b"\0"), "big")
        except ValueError:
            continue
        rows.append((big5, ucs))
    return rows


def enc(u):
    """reference UTF-8 encoder (RFC 3629 bit layout) for u < 0x10000; surrogates are encoded like any other value"""
    if u < 0x80:
        return [u]
    if u < 0x800:
        return [0xC0 | (u >> 6), 0x80 | (u & 0x3F)]
    return [0xE0 | (u >> 12), 0x80 | ((u >> 6) & 0x3F), 0x80 | (u & 0x3F)]


def toks(bs):
    return " ".join(str(b) for b in bs)


def out_bytes(line):
    t = line.split()
    return [int(x) for x in t[1:]]


def u2b_stall_class(s):
    """None when every lead byte of s has the bytes its pattern needs (the three arms of Utf8ToBig5 cover it);
    otherwise the class of the first position no arm covers."""
    i = 0
    while i < len(s):
        b = s[i]
        if b < 0x80:
            i += 1
        elif b & 0xE0 == 0xC0 and len(s) - i >= 2:
            i += 2
        elif b & 0xF0 == 0xE0 and len(s) - i >= 3:
            i += 3
        elif b & 0xC0 == 0x80:
            return "lone-continuation-byte"
        elif b & 0xE0 == 0xC0 or b & 0xF0 == 0xE0:
            return "truncated-sequence"
        else:
            return "four-byte-or-invalid-lead"
    return None


def main():
    c = vf.Check("C17")
    rng = c.rng
    thorough = c.tier == "thorough"
    c.prove()
    model_ok = c.model_ok()
    impl = vf.build_impl()
    model = vf.build_model("C17") if model_ok else None

    b2u_rows = read_table("uao250-b2u.big5.txt")
    u2b_rows = read_table("uao250-u2b.big5.txt")
    b2u = dict(b2u_rows)                               # big5 code -> ucs
    u2b = {u: b for (b, u) in u2b_rows if u >= 0x80}   # ucs -> big5 code (keys below 0x80 collapse to "\0" in Go and are never looked up)
    mutual = sorted(b for b, u in b2u.items() if u2b.get(u) == b and b >= 0x8000)
    c.cov["tables"] = {"b2u_rows": len(b2u_rows), "u2b_rows": len(u2b_rows), "mutual_pairs": len(mutual)}

    def both(lines, label):
        io = vf.run_impl(impl, "C17", lines, deadline_ms=DEADLINE_MS)
        # a status 2 must be a stall of the conversion, not of a loaded machine: confirm with a longer deadline
        # (the first three; if any of them returns after all, every reported stall is re-run that way)
        late = [i for i, r in enumerate(io) if r.split()[:1] == ["2"]]
        recheck = late[:3]
        while recheck:
            returned = False
            for i in recheck:
                r = vf.run_impl(impl, "C17", [lines[i]], deadline_ms=CONFIRM_MS)[0]
                if r.split()[:1] != ["2"]:
                    io[i] = r
                    returned = True
            recheck = [i for i in late[3:] if io[i].split()[:1] == ["2"]] if returned and recheck == late[:3] else []
        if model:
            mo = vf.run_model(model, lines)
            vf.correspond(c, label, lines, io, mo)
        return io

    def terminated(op, s, r, what):
        """direct predicate 'the conversion returns': status 0. Returns False (and records the violation) otherwise."""
        st = r.split()[0]
        if st == "0":
            return True
        if st == "7":
            return False        # not run: the driver had already stalled 40 times in this batch (those are reported)
        if op == 2 and st == "2":
            cls = u2b_stall_class(s) or "well-formed-input"
            c.violation("u2b-stall:" + cls, "Utf8ToBig5 does not return within %d ms on bytes [%s] (%s, %s)" % (DEADLINE_MS, " ".join("%02X" % b for b in s), cls, what),
                        {"cases": ["2|" + toks(s)], "got": r, "expected_status": "0"})
        else:
            c.violation("%s-%s" % ("b2u" if op == 1 else "u2b", {"1": "crash", "2": "stall"}.get(st, "status" + st)),
                        "%s on bytes [%s] ends with status %s (%s)" % ("Big5ToUtf8" if op == 1 else "Utf8ToBig5", " ".join("%02X" % b for b in s), st, what),
                        {"cases": ["%d|%s" % (op, toks(s))], "got": r, "expected_status": "0"})
        return False

    # ------------------------------------------------------------ probe: does Utf8ToBig5 return on malformed input at all?
    probe = [[0xF0, 0x9F, 0x98, 0x80], [0x80], [0xE4, 0xB8], [0xC3], [0xBF, 0x41], [0x41, 0xF8], [0xFF], [0x41, 0xE4, 0xB8, 0x80, 0xE4], [0xF4, 0x8F, 0xBF, 0xBF, 0x42]]
    lp = ["2|" + toks(s) for s in probe]
    op_ = both(lp, "Utf8ToBig5(probe: malformed input)")
    c.count(len(lp), "u2b probe (malformed)")
    stalls = False
    for s, r in zip(probe, op_):
        c.nontrivial(("u2b", tuple(s)))
        if not terminated(2, s, r, "probe"):
            stalls = True
    c.sample({"op": "Utf8ToBig5", "input": " ".join("%02X" % b for b in probe[0]), "result": op_[0], "note": "status 2 = no return before the deadline"})
    # When the probe already stalls, inputs of the same shape would cost DEADLINE_MS each (tens of thousands of them):
    # they are left out of the enumerations below and the number left out is reported.
    skipped = [0]

    def feasible(s):
        if stalls and u2b_stall_class(s) is not None:
            skipped[0] += 1
            return False
        return True

    # ------------------------------------------------------------ Big5 -> UTF-8, every two-byte input
    codes = [(hi, lo) for hi in range(256) for lo in range(256)]
    l1 = ["1|%d %d" % hl for hl in codes]
    o1 = both(l1, "Big5ToUtf8(all 65536 two-byte inputs)")
    c.count(len(l1), "b2u two-byte (exhaustive)")
    n_mapped = 0
    for (hi, lo), r in zip(codes, o1):
        if not terminated(1, [hi, lo], r, "two-byte sweep"):
            continue
        got = out_bytes(r)
        code = hi * 256 + lo
        if hi < 0x80:
            want = [[hi] + ([lo] if lo < 0x80 else [])]          # ASCII is copied; a dangling lead byte is dropped
            # (a dangling lead byte may also become the replacement)
            if lo >= 0x80:
                want.append([hi] + REPL_UTF8)
            key, what = "b2u-ascii", "ASCII byte not copied"
        elif code in b2u:
            want = [enc(b2u[code])]
            key, what = "b2u-table-exact", "mapped code %04X (U+%04X) not converted to the UTF-8 encoding of its table entry" % (code, b2u[code])
            n_mapped += 1
            c.nontrivial(("b2u", code))
            try:
                ok_utf8 = bytes(got).decode("utf-8") == chr(b2u[code])
            except UnicodeDecodeError:
                ok_utf8 = False
            if not ok_utf8:
                c.violation("b2u-valid-utf8", "Big5ToUtf8(%04X) = [%s] is not the well-formed UTF-8 text U+%04X" % (code, " ".join("%02X" % b for b in got), b2u[code]),
                            {"cases": ["1|%d %d" % (hi, lo)], "expected": "0 " + toks(enc(b2u[code])), "got": r})
        else:
            want = [[], REPL_UTF8]                                    # unmapped: dropped or replaced
            key, what = "b2u-unmapped", "unmapped code %04X neither dropped nor replaced" % code
        if got not in want:
            c.violation(key, "Big5ToUtf8([%02X %02X]): %s: got [%s]" % (hi, lo, what, " ".join("%02X" % b for b in got)),
                        {"cases": ["1|%d %d" % (hi, lo)], "expected": "0 " + toks(want[0]), "got": r})
    c.cov["tables"]["b2u_mapped_codes_checked"] = n_mapped
    c.sample({"op": "Big5ToUtf8", "input": "A4 40", "result": o1[0xA440], "table": "U+%04X" % b2u.get(0xA440, 0)})

    # ------------------------------------------------------------ UTF-8 -> Big5: every 1- and 2-byte input, every 3-byte lead/continuation pattern
    ins = [[b] for b in range(256)]
    ins += [[a, b] for a in range(256) for b in range(256)]
    ins += [[a, b, d] for a in range(0xE0, 0xF0) for b in range(0x80, 0xC0) for d in range(0x80, 0xC0)]
    n_enum = len(ins)
    ins = [s for s in ins if feasible(s)]
    l2 = ["2|" + toks(s) for s in ins]
    o2 = both(l2, "Utf8ToBig5(all 1-byte, all 2-byte, all E0-EF x cont x cont inputs)")
    c.count(len(l2), "u2b 1/2/3-byte patterns (exhaustive)")
    res2 = {}
    for s, r in zip(ins, o2):
        if terminated(2, s, r, "pattern sweep"):
            res2[tuple(s)] = out_bytes(r)
    # every row of the u2b table (u >= 0x80): the UTF-8 text of u converts to the row's Big5 code;
    # every other code point of the BMP above 0x7F converts to the replacement (or is dropped)
    rows_checked = 0
    for u in range(0x80, 0x10000):
        s = tuple(enc(u))
        if s not in res2:
            continue
        got = res2[s]
        if u in u2b:
            rows_checked += 1
            c.nontrivial(("u2b", u))
            want = [u2b[u] >> 8, u2b[u] & 0xFF]
            if got != want:
                c.violation("u2b-table-exact", "Utf8ToBig5(U+%04X) = [%s], the table row says %04X" % (u, " ".join("%02X" % b for b in got), u2b[u]),
                            {"cases": ["2|" + toks(s)], "expected": "0 " + toks(want), "got": "0 " + toks(got)})
        elif got not in ([], REPL_BIG5):
            c.violation("u2b-unmapped", "Utf8ToBig5(U+%04X) = [%s]: not in the table, yet neither dropped nor the replacement" % (u, " ".join("%02X" % b for b in got)),
                        {"cases": ["2|" + toks(s)], "expected": "0 " + toks(REPL_BIG5), "got": "0 " + toks(got)})
    c.cov["tables"]["u2b_rows_checked"] = rows_checked
    # ASCII transparency on the enumerated inputs
    for s, got in res2.items():
        if all(b < 0x80 for b in s) and list(s) != got:
            c.violation("u2b-ascii", "Utf8ToBig5 changes the ASCII string %r into [%s]" % (bytes(s), " ".join("%02X" % b for b in got)),
                        {"cases": ["2|" + toks(s)], "expected": "0 " + toks(s), "got": "0 " + toks(got)})
    c.sample({"op": "Utf8ToBig5", "input": "E4 B8 80 (U+4E00)", "result": "0 " + toks(res2.get((0xE4, 0xB8, 0x80), [])), "table": "%04X" % u2b.get(0x4E00, 0)})

    # ------------------------------------------------------------ mutual round trip, every pair
    l3 = ["1|%d %d" % (b >> 8, b & 0xFF) for b in mutual]
    o3 = both(l3, "Big5ToUtf8(mutual pairs)")
    l4 = ["2|" + " ".join(r.split()[1:]) for r in o3]
    o4 = both(l4, "Utf8ToBig5(Big5ToUtf8(mutual pairs))")
    l5 = ["2|" + toks(enc(b2u[b])) for b in mutual]
    o5 = both(l5, "Utf8ToBig5(mutual pairs)")
    l6 = ["1|" + " ".join(r.split()[1:]) for r in o5]
    o6 = both(l6, "Big5ToUtf8(Utf8ToBig5(mutual pairs))")
    c.count(4 * len(mutual), "mutual round trips (exhaustive)")
    for b, ra, rb, rc, rd in zip(mutual, o3, o4, o5, o6):
        s = [b >> 8, b & 0xFF]
        t = enc(b2u[b])
        if ra.split()[0] == "0" and rb.split()[0] == "0" and out_bytes(rb) != s:
            c.violation("roundtrip-b2u2b", "Utf8ToBig5(Big5ToUtf8(%04X)) = [%s]" % (b, " ".join("%02X" % x for x in out_bytes(rb))),
                        {"cases": ["1|" + toks(s), "2|" + " ".join(ra.split()[1:])], "expected": "0 " + toks(s), "got": rb})
        if rc.split()[0] == "0" and rd.split()[0] == "0" and out_bytes(rd) != t:
            c.violation("roundtrip-u2b2u", "Big5ToUtf8(Utf8ToBig5(U+%04X)) = [%s]" % (b2u[b], " ".join("%02X" % x for x in out_bytes(rd))),
                        {"cases": ["2|" + toks(t), "1|" + " ".join(rc.split()[1:])], "expected": "0 " + toks(t), "got": rd})
        for rr, op, inp in ((ra, 1, s), (rb, 2, out_bytes(ra)), (rc, 2, t), (rd, 1, out_bytes(rc))):
            terminated(op, inp, rr, "mutual pair")

    # ------------------------------------------------------------ generated strings
    b2u_keys = sorted(b2u)
    u2b_keys = sorted(u2b)
    unmapped_u = [u for u in range(0x80, 0x10000) if u not in u2b and not 0xD800 <= u < 0xE000]

    def gen_big5(clean):
        s, parts = [], rng.randrange(0, 12)
        for _ in range(parts):
            k = rng.randrange(10)
            if k < 4 or (clean and k >= 8):
                s += [rng.randrange(0x80) for _ in range(rng.randrange(1, 5))]
            elif k < 8:
                b = rng.choice(mutual if clean and rng.random() < 0.7 else b2u_keys)
                s += [b >> 8, b & 0xFF]
            elif k == 8:
                s += [rng.randrange(0x80, 0x100), rng.randrange(0x100)]        # mostly unmapped pairs
            else:
                s += [rng.randrange(0x80, 0x100)]                              # odd lead byte: shifts the pairing
        if not clean and rng.random() < 0.3:
            s.append(rng.randrange(0x80, 0x100))                               # dangling lead byte at the end
        return s

    def gen_utf8(clean):
        s, parts = [], rng.randrange(0, 12)
        for _ in range(parts):
            k = rng.randrange(14)
            if k < 4 or (clean and k >= 8):
                s += [rng.randrange(0x80) for _ in range(rng.randrange(1, 5))]
            elif k < 8:
                s += enc(b2u[rng.choice(mutual)] if clean and rng.random() < 0.7 else rng.choice(u2b_keys))
            elif k == 8:
                s += enc(rng.choice(unmapped_u))                               # well-formed, not in the table
            elif k == 9:
                s += [rng.randrange(0x80, 0xC0)]                               # lone continuation byte
            elif k == 10:
                u = rng.randrange(0x10000, 0x110000)                           # 4-byte sequence (emoji etc.)
                s += [0xF0 | (u >> 18), 0x80 | ((u >> 12) & 0x3F), 0x80 | ((u >> 6) & 0x3F), 0x80 | (u & 0x3F)]
            elif k == 11:
                e = enc(rng.choice(u2b_keys))
                s += e[:rng.randrange(1, len(e))]                              # truncated inside the string
            elif k == 12:
                s += [rng.choice([0xC0, 0xC1, 0xF5, 0xF8, 0xFC, 0xFE, 0xFF, 0xED, 0xE0])] + [rng.randrange(0x100) for _ in range(rng.randrange(0, 3))]
            else:
                s += [rng.randrange(0x100) for _ in range(rng.randrange(1, 4))]
        if not clean and rng.random() < 0.3:
            e = enc(rng.choice(u2b_keys))
            s += e[:rng.randrange(1, len(e))]                                  # truncated at the end
        return s

    n_gen = 300000 if thorough else 12000
    gb = [gen_big5(i % 3 == 0) for i in range(n_gen)] + [[], [0x41], [0xA4], [0xA4, 0x40, 0xA4]]
    gb += [[rng.randrange(256) for _ in range(rng.randrange(0, 40))] for _ in range(n_gen // 4)]
    gu = [gen_utf8(i % 3 == 0) for i in range(n_gen)] + [[], [0x41]]
    gu += [[rng.randrange(256) for _ in range(rng.randrange(0, 40))] for _ in range(n_gen // 4)]
    gu += [list(range(0x80)), [0x7F] * 300 + enc(0x4E00) * 300]
    n_gu = len(gu)
    gu = [s for s in gu if feasible(s)]
    l7 = ["1|" + toks(s) for s in gb]
    o7 = both(l7, "Big5ToUtf8(generated strings)")
    l8 = ["2|" + toks(s) for s in gu]
    o8 = both(l8, "Utf8ToBig5(generated strings)")
    c.count(len(l7), "b2u generated")
    c.count(len(l8), "u2b generated")

    def ref_b2u(s):
        """(expected output, clean): clean when s is only ASCII and mapped codes, without a dangling lead byte"""
        out, i, clean = [], 0, True
        while i < len(s):
            if s[i] < 0x80:
                out.append(s[i]); i += 1
            elif i + 1 >= len(s):
                clean = False; break
            else:
                code = s[i] * 256 + s[i + 1]
                if code in b2u:
                    out += enc(b2u[code])
                else:
                    clean = False
                i += 2
        return out, clean

    def ref_u2b(s):
        """(expected output, all code points mutually mapped) when s is only ASCII and well-formed code points that
        have a table row, else (None, False)"""
        out, i, mut = [], 0, True
        while i < len(s):
            b = s[i]
            if b < 0x80:
                out.append(b); i += 1
                continue
            n = 2 if b & 0xE0 == 0xC0 else 3 if b & 0xF0 == 0xE0 else 0
            seq = s[i:i + n]
            u = None
            if n and len(seq) == n and all(x & 0xC0 == 0x80 for x in seq[1:]):
                u = ((b & 0x1F) << 6 | seq[1] & 0x3F) if n == 2 else ((b & 0x0F) << 12 | (seq[1] & 0x3F) << 6 | seq[2] & 0x3F)
                if enc(u) != seq:
                    u = None                                   # overlong form
            if u is None or u not in u2b:
                return None, False
            mut = mut and b2u.get(u2b[u]) == u and u2b[u] >= 0x8000
            out += [u2b[u] >> 8, u2b[u] & 0xFF]
            i += n
        return out, mut

    n_clean = 0
    mutual_set = set(mutual)
    back_b, back_u = [], []
    for s, r in zip(gb, o7):
        c.nontrivial(("gb", tuple(s)))
        if not terminated(1, s, r, "generated"):
            continue
        got = out_bytes(r)
        want, clean = ref_b2u(s)
        if all(b < 0x80 for b in s) and got != s:
            c.violation("b2u-ascii", "Big5ToUtf8 changes the ASCII string %r" % bytes(s), {"cases": ["1|" + toks(s)], "expected": "0 " + toks(s), "got": r})
        if clean:
            n_clean += 1
            try:
                bytes(got).decode("utf-8")
                valid = True
            except UnicodeDecodeError:
                valid = False
            if not valid:
                c.violation("b2u-valid-utf8", "Big5ToUtf8 of ASCII + mapped codes [%s] is not well-formed UTF-8: [%s]" % (" ".join("%02X" % b for b in s), " ".join("%02X" % b for b in got)),
                            {"cases": ["1|" + toks(s)], "expected": "0 " + toks(want), "got": r})
            elif got != want:
                c.violation("b2u-table-exact", "Big5ToUtf8 of ASCII + mapped codes [%s]: expected [%s], got [%s]" % (" ".join("%02X" % b for b in s), " ".join("%02X" % b for b in want), " ".join("%02X" % b for b in got)),
                            {"cases": ["1|" + toks(s)], "expected": "0 " + toks(want), "got": r})
            if is_mutual_big5(s, mutual_set):
                back_b.append((s, got))
    for s, r in zip(gu, o8):
        c.nontrivial(("gu", tuple(s)))
        if not terminated(2, s, r, "generated"):
            continue
        got = out_bytes(r)
        if all(b < 0x80 for b in s) and got != s:
            c.violation("u2b-ascii", "Utf8ToBig5 changes the ASCII string %r" % bytes(s), {"cases": ["2|" + toks(s)], "expected": "0 " + toks(s), "got": r})
        want, mut = ref_u2b(s)
        if want is not None:
            n_clean += 1
            if got != want:
                c.violation("u2b-table-exact", "Utf8ToBig5 of ASCII + table code points [%s]: expected [%s], got [%s]" % (" ".join("%02X" % b for b in s), " ".join("%02X" % b for b in want), " ".join("%02X" % b for b in got)),
                            {"cases": ["2|" + toks(s)], "expected": "0 " + toks(want), "got": r})
            if mut:
                back_u.append((s, got))
    # strings of ASCII and mutually mapped codes survive there-and-back in both directions
    l9 = ["2|" + toks(t) for (_, t) in back_b]
    o9 = both(l9, "Utf8ToBig5(Big5ToUtf8(strings of mutual codes))")
    l10 = ["1|" + toks(t) for (_, t) in back_u]
    o10 = both(l10, "Big5ToUtf8(Utf8ToBig5(strings of mutual code points))")
    c.count(len(l9) + len(l10), "string round trips")
    for (s, t), r in zip(back_b, o9):
        if terminated(2, t, r, "round trip") and out_bytes(r) != s:
            c.violation("roundtrip-b2u2b", "Utf8ToBig5(Big5ToUtf8([%s])) = [%s]" % (" ".join("%02X" % b for b in s), " ".join("%02X" % b for b in out_bytes(r))),
                        {"cases": ["1|" + toks(s), "2|" + toks(t)], "expected": "0 " + toks(s), "got": r})
    for (s, t), r in zip(back_u, o10):
        if terminated(1, t, r, "round trip") and out_bytes(r) != s:
            c.violation("roundtrip-u2b2u", "Big5ToUtf8(Utf8ToBig5([%s])) = [%s]" % (" ".join("%02X" % b for b in s), " ".join("%02X" % b for b in out_bytes(r))),
                        {"cases": ["2|" + toks(s), "1|" + toks(t)], "expected": "0 " + toks(s), "got": r})
    if gu:
        k = min(len(gu) - 1, 7)
        c.sample({"op": "Utf8ToBig5", "input": " ".join("%02X" % b for b in gu[k]), "result": o8[k]})
        c.sample({"op": "Big5ToUtf8", "input": " ".join("%02X" % b for b in gb[7]), "result": o7[7]})

    c.cov["clean_strings_checked_against_reference"] = n_clean
    c.cov["string_round_trips"] = len(l9) + len(l10)
    c.cov["skipped_because_probe_stalls"] = skipped[0]
    c.cov["exhaustive"] = skipped[0] == 0
    c.cov["exhaustive_parts"] = [
        "Big5ToUtf8 on all 65536 two-byte inputs (reference: the check's own reader of uao250-b2u.big5.txt + RFC 3629 encoder + Python's strict UTF-8 decoder)",
        "Utf8ToBig5 on all 256 one-byte and all 65536 two-byte inputs and all 65536 three-byte inputs E0-EF x 80-BF x 80-BF (%d of %d run%s); this contains the UTF-8 text of every row of uao250-u2b.big5.txt and of every unmapped BMP code point above 0x7F" % (
            len(ins), n_enum, "" if not stalls else "; inputs no arm of the scanner covers left out after the probe stalled"),
        "both round trips on each of the %d codes the two tables map to each other" % len(mutual),
    ]
    c.finish(rule="enumerations as listed in exhaustive_parts + PRNG(seed) strings: Big5 side ASCII runs / mapped / unmapped pairs / odd and dangling lead bytes / random bytes; UTF-8 side ASCII runs / table code points / "
                  "unmapped code points / lone continuation bytes / 4-byte sequences / truncated sequences / invalid leads / random bytes. Every case goes through implementation and extracted model (diffed). "
                  "Non-trivial = distinct mapped Big5 code, distinct u2b row, or distinct generated/probe string",
             assumptions=["the Go map type, append and string<->[]byte conversion are modelled (PositiveMap keyed by the byte string, list append), not verified",
                          "tables are loaded as types.SetIsTest(\"main\") does in a process whose working directory is the repository root"])


def is_mutual_big5(s, mutual):
    """s is a Big5 string made only of ASCII and codes both tables map to each other"""
    i = 0
    while i < len(s):
        if s[i] < 0x80:
            i += 1
        elif i + 1 < len(s) and s[i] * 256 + s[i + 1] in mutual:
            i += 2
        else:
            return False
    return True


if __name__ == "__main__":
    main()
