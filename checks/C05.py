#!/usr/bin/env python3
"""C05 — record files: proofs in coq/Props/C05.v; random and enumerated operation sequences on scratch files for
the four record types in use through the real functions, whole-file comparison with the model after every step,
frame predicates on the implementation's own output, torn tails at every byte length; window reads of thousands of
records on generated files of 5 000 / 70 000 records (index lists against the model, contents by digest); histories
in one process during which the OS refuses some writes (RLIMIT_FSIZE = 0: EFBIG), followed by further operations, whole-file comparison after every step;
sparse files (a few KiB on disk) with the addressed record at byte offsets around 2^31, 2^32, 2^33 and up to 2^40: append / substitute / delete-mark / count
(+ GetRecords, ModifyDirLite) through the real functions, the whole file listed afterwards from its data extents and compared with the sparse model and a reference."""
import hashlib, os, struct, sys
sys.path.insert(0, os.path.join(os.path.dirname(os.path.abspath(__file__)), "..", "lib"))
import vf

STRIDES = {100: "PostLog", 128: "FileHeaderRaw", 256: "BoardHeaderRaw", 512: "UserecRaw"}
BOOL_BYTES = {512: (270, 273)}          # UserecRaw.Over18 / Invisible: a real value re-encodes a bool as 0/1
MAXU = 50


def toks(bs):
    return " ".join(str(b) for b in bs)


def rand_rec(rng, sz):
    r = [rng.randrange(256) for _ in range(sz)]
    for p in BOOL_BYTES.get(sz, ()):
        r[p] = rng.randrange(2)
    return r


def rand_name(rng):
    n = list(b"M.%010d.A.%03X" % (rng.randrange(10 ** 9, 2 ** 31), rng.randrange(4096)))
    return n + [0] * (28 - len(n))


def pwrite(f, off, bs):
    return f[:off] + [0] * max(0, off - len(f)) + list(bs) + f[off + len(bs):]


def recs(f, sz):
    return [tuple(f[i * sz:(i + 1) * sz]) for i in range(len(f) // sz)]


def main():
    c = vf.Check("C05")
    rng = c.rng
    thorough = c.tier == "thorough"
    c.prove()
    model_ok = c.model_ok()
    impl = vf.build_impl()
    model = vf.build_model("C05") if model_ok else None
    tag = [int(x) for x in vf.run_impl(impl, "C05", ["10"])[0].split()[1:]]       # the delete tag of this build (FN_SAFEDEL)

    def both(lines, label):
        io = vf.run_impl(impl, "C05", lines)
        if model:
            vf.correspond(c, label, lines, io, vf.run_model(model, lines))
        return io

    def status(o):
        return o.split()[0]

    def out_file(o):
        return [int(x) for x in o.split()[1:]]

    # ------------------------------------------------------------ operation sequences, all strides, stepped in lock-step
    def gen_step(sz, f):
        """returns (kind, case line, checker(output) -> new file or None)"""
        cnt = len(f) // sz
        kinds = ["append", "append", "subst", "subst", "delete", "count"] + (["modify", "modify", "read", "read"] if sz == 128 else [])
        kind = rng.choice(kinds)
        if kind == "append":
            rec = rand_rec(rng, sz)
            line = "1|%d|%s|%s" % (sz, toks(rec), toks(f))

            def chk(o):
                t = o.split()
                want_f = f[:cnt * sz] + rec
                if t[0] != "0" or int(t[1]) != cnt + 1 or [int(x) for x in t[2:]] != want_f:
                    c.violation("append:%s" % STRIDES[sz], "AppendRecord on a %d-byte %s file (%d records) returned %s and a file of %d bytes; expected index %d and the first %d bytes unchanged followed by the record"
                                % (len(f), STRIDES[sz], cnt, t[:2], len(t) - 2, cnt + 1, cnt * sz), {"cases": [line], "expected": "0 %d %s" % (cnt + 1, toks(want_f)), "got": o[:200]})
                return [int(x) for x in t[2:]] if t[0] == "0" else None
            return kind, ("append", "tail" if len(f) % sz else "aligned"), line, chk
        if kind in ("subst", "delete"):
            idx = rng.choice([0, max(0, cnt - 1), rng.randrange(0, cnt + 1), cnt, cnt + rng.randrange(1, 3), -1, -rng.randrange(1, 5)])
            bs = rand_rec(rng, sz) if kind == "subst" else tag
            line = ("2|%d %d|%s|%s" if kind == "subst" else "3|%d %d|%s|%s") % (sz, idx, toks(bs), toks(f))
            cls = "neg" if idx < 0 else "in" if idx < cnt else "at-end" if idx == cnt else "beyond"

            def chk(o):
                t = o.split()
                if idx < 0:
                    if t[0] != "3":
                        c.violation("%s-negative" % kind, "%s with index %d was not refused: %s" % (kind, idx, o[:40]), {"cases": [line], "got": o[:200]})
                    return None
                new = out_file(o) if t[0] == "0" else None
                want = pwrite(f, idx * sz, bs)
                if new != want:
                    # in range this is the frame condition; out of range it is the documented growth (existing bytes kept)
                    c.violation("%s-frame:%s" % (kind, cls), "%s(%s, index %d) on %d records changed bytes other than [%d,%d)" % (kind, STRIDES[sz], idx, cnt, idx * sz, idx * sz + len(bs)),
                                {"cases": [line], "expected": "0 " + toks(want), "got": o[:200]})
                return new
            return kind, (kind, cls), line, chk
        if kind == "count":
            line = "6|%d|%s" % (sz, toks(f))

            def chk(o):
                if o.split() != ["0", str(cnt)]:
                    c.violation("count", "GetNumRecords of a %d-byte file with stride %d = %s" % (len(f), sz, o), {"cases": [line], "expected": "0 %d" % cnt, "got": o})
                return None
            return kind, ("count", len(f) % sz != 0), line, chk
        if kind == "modify":
            mode = rng.choice(["ok", "ok", "ok", "stale-name", "stale-idx", "idx0", "beyond", "neg"])
            idx = {"ok": rng.randrange(1, cnt + 1) if cnt else 1, "stale-name": rng.randrange(1, cnt + 1) if cnt else 1,
                   "stale-idx": rng.randrange(1, cnt + 1) if cnt else 1, "idx0": 0, "beyond": cnt + rng.randrange(1, 3), "neg": -rng.randrange(1, 4)}[mode]
            if cnt == 0 and mode in ("ok", "stale-name", "stale-idx"):
                mode = "beyond"
            stored = f[(idx - 1) * sz:(idx - 1) * sz + 28] if 1 <= idx <= cnt else rand_name(rng)
            name = list(stored)
            if mode == "stale-name":
                cut = name.index(0) if 0 in name else 28
                if cut == 0:
                    name[0] = 65                                     # stored name empty: any non-empty name is stale
                else:
                    p = rng.randrange(cut); name[p] = (name[p] % 255) + 1 if (name[p] % 255) + 1 != name[p] else 1
            elif mode == "stale-idx" and cnt >= 2:
                other = rng.choice([i for i in range(1, cnt + 1) if i != idx])
                name = f[(other - 1) * sz:(other - 1) * sz + 28]
                if recs(f, 128)[other - 1][:28] == recs(f, 128)[idx - 1][:28]:
                    mode = "ok"
            elif mode == "stale-idx":
                mode = "ok"
            mtime = rng.choice([0, 0, -5, 1, rng.randrange(1, 2 ** 31)])
            recommend = rng.choice([0, 0, 1, -1, 5, -7, 100, -100, 127, -128, rng.randrange(-128, 128)])
            en, dis = rng.choice([0, 0, 1, 8, 255, rng.randrange(256)]), rng.choice([0, 0, 2, 64, 255, rng.randrange(256)])
            ht, ho, hd, hm = (rng.randrange(2) for _ in range(4))
            title = [rng.choice([0, 65, 200])] + [rng.randrange(256) for _ in range(64)]
            owner = [rng.choice([0, 66])] + [rng.randrange(256) for _ in range(13)]
            date = [rng.choice([0, 49])] + [rng.randrange(256) for _ in range(5)]
            multi = [rng.randrange(256) for _ in range(rng.choice([0, 1, 4, 4, 6]))]
            line = "4|%d %d %d %d %d %d %d %d %d|%s|%s|%s|%s|%s|%s" % (idx, mtime, recommend, en, dis, ht, ho, hd, hm, toks(name),
                                                                        toks(title) if ht else "", toks(owner) if ho else "", toks(date) if hd else "", toks(multi) if hm else "", toks(f))
            # Cstrcmp semantics: names compare as C strings
            cs = lambda b: bytes(b).split(b"\0")[0]
            should_accept = 1 <= idx <= cnt and cs(stored) == cs(name)

            def chk(o):
                t = o.split()
                if t[0] in ("1", "2"):
                    c.violation("modify-crash", "ModifyDirLite crashes/hangs", {"cases": [line], "got": o[:100]})
                    return None
                if not should_accept:
                    if t[0] != "3" or len(t) > 2:
                        c.violation("modify-stale:%s" % mode, "ModifyDirLite(idx %d of %d, %s) was not refused cleanly (file must stay unchanged): %s" % (idx, cnt, mode, o[:60]), {"cases": [line], "got": o[:200]})
                    return None
                if t[0] != "0":
                    c.violation("modify-refused", "ModifyDirLite(idx %d of %d) with the stored name was refused: %s" % (idx, cnt, o[:40]), {"cases": [line], "got": o[:200]})
                    return None
                new = out_file(o)
                a = (idx - 1) * sz
                if len(new) != len(f) or new[:a] != f[:a] or new[a + sz:] != f[a + sz:] or new[a:a + 28] != f[a:a + 28]:
                    c.violation("modify-frame", "ModifyDirLite(idx %d) changed bytes outside record %d or its stored name" % (idx, idx), {"cases": [line], "got": o[:200]})
                return new
            return kind, ("modify", mode, ht, ho, hd, hm, recommend != 0, mtime > 0), line, chk
        # read
        start = rng.choice([1, cnt, max(1, cnt - 1), cnt + 1, cnt + 3, 0, -2, rng.randrange(1, cnt + 2)])
        n = rng.choice([0, 1, 2, 3, cnt, cnt + 2, 20])
        desc = rng.randrange(2)
        line = "5|%d %d %d|%s" % (start, n, desc, toks(f))

        def chk(o):
            t = o.split()
            if start < 1:
                if t[:2] != ["3", "1"]:
                    c.violation("read-invalid-start", "GetRecords(start %d) did not return ErrInvalidIdx: %s" % (start, o[:40]), {"cases": [line], "got": o[:200]})
                return None
            idxs = []
            i = start
            while len(idxs) < n and 1 <= i <= cnt:
                idxs.append(i); i += -1 if desc else 1
            want = ["0", str(len(idxs))]
            for i in idxs:
                want += [str(i)] + [str(x) for x in f[(i - 1) * sz:i * sz]]
            if t != want:
                c.violation("read-window", "GetRecords(start %d, n %d, %s) on %d records did not return exactly records %s" % (start, n, "desc" if desc else "asc", cnt, idxs),
                            {"cases": [line], "expected": " ".join(want), "got": o[:200]})
            return None
        return "read", ("read", "beyond" if start > cnt else "in" if start >= 1 else "invalid", desc, n == 0, n > cnt), line, chk

    nseq = 60 if thorough else 10
    nsteps = 60 if thorough else 14
    seqs = []
    for sz in STRIDES:
        for s in range(nseq):
            k = rng.choice([0, 0, 1, 2, 3, 5])
            f = []
            for _ in range(k):
                f += rand_rec(rng, sz)
                if sz == 128:
                    f[-128:-100] = rand_name(rng)
            if rng.randrange(4) == 0:
                f += [rng.randrange(256) for _ in range(rng.randrange(1, sz))]        # a torn tail left by an earlier crash
            seqs.append({"sz": sz, "f": f, "orig": recs(f, sz), "touched": set()})
    for step in range(nsteps):
        batch = [gen_step(s["sz"], s["f"]) for s in seqs]
        outs = both([b[2] for b in batch], "operation sequences, step %d" % step)
        c.count(len(batch), "sequence steps")
        for s, (kind, key, line, chk), o in zip(seqs, batch, outs):
            c.cov["distribution"]["op " + kind] = c.cov["distribution"].get("op " + kind, 0) + 1
            c.nontrivial((s["sz"],) + tuple(key) + (status(o),))
            before = s["f"]
            new = chk(o)
            if new is not None:
                # history predicate: records that differ from the previous step are exactly the addressed one
                ob, nb = recs(before, s["sz"]), recs(new, s["sz"])
                changed = [i for i in range(min(len(ob), len(nb))) if ob[i] != nb[i]]
                if len(changed) > 1 or len(nb) < len(ob):
                    c.violation("history-frame", "one %s operation changed records %s / shrank the file from %d to %d records" % (kind, changed, len(ob), len(nb)), {"cases": [line], "got": o[:200]})
                s["f"] = new
    c.sample({"op": "sequence", "stride": seqs[0]["sz"], "final records": len(seqs[0]["f"]) // seqs[0]["sz"], "steps": nsteps})

    # ------------------------------------------------------------ enumerated: every operation x every index class on a 3-record file
    enum = []
    for sz in STRIDES:
        base = sum((rand_rec(rng, sz) for _ in range(3)), [])
        for idx in range(-2, 7):
            rec = rand_rec(rng, sz)
            enum.append((sz, base, "2|%d %d|%s|%s" % (sz, idx, toks(rec), toks(base)), idx, rec))
            enum.append((sz, base, "3|%d %d|%s|%s" % (sz, idx, toks(tag), toks(base)), idx, tag))
    eo = both([e[2] for e in enum], "enumerated substitute/delete x index -2..6")
    c.count(len(enum), "enumerated index classes")
    for (sz, base, line, idx, bs), o in zip(enum, eo):
        want = "3 2" if idx < 0 else "0 " + toks(pwrite(base, idx * sz, bs))
        if o.strip() != want:
            c.violation("enum-frame:%s" % ("neg" if idx < 0 else "in" if idx < 3 else "beyond"), "stride %d index %d: unexpected result" % (sz, idx), {"cases": [line], "expected": want, "got": o[:200]})
        c.nontrivial(("enum", sz, line[0], idx))
    c.cov["exhaustive_parts"].append("substitute and delete-mark at every index -2..6 of a 3-record file, all four strides")

    # every (start, n, direction) window on files of 0..4 records
    win = []
    for cnt in range(5):
        f = sum((rand_rec(rng, 128) for _ in range(cnt)), []) + ([7] * 50 if cnt == 2 else [])
        for start in range(-1, cnt + 3):
            for n in range(0, cnt + 3):
                for desc in (0, 1):
                    win.append((cnt, f, start, n, desc, "5|%d %d %d|%s" % (start, n, desc, toks(f))))
    wo = both([w[5] for w in win], "enumerated GetRecords windows")
    c.count(len(win), "enumerated windows")
    for (cnt, f, start, n, desc, line), o in zip(win, wo):
        if start < 1:
            want = ["3", "1"]
        else:
            idxs, i = [], start
            while len(idxs) < n and 1 <= i <= cnt:
                idxs.append(i); i += -1 if desc else 1
            want = ["0", str(len(idxs))]
            for i in idxs:
                want += [str(i)] + [str(x) for x in f[(i - 1) * 128:i * 128]]
        if o.split() != want:
            c.violation("read-window", "GetRecords(start %d, n %d, %s) on %d records: wrong window" % (start, n, "desc" if desc else "asc", cnt), {"cases": [line], "expected": " ".join(want), "got": o[:200]})
        c.nontrivial(("win", cnt, start, n, desc))
    c.cov["exhaustive_parts"].append("GetRecords for every start -1..count+2, n 0..count+2, both directions, on files of 0..4 records (one with a torn tail)")

    # ------------------------------------------------------------ torn tails: every byte length count*sz + k
    torn_lines, torn_meta = [], []
    for sz in STRIDES:
        base = sum((rand_rec(rng, sz) for _ in range(2)), [])
        rec, rec2 = rand_rec(rng, sz), rand_rec(rng, sz)
        ks = range(sz) if (thorough or sz <= 256) else sorted(set([0, 1, 2, sz - 1, sz - 2, sz // 2] + [rng.randrange(sz) for _ in range(120)]))
        for k in ks:
            torn = base + rec[:k]
            torn_lines += ["6|%d|%s" % (sz, toks(torn)), "1|%d|%s|%s" % (sz, toks(rec2), toks(torn))]
            torn_meta.append((sz, k, base, rec, rec2, torn))
    to = both(torn_lines, "torn tails: count and next append")
    c.count(len(torn_lines), "torn tails")
    if model:
        ml = ["8|%d %d|%s|%s" % (sz, k, toks(rec), toks(base)) for (sz, k, base, rec, rec2, torn) in torn_meta]
        mo = vf.run_model(model, ml)
        bad = [i for i, (m, o) in enumerate(zip(torn_meta, mo)) if o.split() != ["0"] + [str(x) for x in m[5]]]
        if bad:
            c.broken.append({"kind": "correspondence", "where": "crash_append vs truncation", "theorem": "correspondence crash_append (the model's torn file is not the truncated file the harness builds)", "mismatches": len(bad), "examples": [ml[bad[0]][:200]], "log": ""})
    for i, (sz, k, base, rec, rec2, torn) in enumerate(torn_meta):
        oc, oa = to[2 * i], to[2 * i + 1]
        want = "0 3 " + toks(base + rec2)
        if oc.split() != ["0", "2"] or oa.strip() != want:
            c.violation("torn-tail:%s" % STRIDES[sz], "append of %s cut after %d of %d bytes: count %s, next append %s (expected count 2, index 3, both earlier records intact, no leftover)" % (STRIDES[sz], k, sz, oc, oa[:20]),
                        {"cases": [torn_lines[2 * i], torn_lines[2 * i + 1]], "expected": want, "got": [oc, oa[:200]]})
        c.nontrivial(("torn", sz, k))
    c.cov["exhaustive_parts"].append("torn tails at every byte length k of the record for strides 100, 128, 256 (stride 512: every k in the thorough tier, boundary + 120 random k in the quick tier)")

    # ------------------------------------------------------------ cmbbs.PasswdUpdate: whole-record substitute addressed by uid
    pu, pmeta = [], []
    for uid in [1, 2, MAXU, rng.randrange(1, MAXU + 1), rng.randrange(1, MAXU + 1), 0, -1, MAXU + 1]:
        f = [rng.randrange(256) for _ in range(512 * MAXU)]
        rec = rand_rec(rng, 512)
        pu.append("7|512 %d %d|%s|%s" % (MAXU, uid, toks(rec), toks(f))); pmeta.append((uid, f, rec))
    po = both(pu, "cmbbs.PasswdUpdate")
    c.count(len(pu), "PasswdUpdate")
    for (uid, f, rec), line, o in zip(pmeta, pu, po):
        want = "0 " + toks(pwrite(f, 512 * (uid - 1), rec)) if 1 <= uid <= MAXU else "3 3"
        if o.strip() != want:
            c.violation("passwd-update-frame", "PasswdUpdate(uid %d) did not rewrite exactly record %d" % (uid, uid), {"cases": [line], "expected": want, "got": o[:200]})
        c.nontrivial(("pu", uid))


    # ------------------------------------------------------------ long windows on large files (thousands of records)
    def gen_big(cnt, seed):
        """the file go/impl/cmd/implrun/c05.go c05GenRecord builds; returns per record (1-based i at [i-1]) the 128 bytes"""
        out = []
        for i in range(1, cnt + 1):
            name = (b"M.%010d.A.%03X" % (1500000000 + i, i & 0xfff)).ljust(28, b"\0")
            body = b"".join(hashlib.sha256(b"%d/%d/%d" % (seed, i, j)).digest() for j in range(4))[:100]
            out.append(name + body)
        return out

    def run_idxs(cnt, start, n, desc):
        if start > cnt:
            return range(0)
        return range(start, max(start - n, 0), -1) if desc else range(start, min(start + n, cnt + 1))

    big_sizes = [5000, 70000] + ([300000, 1000000] if thorough else [])
    for cnt in big_sizes:
        seed = rng.randrange(1 << 30)
        keyed = [struct.pack("<q", i + 1) + r for i, r in enumerate(gen_big(cnt, seed))]
        pows = [(1 << k) + 1 for k in range(10, 24) if (1 << k) < cnt]
        if cnt <= 5000 or (thorough and cnt <= 70000):
            ns = sorted(set([4095, 4096, 4097, cnt - 1, cnt, cnt + 1, rng.randrange(4098, cnt), rng.randrange(4098, cnt)] + pows))
            asc_starts = [1, 2, cnt - 4096, cnt - 4095, rng.randrange(2, cnt - 4097), cnt]
            desc_starts = [cnt, cnt - 1, 4097, 4096, rng.randrange(4098, cnt), cnt + 1]
        else:
            ns = sorted(set([4097, 65537, cnt, cnt + 1, rng.randrange(4098, cnt)] + ([p for p in pows if p > 65537] if thorough else [])))
            asc_starts = [1, cnt - 4096, rng.randrange(2, cnt - 4097)]
            desc_starts = [cnt, 4097, rng.randrange(4098, cnt)]
        wins = [(start, n, desc) for desc in (0, 1) for start in (desc_starts if desc else asc_starts) for n in ns]
        full_idx = [w for w in wins if cnt <= 5000 or w[1] in (4097, 65537, cnt + 1)]       # index lists against the model
        l14 = ["14|%d %d %d %d|%d" % (cnt, start, n, desc, seed) for (start, n, desc) in wins]
        o14 = vf.run_impl(impl, "C05", l14, deadline_ms=120000)
        c.count(len(l14), "long windows (digest)")
        for (start, n, desc), line, o in zip(wins, l14, o14):
            idxs = run_idxs(cnt, start, n, desc)
            hsh = hashlib.sha256(b"".join(keyed[i - 1] for i in idxs))
            want = "0 %d %d %d %d" % (len(idxs), idxs[0] if len(idxs) else 0, idxs[-1] if len(idxs) else 0, int.from_bytes(hsh.digest(), "big"))
            if o.strip() != want:
                t = o.split()
                c.violation("read-window-long", "GetRecords(start %d, n %d, %s) on a file of %d records returned %s records (first %s, last %s); the requested run is the %d records %s..%s, each with the bytes stored at its index"
                            % (start, n, "desc" if desc else "asc", cnt, t[1] if len(t) > 1 else "?", t[2] if len(t) > 2 else "?", t[3] if len(t) > 3 else "?",
                               len(idxs), idxs[0] if len(idxs) else "-", idxs[-1] if len(idxs) else "-"),
                            {"cases": [line], "expected": want, "got": o[:300]})
            c.nontrivial(("bigwin", cnt, "desc" if desc else "asc", n > 4096, len(idxs) > 4096, len(idxs) == n, start > cnt))
        l13 = ["13|%d %d %d %d|%d" % (cnt, start, n, desc, seed) for (start, n, desc) in full_idx]
        o13 = vf.run_impl(impl, "C05", l13, deadline_ms=120000)
        if model:
            vf.correspond(c, "long windows on %d records: returned indices" % cnt, l13, o13, vf.run_model(model, l13))
        c.count(len(l13), "long windows (indices)")
        for (start, n, desc), line, o in zip(full_idx, l13, o13):
            idxs = run_idxs(cnt, start, n, desc)
            want = " ".join(["0", str(len(idxs))] + [str(i) for i in idxs])
            if o.strip() != want:
                t = o.split()
                c.violation("read-window-long", "GetRecords(start %d, n %d, %s) on a file of %d records returned %s indices, expected the %d consecutive indices of the run" % (start, n, "desc" if desc else "asc", cnt, t[1] if len(t) > 1 else "?", len(idxs)),
                            {"cases": [line], "expected": want, "got": o[:300]})
        c.sample({"op": "long window", "records": cnt, "windows": len(wins), "n values": ns})
        del keyed
    c.cov["exhaustive_parts"].append("GetRecords with n in {4095, 4096, 4097, 2^k+1 (k>=10), count-1, count, count+1} from the first / last / (count-4096)th / random record in both directions on a generated 5 000-record file (index list and contents); a subset on 70 000 records")

    # ------------------------------------------------------------ one process: writes refused by the OS (ENOSPC), then operations on a healthy file
    KIND = {1: "append", 2: "subst", 3: "delete", 4: "modify"}

    def hist_line(sz, f, ops):
        parts = ["12", str(sz), toks(f)]
        for (kind, refused, idx, mtime, en, dis, data) in ops:
            parts += ["%d %d %d %d 0 %d %d" % (kind, refused, idx, mtime, en, dis), toks(data)]
        return "|".join(parts)

    def hist_expect(sz, f, ops):
        """reference: what each step must return and leave. A step during which the OS refuses writes returns its own
        refusal if it has one (then it never reaches the write), otherwise the OS error; nothing changes anywhere"""
        steps = []
        for (kind, refused, idx, mtime, en, dis, data) in ops:
            cnt = len(f) // sz
            if kind == 1:
                st, code, g = 0, cnt + 1, f[:cnt * sz] + list(data)
            elif kind in (2, 3):
                st, code, g = (3, 2, f) if idx < 0 else (0, 0, pwrite(f, idx * sz, data))
            else:
                a = (idx - 1) * sz
                cs = lambda b: bytes(b).split(b"\0")[0]
                if not (1 <= idx <= cnt) or cs(f[a:a + 28]) != cs(data):
                    st, code, g = 3, 1, f
                else:
                    r = f[a:a + sz]
                    if mtime > 0:
                        r[28:32] = list(struct.pack("<I", mtime))
                    r[124] = (r[124] | en) & (255 ^ dis)
                    st, code, g = 0, 0, f[:a] + r + f[a + sz:]
            if refused:
                st, code, g = (3, 4, f) if st == 0 else (st, code, f)
            f = g
            steps.append((st, code, f))
        return steps

    def healthy_op(sz, f, kind):
        cnt = len(f) // sz
        if kind == 1:
            return (1, 0, 0, 0, 0, 0, rand_rec(rng, sz))
        if kind == 2:
            return (2, 0, rng.choice([0, max(0, cnt - 1), rng.randrange(0, cnt + 1)]), 0, 0, 0, rand_rec(rng, sz))
        if kind == 3:
            return (3, 0, rng.choice([0, max(0, cnt - 1), rng.randrange(0, cnt + 1)]), 0, 0, 0, tag)
        idx = rng.randrange(1, cnt + 1) if cnt else 1
        name = f[(idx - 1) * sz:(idx - 1) * sz + 28] if cnt else rand_name(rng)
        if rng.randrange(5) == 0:
            name = rand_name(rng)                                                  # a stale pair: refused, nothing written
        return (4, 0, idx, rng.choice([0, 1, rng.randrange(1, 2 ** 31)]), rng.choice([0, 1, 8, rng.randrange(256)]), rng.choice([0, 2, 64, rng.randrange(256)]), name)

    def refused_op(sz, f, kind, where=None):
        """the same generators, run while the OS refuses writes: on a copy of the file (1) or on the file itself (2)"""
        o = list(healthy_op(sz, f, kind))
        o[1] = where or rng.choice([1, 2])
        if kind in (2, 3) and rng.randrange(3) == 0:
            o[2] = rng.choice([len(f) // sz + 1, len(f) // sz + 2, -1])        # beyond the end / refused by the seek itself
        return tuple(o)

    def new_file(sz, k):
        f = []
        for _ in range(k):
            f += rand_rec(rng, sz)
            if sz == 128:
                f[-128:-100] = rand_name(rng)
        return f

    hists = []                                                    # (sz, f, ops, label)
    # every (refused operation, where, next operation) triple, every stride; then an append (so that whatever the
    # refused write left behind has a second chance to show, and the process is clean for the next case)
    for sz in STRIDES:
        kinds = (1, 2, 3) + ((4,) if sz == 128 else ())
        for rk in kinds:
            for where in (1, 2):
                for hk in kinds:
                    f = new_file(sz, 4)
                    ops, g = [], list(f)
                    for mk in (lambda g: refused_op(sz, g, rk, where), lambda g: healthy_op(sz, g, hk), lambda g: healthy_op(sz, g, 1)):
                        ops.append(mk(g)); g = hist_expect(sz, g, [ops[-1]])[-1][2]
                    hists.append((sz, f, ops, "pair"))
    # random histories with refused writes sprinkled in
    for sz in STRIDES:
        for _ in range(40 if thorough else 6):
            f = new_file(sz, rng.choice([0, 1, 2, 3, 5]))
            if rng.randrange(4) == 0:
                f += [rng.randrange(256) for _ in range(rng.randrange(1, sz))]
            ops, g = [], list(f)
            for step in range(rng.randrange(4, 30 if thorough else 9)):
                if rng.randrange(3) == 0:
                    ops.append(refused_op(sz, g, rng.choice([1, 2, 3] + ([4] if sz == 128 else []))))
                else:
                    ops.append(healthy_op(sz, g, rng.choice([1, 1, 2, 3] + ([4, 4] if sz == 128 else []))))
                g = hist_expect(sz, g, [ops[-1]])[-1][2]
            if not any(o[1] for o in ops):
                ops.insert(rng.randrange(len(ops)), refused_op(sz, f, rng.choice([1, 2, 3])))
            ops.append(healthy_op(sz, g, 1))
            hists.append((sz, f, ops, "random"))
    # ---- several goroutines of one process, each on a record file of its own (op 16; validation only): concurrent requests on
    # different boards. The driver takes the answer every history gives alone (status, code and whole file after each step),
    # then runs them all at once, again and again: every answer must be the sequential one. (An implementation that stages a
    # record or an offset in package-level state passes every sequential history.) Healthy steps only.
    conc_lines = []
    for _ in range(30 if thorough else 6):
        parts, ns = [], []
        for sz in rng.sample(sorted(STRIDES), len(STRIDES)):
            f = new_file(sz, rng.choice([0, 1, 3, 5]))
            ops, g = [], list(f)
            for step in range(rng.randrange(4, 10)):
                ops.append(healthy_op(sz, g, rng.choice([1, 1, 2, 3] + ([4, 4] if sz == 128 else []))))
                g = hist_expect(sz, g, [ops[-1]])[-1][2]
            hline = hist_line(sz, f, ops)
            ns.append(len(hline.split("|")))
            parts.append(hline)
        conc_lines.append("16 %d %s|" % (1500 if thorough else 400, " ".join(map(str, ns))) + "|".join(parts))
    conc_out = vf.run_impl(impl, "C05", conc_lines, deadline_ms=120000)
    c.count(len(conc_lines), "concurrent batches (one goroutine per record file)")
    for line, o in zip(conc_lines, conc_out):
        t = o.split()
        if t[:1] == ["7"]:
            continue
        if t[:1] != ["0"]:
            c.violation("concurrent-files-status", "histories on different record files by goroutines of one process: the driver ends with status %s" % " ".join(t[:2]), {"cases": [line], "expected": "0 0 -1 -1", "got": o[:300]})
        elif t[1] != "0":
            c.violation("concurrent-files-differ", "operations on %d DIFFERENT record files by %d goroutines of one process at once: %s of the histories' answers (status, returned index, whole file after every step) "
                        "are not what the same history answers alone (first: goroutine %s, round %s)" % (len(line.split("|")[0].split()) - 2, len(line.split("|")[0].split()) - 2, t[1], t[2], t[3]),
                        {"cases": [line], "expected": "0 0 -1 -1", "got": o[:300]})
        else:
            c.nontrivial(("conc-files", line[:50]))

    hl = [hist_line(sz, f, ops) for (sz, f, ops, _) in hists]
    ho = both(hl, "histories with refused writes (one process)")
    c.count(len(hl), "histories with refused writes")
    for (sz, f, ops, label), line, o in zip(hists, hl, ho):
        steps = hist_expect(sz, f, ops)
        want = "0 " + " ".join("%d %d %d %s" % (st, code, len(g), toks(g)) for (st, code, g) in steps)
        want = " ".join(want.split())
        if " ".join(o.split()) != want:
            # locate the first step that differs
            t, pos, where = o.split(), 1, "the result could not be parsed (%s)" % o[:30]
            for k, (st, code, g) in enumerate(steps):
                if len(t) < pos + 3 or not t[pos + 2].isdigit():
                    break
                n = int(t[pos + 2])
                got = (t[pos], t[pos + 1], t[pos + 3:pos + 3 + n])
                if got != (str(st), str(code), [str(x) for x in g]):
                    prev = [KIND[q[0]] for q in ops[:k] if q[1]]
                    where = ("step %d (%s%s, %s) returned %s %s and left a file of %d bytes; expected %d %d and %d bytes (%d records)%s"
                             % (k + 1, "refused " if ops[k][1] else "", KIND[ops[k][0]], STRIDES[sz], got[0], got[1], n, st, code, len(g), len(g) // sz,
                                "; earlier in this process the OS refused the write of: " + ", ".join(prev) if prev else ""))
                    break
                pos += 3 + n
            c.violation("after-refused-write", "history in one process with writes refused by the OS (EFBIG): " + where, {"cases": [line], "expected": want, "got": o[:300]})
        for k, q in enumerate(ops[:-1]):
            if q[1]:
                dk = "refused %s -> %s" % (KIND[q[0]], "OS error" if steps[k][:2] == (3, 4) else "own refusal %d %d" % steps[k][:2])
                c.cov["distribution"][dk] = c.cov["distribution"].get(dk, 0) + 1
                c.nontrivial(("refused", sz, KIND[q[0]], q[1], steps[k][:2], KIND[ops[k + 1][0]], ops[k + 1][1], label))
    c.cov["exhaustive_parts"].append("every triple (operation during which the OS refuses writes: append/substitute/delete-mark, ModifyDirLite for .DIR) x (on the file itself / on another file) x (next operation of the same process) for all four strides, whole file compared after every step")
    c.sample({"op": "history with refused writes", "stride": hists[-1][0], "steps": [("refused " if q[1] else "") + KIND[q[0]] for q in hists[-1][2]]})

    # ------------------------------------------------------------ offsets at and beyond 2^31 / 2^32 bytes: sparse files
    # The file is (size, {slot: bytes}); the driver creates it sparse (a few KiB on disk), runs the real function and lists
    # the whole file again from the data extents the file system reports. Reference below: a write of bs at slot q replaces
    # the first len(bs) bytes of slot q and nothing else; the size becomes max(size, q*sz+len(bs)).
    def trim(b):
        b = list(b)
        while b and b[-1] == 0:
            b.pop()
        return b

    def sp_line(sz, kind, idx, n, desc, mtime, L, data, marks):
        parts = ["15", "%d %d %d %d %d %d" % (sz, kind, idx, n, desc, mtime), str(L), toks(data)]
        for q in sorted(marks):
            parts += [str(q), toks(marks[q])]
        return "|".join(parts)

    def sp_listing(L, marks):
        live = [(q, trim(marks[q])) for q in sorted(marks)]
        live = [(q, v) for q, v in live if v]
        return "%d %d" % (L, len(live)) + "".join(" %d %d %s" % (q, len(v), toks(v)) for q, v in live)

    def sp_write(sz, L, marks, q, bs):
        m = dict(marks)
        old = list(m.get(q, []))
        m[q] = list(bs) + old[len(bs):]
        return max(L, q * sz + len(bs)), m

    def sp_expect(sz, kind, idx, n, desc, mtime, L, data, marks):
        cnt = L // sz
        if kind == 1:
            L2, m2 = sp_write(sz, L, marks, cnt, data)
            return "0 %d %s" % (cnt + 1, sp_listing(L2, m2))
        if kind in (2, 3):
            if idx < 0:
                return "3 2 " + sp_listing(L, marks)
            L2, m2 = sp_write(sz, L, marks, idx, data)
            return "0 0 " + sp_listing(L2, m2)
        if kind == 4:
            cs = lambda b: bytes(b).split(b"\0")[0]
            r = list(marks.get(idx - 1, [])) + [0] * sz
            r = r[:sz]
            if L < sz * idx or idx < 1 or cs(r[:28]) != cs(data):
                return "3 %d %s" % (1 if (L < sz * idx or idx >= 1) else 2, sp_listing(L, marks))
            if mtime > 0:
                r[28:32] = list(struct.pack("<I", mtime))
            L2, m2 = sp_write(sz, L, marks, idx - 1, r)
            return "0 0 " + sp_listing(L2, m2)
        if kind == 5:
            if idx < 1:
                return "3 1"
            idxs, i = [], idx
            while len(idxs) < n and 1 <= i <= cnt:
                idxs.append(i); i += -1 if desc else 1
            out = ["0", str(len(idxs))]
            for i in idxs:
                out += [str(i)] + [str(x) for x in (list(marks.get(i - 1, [])) + [0] * sz)[:sz]]
            return " ".join(out)
        return "0 %d" % cnt

    SPK = {1: "append", 2: "substitute", 3: "delete", 4: "modify", 5: "read", 6: "count"}
    sp_cases = []                                                   # (line, expected, key, description)
    for sz in STRIDES:
        qs = set()
        for T in (1 << 31, 1 << 32, 1 << 33):
            q0 = -(-T // sz)                                        # first slot whose offset is >= T
            qs.update([q0 - 1, q0, q0 + 1, q0 + rng.randrange(2, 1 << 20)])
        qs.update([1 << 23, 1 << 24, (1 << 24) + 1, 1 << 25, (1 << 31) - 8, rng.randrange(1 << 24, (1 << 31) - 8)])
        for q in sorted(qs):
            off = q * sz
            cls = "below-2^31" if off < (1 << 31) else "2^31..2^32" if off < (1 << 32) else ">=2^32"
            near = sorted(set(x for x in (0, 1, (off % (1 << 32)) // sz, (off % (1 << 31)) // sz, ((off + sz) % (1 << 32)) // sz, q - 1, q, q + 1, q + 2) if 0 <= x <= q + 2))

            def marks_for(slots_, last):
                m = {}
                for x in slots_:
                    if x <= last:
                        m[x] = rand_rec(rng, sz)
                        if sz == 128:
                            m[x][:28] = rand_name(rng)
                return m
            big_L = (q + 3) * sz + rng.choice([0, 0, rng.randrange(1, sz)])
            big = marks_for(near, q + 2)
            small_L = 3 * sz
            small = marks_for([0, 1, 2], 2)
            rec = rand_rec(rng, sz)
            todo = [(2, q, 0, 0, 0, big_L, rec, big, "inside a file of %d records" % (big_L // sz)),
                    (2, q, 0, 0, 0, small_L, rec, small, "beyond the end of a 3-record file"),
                    (3, q, 0, 0, 0, big_L, tag, big, "inside a file of %d records" % (big_L // sz)),
                    (3, q, 0, 0, 0, small_L, tag, small, "beyond the end of a 3-record file"),
                    (6, 0, 0, 0, 0, big_L, [], big, "file of %d records" % (big_L // sz))]
            # append: the file ends at slot q (aligned or with a torn tail): the record must land at slot q, index q+1
            aL = q * sz + rng.choice([0, rng.randrange(1, sz)])
            am = marks_for([x for x in near if x < q], q - 1)
            if aL % sz:
                am[q] = rand_rec(rng, sz)[:aL % sz]
            todo.append((1, 0, 0, 0, 0, aL, rec, am, "file of %d records%s" % (q, " and a torn tail" if aL % sz else "")))
            if sz == 128:
                for desc in (0, 1):
                    todo.append((5, q + 1 if not desc else q + 2, 3, desc, 0, big_L, [], big, "file of %d records" % (big_L // sz)))
                todo.append((5, q + 3, 5, 0, 0, big_L, [], big, "last record of %d" % (big_L // sz)))
                mt = rng.randrange(1, 2 ** 31)
                todo.append((4, q + 1, 0, 0, mt, big_L, big[q][:28], big, "stored name"))
                todo.append((4, q + 1, 0, 0, mt, big_L, rand_name(rng), big, "stale name"))
                todo.append((4, q + 4, 0, 0, mt, big_L, big[q][:28], big, "index beyond the file"))
            for (kind, idx, n, desc, mtime, L, data, marks, what) in todo:
                line = sp_line(sz, kind, idx, n, desc, mtime, L, data, marks)
                want = sp_expect(sz, kind, idx, n, desc, mtime, L, data, marks)
                sp_cases.append((line, want, "large-offset:%s:%s" % (SPK[kind], cls),
                                 "%s (%s, stride %d) at record index %d = byte offset %d (%s), %s" % (SPK[kind], STRIDES[sz], sz, idx if kind in (2, 3, 4, 5) else L // sz, (idx if kind in (2, 3) else idx - 1 if kind in (4, 5) else L // sz) * sz, cls, what),
                                 (sz, SPK[kind], cls, what.split(" ")[0], L % sz != 0)))
    spl = [x[0] for x in sp_cases]
    spo = vf.run_impl(impl, "C05", spl, deadline_ms=120000)
    if model:
        vf.correspond(c, "sparse files: offsets at and beyond 2^31 / 2^32 bytes", spl, spo, vf.run_model(model, spl))
    c.count(len(spl), "sparse large-offset cases")
    for (line, want, key, desc_, nt), o in zip(sp_cases, spo):
        if " ".join(o.split()) != want:
            t, w = o.split(), want.split()
            c.violation(key, "%s: the whole file afterwards (size, every slot holding a non-zero byte) or the result is not the expected one: got status/result %s, size %s, %s live slots; expected %s, size %s, %s live slots - only the addressed record may change, at byte offset index*stride computed in 64 bits"
                        % (desc_, t[:2], t[2] if len(t) > 2 else "-", t[3] if len(t) > 3 else "-", w[:2], w[2] if len(w) > 2 else "-", w[3] if len(w) > 3 else "-"),
                        {"cases": [line], "expected": want[:400], "got": o[:400]})
        c.nontrivial(("sparse",) + nt)
    c.cov["exhaustive_parts"].append("for each of the four strides: substitute / delete-mark / append / count (+ GetRecords asc/desc and ModifyDirLite for .DIR) at the record whose byte offset is the last below / first at / first above 2^31, 2^32 and 2^33, at index 2^23, 2^24, 2^24+1, 2^25, 2^31-8 and random ones, inside a sparse file and beyond the end of a 3-record file; whole file listed afterwards")
    c.sample({"op": "sparse large offset", "cases": len(spl), "largest file": max(int(l.split("|")[2]) for l in spl)})

    c.finish(rule="sequences: PRNG(seed) mixes of append/substitute/delete/count (+modify/read for .DIR) on files of 0-5 records with optional torn tail, indices from {first,last,random,count,beyond,negative}, stepped with whole-file comparison; "
                  "enumerations: index -2..6 x {substitute, delete} x 4 strides, all GetRecords windows on 0..4 records, torn tails at every byte; long windows: n around 4096 / 2^k+1 / count on generated files of 5 000 and 70 000 records (thorough: 300 000, 1 000 000), starts first/last/(count-4096)/random, both directions; refused writes: every (refused op, next op) pair per stride + PRNG(seed) histories with refused ops at random positions; sparse: per stride the slots around byte offsets 2^31 / 2^32 / 2^33, index 2^23 / 2^24 / 2^24+1 / 2^25 / 2^31-8 and PRNG(seed) ones x {substitute, delete inside and beyond a small file, append aligned / torn, count, .DIR: read asc/desc, modify stored/stale/beyond}; non-trivial = distinct (stride, operation, index class, option mix, result class) or distinct enumerated point",
             assumptions=["concurrent requests on different files (op 16): that the record-file operations share no state between goroutines of one process is validated by a parallel run (one goroutine per file, every answer must be the one the history gives alone), not proved; a fixed number of overlapping calls finds state that is held across a system call (tried: the record staged in a package-level variable) but can miss a window of two adjacent statements (tried: the offset staged that way was not seen); on code without shared state no schedule can produce a differing answer, so the clean verdict cannot flip", "the kernel writes the bytes it is given at the offset it is given (pwrite semantics incl. zero-filled holes are part of the model, observed, not verified)",
                          "locks (flock, range lock) are not part of this property; single-process runs",
                          "the delete tag is read from the build (ptttype.FN_SAFEDEL, a configurable string) and fed to the model",
                          "long windows: the file is generated from (count, seed) by the same rule in the driver and in the check (sha256 stream); contents are compared by a sha256 digest over (index, 128 record bytes) of everything returned, index lists literally; n is kept <= count+1 (make([]T,0,n) with n in the billions is an allocation question, not this property)",
                          "a write the OS refuses is produced with RLIMIT_FSIZE = 0 and SIGXFSZ ignored for the duration of one call (open, flock, range lock, lseek, reads succeed; write(2) returns EFBIG - observed: such a step must report that error unless it refuses by itself first); other causes (ENOSPC, EBADF, EIO) are assumed to take the same path through types.BinaryWrite; a write that is cut short by the OS after some bytes is the torn-tail part, not this one",
                          "GetRecords with n < 0 panics in make(); modelled as Crash, not generated (callers pass n >= 0)",
                          "sparse files: created with ftruncate + a few pwrite calls in the driver's scratch directory; afterwards every data extent reported by lseek(SEEK_DATA/SEEK_HOLE) is read and every stride-sized slot with a non-zero byte is listed (the file system is trusted to report all extents that hold data; holes read as zeros) - so a write landing ANYWHERE in the file (a wrapped offset near the head, a truncated offset) shows; the theorem part is that the sparse model equals the byte-list model (C05_sparse_*), the validation part is that the Go code computes index*stride without wrapping, observed for the four strides at offsets just below/at/above 2^31, 2^32, 2^33 and up to 2^40, indices up to 2^31-8",
                          "files of 2^31 records and more cannot be addressed by the int32 index types (SortIdx, SortIdxInStore) and are not generated"])


if __name__ == "__main__":
    main()
