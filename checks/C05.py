#!/usr/bin/env python3
"""C05 — record files: proofs in coq/Props/C05.v; random and enumerated operation sequences on scratch files for
the four record types in use through the real functions, whole-file comparison with the model after every step,
frame predicates on the implementation's own output, torn tails at every byte length."""
import os, sys
sys.path.insert(0, os.path.join(os.path.dirname(os.path.abspath(__file__)), "..", "lib"))
import vf

STRIDES = {100: "PostLog", 128: "FileHeaderRaw", 256: "BoardHeaderRaw", 512: "UserecRaw"}
BOOL_BYTES = {512: (270, 273)}          # UserecRaw.Over18 / Invisible: a real value re-encodes a bool as 0/1
MAXU = 50


def toks(bs):
    return " ".join(str(b) for b in bs)


def rand_rec(rng, sz):
    r = [rng.randrange(256) for _ in range(sz)]
    for p in BOOL_BYTES.get(sz, ()):
        r[p] = rng.randrange(2)
    return r


def rand_name(rng):
    n = list(b"M.%010d.A.%03X" % (rng.randrange(10 ** 9, 2 ** 31), rng.randrange(4096)))
    return n + [0] * (28 - len(n))


def pwrite(f, off, bs):
    return f[:off] + [0] * max(0, off - len(f)) + list(bs) + f[off + len(bs):]


def recs(f, sz):
    return [tuple(f[i * sz:(i + 1) * sz]) for i in range(len(f) // sz)]


def main():
    c = vf.Check("C05")
    rng = c.rng
    thorough = c.tier == "thorough"
    c.prove()
    model_ok = c.model_ok()
    impl = vf.build_impl()
    model = vf.build_model("C05") if model_ok else None
    tag = [int(x) for x in vf.run_impl(impl, "C05", ["10"])[0].split()[1:]]       # the delete tag of this build (FN_SAFEDEL)

    def both(lines, label):
        io = vf.run_impl(impl, "C05", lines)
        if model:
            vf.correspond(c, label, lines, io, vf.run_model(model, lines))
        return io

    def status(o):
        return o.split()[0]

    def out_file(o):
        return [int(x) for x in o.split()[1:]]

    # ------------------------------------------------------------ operation sequences, all strides, stepped in lock-step
    def gen_step(sz, f):
        """returns (kind, case line, checker(output) -> new file or None)"""
        cnt = len(f) // sz
        kinds = ["append", "append", "subst", "subst", "delete", "count"] + (["modify", "modify", "read", "read"] if sz == 128 else [])
        kind = rng.choice(kinds)
        if kind == "append":
            rec = rand_rec(rng, sz)
            line = "1|%d|%s|%s" % (sz, toks(rec), toks(f))

            def chk(o):
                t = o.split()
                want_f = f[:cnt * sz] + rec
                if t[0] != "0" or int(t[1]) != cnt + 1 or [int(x) for x in t[2:]] != want_f:
                    c.violation("append:%s" % STRIDES[sz], "AppendRecord on a %d-byte %s file (%d records) returned %s and a file of %d bytes; expected index %d and the first %d bytes unchanged followed by the record"
                                % (len(f), STRIDES[sz], cnt, t[:2], len(t) - 2, cnt + 1, cnt * sz), {"cases": [line], "expected": "0 %d %s" % (cnt + 1, toks(want_f)), "got": o[:200]})
                return [int(x) for x in t[2:]] if t[0] == "0" else None
            return kind, ("append", "tail" if len(f) % sz else "aligned"), line, chk
        if kind in ("subst", "delete"):
            idx = rng.choice([0, max(0, cnt - 1), rng.randrange(0, cnt + 1), cnt, cnt + rng.randrange(1, 3), -1, -rng.randrange(1, 5)])
            bs = rand_rec(rng, sz) if kind == "subst" else tag
            line = ("2|%d %d|%s|%s" if kind == "subst" else "3|%d %d|%s|%s") % (sz, idx, toks(bs), toks(f))
            cls = "neg" if idx < 0 else "in" if idx < cnt else "at-end" if idx == cnt else "beyond"

            def chk(o):
                t = o.split()
                if idx < 0:
                    if t[0] != "3":
                        c.violation("%s-negative" % kind, "%s with index %d was not refused: %s" % (kind, idx, o[:40]), {"cases": [line], "got": o[:200]})
                    return None
                new = out_file(o) if t[0] == "0" else None
                want = pwrite(f, idx * sz, bs)
                if new != want:
                    # in range this is the frame condition; out of range it is the documented growth (existing bytes kept)
                    c.violation("%s-frame:%s" % (kind, cls), "%s(%s, index %d) on %d records changed bytes other than [%d,%d)" % (kind, STRIDES[sz], idx, cnt, idx * sz, idx * sz + len(bs)),
                                {"cases": [line], "expected": "0 " + toks(want), "got": o[:200]})
                return new
            return kind, (kind, cls), line, chk
        if kind == "count":
            line = "6|%d|%s" % (sz, toks(f))

            def chk(o):
                if o.split() != ["0", str(cnt)]:
                    c.violation("count", "GetNumRecords of a %d-byte file with stride %d = %s" % (len(f), sz, o), {"cases": [line], "expected": "0 %d" % cnt, "got": o})
                return None
            return kind, ("count", len(f) % sz != 0), line, chk
        if kind == "modify":
            mode = rng.choice(["ok", "ok", "ok", "stale-name", "stale-idx", "idx0", "beyond", "neg"])
            idx = {"ok": rng.randrange(1, cnt + 1) if cnt else 1, "stale-name": rng.randrange(1, cnt + 1) if cnt else 1,
                   "stale-idx": rng.randrange(1, cnt + 1) if cnt else 1, "idx0": 0, "beyond": cnt + rng.randrange(1, 3), "neg": -rng.randrange(1, 4)}[mode]
            if cnt == 0 and mode in ("ok", "stale-name", "stale-idx"):
                mode = "beyond"
            stored = f[(idx - 1) * sz:(idx - 1) * sz + 28] if 1 <= idx <= cnt else rand_name(rng)
            name = list(stored)
            if mode == "stale-name":
                cut = name.index(0) if 0 in name else 28
                if cut == 0:
                    name[0] = 65                                     # stored name empty: any non-empty name is stale
                else:
                    p = rng.randrange(cut); name[p] = (name[p] % 255) + 1 if (name[p] % 255) + 1 != name[p] else 1
            elif mode == "stale-idx" and cnt >= 2:
                other = rng.choice([i for i in range(1, cnt + 1) if i != idx])
                name = f[(other - 1) * sz:(other - 1) * sz + 28]
                if recs(f, 128)[other - 1][:28] == recs(f, 128)[idx - 1][:28]:
                    mode = "ok"
            elif mode == "stale-idx":
                mode = "ok"
            mtime = rng.choice([0, 0, -5, 1, rng.randrange(1, 2 ** 31)])
            recommend = rng.choice([0, 0, 1, -1, 5, -7, 100, -100, 127, -128, rng.randrange(-128, 128)])
            en, dis = rng.choice([0, 0, 1, 8, 255, rng.randrange(256)]), rng.choice([0, 0, 2, 64, 255, rng.randrange(256)])
            ht, ho, hd, hm = (rng.randrange(2) for _ in range(4))
            title = [rng.choice([0, 65, 200])] + [rng.randrange(256) for _ in range(64)]
            owner = [rng.choice([0, 66])] + [rng.randrange(256) for _ in range(13)]
            date = [rng.choice([0, 49])] + [rng.randrange(256) for _ in range(5)]
            multi = [rng.randrange(256) for _ in range(rng.choice([0, 1, 4, 4, 6]))]
            line = "4|%d %d %d %d %d %d %d %d %d|%s|%s|%s|%s|%s|%s" % (idx, mtime, recommend, en, dis, ht, ho, hd, hm, toks(name),
                                                                        toks(title) if ht else "", toks(owner) if ho else "", toks(date) if hd else "", toks(multi) if hm else "", toks(f))
            # Cstrcmp semantics: names compare as C strings
            cs = lambda b: bytes(b).split(b"\0")[0]
            should_accept = 1 <= idx <= cnt and cs(stored) == cs(name)

            def chk(o):
                t = o.split()
                if t[0] in ("1", "2"):
                    c.violation("modify-crash", "ModifyDirLite crashes/hangs", {"cases": [line], "got": o[:100]})
                    return None
                if not should_accept:
                    if t[0] != "3" or len(t) > 2:
                        c.violation("modify-stale:%s" % mode, "ModifyDirLite(idx %d of %d, %s) was not refused cleanly (file must stay unchanged): %s" % (idx, cnt, mode, o[:60]), {"cases": [line], "got": o[:200]})
                    return None
                if t[0] != "0":
                    c.violation("modify-refused", "ModifyDirLite(idx %d of %d) with the stored name was refused: %s" % (idx, cnt, o[:40]), {"cases": [line], "got": o[:200]})
                    return None
                new = out_file(o)
                a = (idx - 1) * sz
                if len(new) != len(f) or new[:a] != f[:a] or new[a + sz:] != f[a + sz:] or new[a:a + 28] != f[a:a + 28]:
                    c.violation("modify-frame", "ModifyDirLite(idx %d) changed bytes outside record %d or its stored name" % (idx, idx), {"cases": [line], "got": o[:200]})
                return new
            return kind, ("modify", mode, ht, ho, hd, hm, recommend != 0, mtime > 0), line, chk
        # read
        start = rng.choice([1, cnt, max(1, cnt - 1), cnt + 1, cnt + 3, 0, -2, rng.randrange(1, cnt + 2)])
        n = rng.choice([0, 1, 2, 3, cnt, cnt + 2, 20])
        desc = rng.randrange(2)
        line = "5|%d %d %d|%s" % (start, n, desc, toks(f))

        def chk(o):
            t = o.split()
            if start < 1:
                if t[:2] != ["3", "1"]:
                    c.violation("read-invalid-start", "GetRecords(start %d) did not return ErrInvalidIdx: %s" % (start, o[:40]), {"cases": [line], "got": o[:200]})
                return None
            idxs = []
            i = start
            while len(idxs) < n and 1 <= i <= cnt:
                idxs.append(i); i += -1 if desc else 1
            want = ["0", str(len(idxs))]
            for i in idxs:
                want += [str(i)] + [str(x) for x in f[(i - 1) * sz:i * sz]]
            if t != want:
                c.violation("read-window", "GetRecords(start %d, n %d, %s) on %d records did not return exactly records %s" % (start, n, "desc" if desc else "asc", cnt, idxs),
                            {"cases": [line], "expected": " ".join(want), "got": o[:200]})
            return None
        return "read", ("read", "beyond" if start > cnt else "in" if start >= 1 else "invalid", desc, n == 0, n > cnt), line, chk

    nseq = 60 if thorough else 10
    nsteps = 60 if thorough else 14
    seqs = []
    for sz in STRIDES:
        for s in range(nseq):
            k = rng.choice([0, 0, 1, 2, 3, 5])
            f = []
            for _ in range(k):
                f += rand_rec(rng, sz)
                if sz == 128:
                    f[-128:-100] = rand_name(rng)
            if rng.randrange(4) == 0:
                f += [rng.randrange(256) for _ in range(rng.randrange(1, sz))]        # a torn tail left by an earlier crash
            seqs.append({"sz": sz, "f": f, "orig": recs(f, sz), "touched": set()})
    for step in range(nsteps):
        batch = [gen_step(s["sz"], s["f"]) for s in seqs]
        outs = both([b[2] for b in batch], "operation sequences, step %d" % step)
        c.count(len(batch), "sequence steps")
        for s, (kind, key, line, chk), o in zip(seqs, batch, outs):
            c.cov["distribution"]["op " + kind] = c.cov["distribution"].get("op " + kind, 0) + 1
            c.nontrivial((s["sz"],) + tuple(key) + (status(o),))
            before = s["f"]
            new = chk(o)
            if new is not None:
                # history predicate: records that differ from the previous step are exactly the addressed one
                ob, nb = recs(before, s["sz"]), recs(new, s["sz"])
                changed = [i for i in range(min(len(ob), len(nb))) if ob[i] != nb[i]]
                if len(changed) > 1 or len(nb) < len(ob):
                    c.violation("history-frame", "one %s operation changed records %s / shrank the file from %d to %d records" % (kind, changed, len(ob), len(nb)), {"cases": [line], "got": o[:200]})
                s["f"] = new
    c.sample({"op": "sequence", "stride": seqs[0]["sz"], "final records": len(seqs[0]["f"]) // seqs[0]["sz"], "steps": nsteps})

    # ------------------------------------------------------------ enumerated: every operation x every index class on a 3-record file
    enum = []
    for sz in STRIDES:
        base = sum((rand_rec(rng, sz) for _ in range(3)), [])
        for idx in range(-2, 7):
            rec = rand_rec(rng, sz)
            enum.append((sz, base, "2|%d %d|%s|%s" % (sz, idx, toks(rec), toks(base)), idx, rec))
            enum.append((sz, base, "3|%d %d|%s|%s" % (sz, idx, toks(tag), toks(base)), idx, tag))
    eo = both([e[2] for e in enum], "enumerated substitute/delete x index -2..6")
    c.count(len(enum), "enumerated index classes")
    for (sz, base, line, idx, bs), o in zip(enum, eo):
        want = "3 2" if idx < 0 else "0 " + toks(pwrite(base, idx * sz, bs))
        if o.strip() != want:
            c.violation("enum-frame:%s" % ("neg" if idx < 0 else "in" if idx < 3 else "beyond"), "stride %d index %d: unexpected result" % (sz, idx), {"cases": [line], "expected": want, "got": o[:200]})
        c.nontrivial(("enum", sz, line[0], idx))
    c.cov["exhaustive_parts"].append("substitute and delete-mark at every index -2..6 of a 3-record file, all four strides")

    # every (start, n, direction) window on files of 0..4 records
    win = []
    for cnt in range(5):
        f = sum((rand_rec(rng, 128) for _ in range(cnt)), []) + ([7] * 50 if cnt == 2 else [])
        for start in range(-1, cnt + 3):
            for n in range(0, cnt + 3):
                for desc in (0, 1):
                    win.append((cnt, f, start, n, desc, "5|%d %d %d|%s" % (start, n, desc, toks(f))))
    wo = both([w[5] for w in win], "enumerated GetRecords windows")
    c.count(len(win), "enumerated windows")
    for (cnt, f, start, n, desc, line), o in zip(win, wo):
        if start < 1:
            want = ["3", "1"]
        else:
            idxs, i = [], start
            while len(idxs) < n and 1 <= i <= cnt:
                idxs.append(i); i += -1 if desc else 1
            want = ["0", str(len(idxs))]
            for i in idxs:
                want += [str(i)] + [str(x) for x in f[(i - 1) * 128:i * 128]]
        if o.split() != want:
            c.violation("read-window", "GetRecords(start %d, n %d, %s) on %d records: wrong window" % (start, n, "desc" if desc else "asc", cnt), {"cases": [line], "expected": " ".join(want), "got": o[:200]})
        c.nontrivial(("win", cnt, start, n, desc))
    c.cov["exhaustive_parts"].append("GetRecords for every start -1..count+2, n 0..count+2, both directions, on files of 0..4 records (one with a torn tail)")

    # ------------------------------------------------------------ torn tails: every byte length count*sz + k
    torn_lines, torn_meta = [], []
    for sz in STRIDES:
        base = sum((rand_rec(rng, sz) for _ in range(2)), [])
        rec, rec2 = rand_rec(rng, sz), rand_rec(rng, sz)
        ks = range(sz) if (thorough or sz <= 256) else sorted(set([0, 1, 2, sz - 1, sz - 2, sz // 2] + [rng.randrange(sz) for _ in range(120)]))
        for k in ks:
            torn = base + rec[:k]
            torn_lines += ["6|%d|%s" % (sz, toks(torn)), "1|%d|%s|%s" % (sz, toks(rec2), toks(torn))]
            torn_meta.append((sz, k, base, rec, rec2, torn))
    to = both(torn_lines, "torn tails: count and next append")
    c.count(len(torn_lines), "torn tails")
    if model:
        ml = ["8|%d %d|%s|%s" % (sz, k, toks(rec), toks(base)) for (sz, k, base, rec, rec2, torn) in torn_meta]
        mo = vf.run_model(model, ml)
        bad = [i for i, (m, o) in enumerate(zip(torn_meta, mo)) if o.split() != ["0"] + [str(x) for x in m[5]]]
        if bad:
            c.broken.append({"kind": "correspondence", "where": "crash_append vs truncation", "theorem": "correspondence crash_append (the model's torn file is not the truncated file the harness builds)", "mismatches": len(bad), "examples": [ml[bad[0]][:200]], "log": ""})
    for i, (sz, k, base, rec, rec2, torn) in enumerate(torn_meta):
        oc, oa = to[2 * i], to[2 * i + 1]
        want = "0 3 " + toks(base + rec2)
        if oc.split() != ["0", "2"] or oa.strip() != want:
            c.violation("torn-tail:%s" % STRIDES[sz], "append of %s cut after %d of %d bytes: count %s, next append %s (expected count 2, index 3, both earlier records intact, no leftover)" % (STRIDES[sz], k, sz, oc, oa[:20]),
                        {"cases": [torn_lines[2 * i], torn_lines[2 * i + 1]], "expected": want, "got": [oc, oa[:200]]})
        c.nontrivial(("torn", sz, k))
    c.cov["exhaustive_parts"].append("torn tails at every byte length k of the record for strides 100, 128, 256 (stride 512: every k in the thorough tier, boundary + 120 random k in the quick tier)")

    # ------------------------------------------------------------ cmbbs.PasswdUpdate: whole-record substitute addressed by uid
    pu, pmeta = [], []
    for uid in [1, 2, MAXU, rng.randrange(1, MAXU + 1), rng.randrange(1, MAXU + 1), 0, -1, MAXU + 1]:
        f = [rng.randrange(256) for _ in range(512 * MAXU)]
        rec = rand_rec(rng, 512)
        pu.append("7|512 %d %d|%s|%s" % (MAXU, uid, toks(rec), toks(f))); pmeta.append((uid, f, rec))
    po = both(pu, "cmbbs.PasswdUpdate")
    c.count(len(pu), "PasswdUpdate")
    for (uid, f, rec), line, o in zip(pmeta, pu, po):
        want = "0 " + toks(pwrite(f, 512 * (uid - 1), rec)) if 1 <= uid <= MAXU else "3 3"
        if o.strip() != want:
            c.violation("passwd-update-frame", "PasswdUpdate(uid %d) did not rewrite exactly record %d" % (uid, uid), {"cases": [line], "expected": want, "got": o[:200]})
        c.nontrivial(("pu", uid))

    c.finish(rule="sequences: PRNG(seed) mixes of append/substitute/delete/count (+modify/read for .DIR) on files of 0-5 records with optional torn tail, indices from {first,last,random,count,beyond,negative}, stepped with whole-file comparison; "
                  "enumerations: index -2..6 x {substitute, delete} x 4 strides, all GetRecords windows on 0..4 records, torn tails at every byte; non-trivial = distinct (stride, operation, index class, option mix, result class) or distinct enumerated point",
             assumptions=["the kernel writes the bytes it is given at the offset it is given (pwrite semantics incl. zero-filled holes are part of the model, observed, not verified)",
                          "locks (flock, range lock) are not part of this property; single-process runs",
                          "the delete tag is read from the build (ptttype.FN_SAFEDEL, a configurable string) and fed to the model",
                          "GetRecords with n < 0 panics in make(); modelled as Crash, not generated (callers pass n >= 0)"])


if __name__ == "__main__":
    main()
