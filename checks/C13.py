#!/usr/bin/env python3
"""C13 — article ids: proofs in coq/Props/C13.v; correspondence and direct predicates on ptttype/bbs."""
import os, sys
sys.path.insert(0, os.path.join(os.path.dirname(os.path.abspath(__file__)), "..", "lib"))
import vf

ALPHA = b"0123456789ABCDEFGHIJKLMNOPQRSTUVWXYZabcdefghijklmnopqrstuvwxyz-_"


def name_bytes(ty, t, sfx_txt):
    s = ty + b"." + t + b".A." + sfx_txt
    s = s[:28] + b"\0" * (28 - len(s))
    return list(s)


def toks(bs):
    return " ".join(str(b) for b in bs)


def main():
    c = vf.Check("C13")
    rng = c.rng
    thorough = c.tier == "thorough"
    c.prove()
    model_ok = c.model_ok()
    impl = vf.build_impl()
    model = vf.build_model("C13") if model_ok else None

    def both(lines, label):
        io = vf.run_impl(impl, "C13", lines)
        if model:
            mo = vf.run_model(model, lines)
            vf.correspond(c, label, lines, io, mo)
        return io

    # ---------------------------------------------------------------- numbers <-> text
    ids = []
    for pos in range(8):
        for v in range(64):
            ids.append(v << (6 * pos))                                   # every digit value at every position
            ids.append((v << (6 * pos)) | (rng.getrandbits(48) & ~(63 << (6 * pos))))
    ids += [0, 1, 2**48 - 1, 2**47, 2**44, 2**44 - 1, 2**12, 4095]
    n_rand = 400000 if thorough else 20000
    ids += [rng.getrandbits(48) for _ in range(n_rand)]
    big = [2**48, 2**63, 2**64 - 1] + [rng.getrandbits(64) for _ in range(200)]    # outside the id range: must still agree with the model
    l1 = ["1|%d" % a for a in ids + big]
    o1 = both(l1, "Aidu.ToAidc")
    c.count(len(l1), "aidu->aidc")
    l2 = ["2|" + " ".join(o.split()[1:]) for o in o1[:len(ids)]]
    o2 = both(l2, "Aidc.ToAidu(after ToAidc)")
    c.count(len(l2), "aidc->aidu roundtrip")
    for a, t, r in zip(ids, o1, o2):
        tt = t.split()
        if tt[0] != "0" or len(tt) != 9 or any(int(x) not in ALPHA for x in tt[1:]):
            c.violation("aidc-shape", "ToAidc(%d) is not 8 characters of the alphabet: %s" % (a, t), {"cases": ["1|%d" % a], "got": t})
        elif r.split() != ["0", str(a)]:
            c.violation("num-text-num", "ToAidu(ToAidc(%d)) = %s" % (a, r), {"cases": ["1|%d" % a, "2|" + " ".join(tt[1:])], "expected": "0 %d" % a, "got": r})
        c.nontrivial(("id", a))
    c.sample({"op": "ToAidc/ToAidu", "aidu": ids[700], "aidc": vf.fmt_bytes(o1[700].split()[1:]), "back": o2[700]})

    # ---------------------------------------------------------------- decoder on arbitrary bytes
    dec = []
    for pos in range(8):
        for b in range(256):
            s = [rng.choice(ALPHA) for _ in range(8)]
            s[pos] = b
            dec.append(s)
    for _ in range(200000 if thorough else 5000):
        dec.append([rng.randrange(256) for _ in range(8)])
    for _ in range(2000):
        s = [rng.choice(ALPHA) for _ in range(8)]
        s[rng.randrange(8)] = rng.choice([0, 64, 32, 127, 128, 255])
        dec.append(s)
    l3 = ["2|" + toks(s) for s in dec]
    o3 = both(l3, "Aidc.ToAidu(arbitrary bytes)")
    c.count(len(l3), "decoder arbitrary bytes")
    for s, r in zip(dec, o3):
        if r.split()[0] != "0":
            c.violation("decoder-crash", "Aidc.ToAidu crashes/hangs on bytes %s: status %s" % (s, r), {"cases": ["2|" + toks(s)], "got": r})
        c.nontrivial(("dec", tuple(s)))
    # text -> number -> text on alphabet strings
    txt = [[rng.choice(ALPHA) for _ in range(8)] for _ in range(50000 if thorough else 5000)]
    l4 = ["2|" + toks(s) for s in txt]
    o4 = both(l4, "Aidc.ToAidu(alphabet)")
    l5 = ["1|" + o.split()[1] if o.split()[0] == "0" else "1|0" for o in o4]
    o5 = both(l5, "Aidu.ToAidc(after ToAidu)")
    c.count(len(l4) + len(l5), "text->num->text")
    for s, n, r in zip(txt, o4, o5):
        if r.split()[1:] != [str(x) for x in s]:
            c.violation("text-num-text", "ToAidc(ToAidu(%r)) = %s" % (bytes(s), r), {"cases": ["2|" + toks(s)], "got": [n, r]})

    # ---------------------------------------------------------------- names
    names, meta = [], []
    times = [10**9, 10**9 + 1, 1607202239, 2**31 - 1, 1999999999, 1234567890]
    for ti, t in enumerate(times):
        for sfx in range(4096):
            # an M name and its G twin (same time and suffix) are converted back to back, in both orders:
            # a conversion must not depend on what was converted just before
            for ty in ((b"M", b"G") if (sfx + ti) % 2 == 0 else (b"G", b"M")):
                names.append(name_bytes(ty, b"%010d" % t, b"%03X" % sfx)); meta.append(("wf", t))
    for _ in range(200000 if thorough else 10000):
        t = rng.randrange(10**9, 2**31)
        names.append(name_bytes(rng.choice([b"M", b"G"]), b"%010d" % t, b"%03X" % rng.randrange(4096))); meta.append(("wf", t))
    late = [2**31, 2**31 + 1, 3000000000, 2**32 - 1, 2**32, 9999999999] + [rng.randrange(2**31, 10**10) for _ in range(300)]
    for t in late:                                                     # the year-2038 class (known finding)
        names.append(name_bytes(b"M", b"%010d" % t, b"%03X" % rng.randrange(4096))); meta.append(("late", t))
    junk_pool = [b"M", b"G", b".", b"A", b"-", b"+", b"_", b"0", b"9", b"a", b"f", b"F", b"g", b"x", b" ", b"\0", b"\xff", b"\x80"]
    for _ in range(50000 if thorough else 6000):                         # malformed names: model and code must still agree
        base = name_bytes(rng.choice([b"M", b"G", b"X", b"."]), b"%010d" % rng.randrange(10**10), rng.choice([b"%03X", b"%03x"]) % rng.randrange(4096))
        for _ in range(rng.randrange(1, 4)):
            base[rng.randrange(20)] = rng.choice(junk_pool)[0]
        names.append(base); meta.append(("junk", 0))
    for _ in range(1000):
        names.append([rng.randrange(256) for _ in range(28)]); meta.append(("junk", 0))
    l6 = ["3|" + toks(n) for n in names]
    o6 = both(l6, "Filename_t.ToAidu")
    l7 = ["4|" + o.split()[1] for o in o6]
    o7 = both(l7, "Aidu.ToFN(after ToAidu)")
    l8 = ["5|" + toks(n) for n in names]
    o8 = both(l8, "bbs.ToArticleID")
    l9 = ["6|" + " ".join(o.split()[1:]) for o in o8]
    o9 = both(l9, "bbs.ArticleID.ToRaw(after ToArticleID)")
    c.count(4 * len(names), "names")
    seen = {}
    for n, (kind, t), a, back, aid, back2 in zip(names, meta, o6, o7, o8, o9):
        if kind == "junk":
            if any(o.split()[0] != "0" for o in (a, back, aid, back2)):
                c.violation("name-crash", "name conversion crashes on %r" % bytes(n), {"cases": ["3|" + toks(n)], "got": [a, back, aid, back2]})
            continue
        want = ["0"] + [str(x) for x in n]
        ok = back.split() == want and back2.split() == want
        if kind == "late":
            if not ok:
                c.violation("time-ge-2^31", "name %r -> %s" % (bytes(n[:18]), vf.fmt_bytes(back.split()[1:19])), {"cases": ["3|" + toks(n)], "got": back})
            continue
        c.nontrivial(("name", tuple(n[:18])))
        if not ok:
            c.violation("name-roundtrip", "name %r -> id %s -> %r / via bbs %r" % (bytes(n[:18]), a, vf.fmt_bytes(back.split()[1:19]), vf.fmt_bytes(back2.split()[1:19])),
                        {"cases": ["3|" + toks(n), "5|" + toks(n)], "expected": " ".join(want), "got": [back, back2]})
        key = aid
        if key in seen and seen[key] != tuple(n):
            c.violation("name-injective", "two names share article id %s" % aid, {"cases": ["5|" + toks(n), "5|" + toks(list(seen[key]))], "got": aid})
        seen[key] = tuple(n)
    c.sample({"op": "name->aidu->name", "name": bytes(names[5][:18]).decode(), "aidu": o6[5], "articleid": vf.fmt_bytes(o8[5].split()[1:])})

    # ---------------------------------------------------------------- the same conversions from 8 goroutines at once
    conc = [(rng.randrange(2) << 44) | (rng.randrange(10**9, 2**31) << 12) | rng.randrange(4096) for _ in range(400)]
    lc = ["7|" + " ".join(map(str, conc))]
    oc = vf.run_impl(impl, "C13", lc, deadline_ms=60000)
    c.count(len(conc) * 8 * 20, "concurrent conversions")
    if oc[0].split()[0] != "0" or oc[0].split()[1] != "0":
        f = oc[0].split()
        which = conc[int(f[2])] if len(f) > 2 and f[0] == "0" and int(f[2]) >= 0 else None
        c.violation("concurrent-conversion", "Aidu.ToFN / bbs.ToArticleID / ArticleID.ToRaw called from 8 goroutines at once: %s answers differ from the sequential ones or a conversion panicked (first: id %s)" % (f[1] if len(f) > 1 else "status " + f[0], which),
                    {"cases": lc, "expected": "0 0 -1", "got": oc[0]})
    c.nontrivial(("conc", len(conc)))

    # ---------------------------------------------------------------- client-supplied article id text of any length
    raw = [[]] + [[rng.choice(ALPHA) for _ in range(k)] for k in range(1, 13) for _ in range(20)]
    raw += [[rng.randrange(256) for _ in range(rng.randrange(0, 14))] for _ in range(20000 if thorough else 3000)]
    l10 = ["6|" + toks(s) for s in raw]
    o10 = both(l10, "bbs.ArticleID.ToRaw(arbitrary text)")
    c.count(len(l10), "articleid arbitrary text")
    for s, r in zip(raw, o10):
        if r.split()[0] != "0":
            c.violation("articleid-crash", "ArticleID(%r).ToRaw() crashes/hangs: status %s" % (bytes(s), r), {"cases": ["6|" + toks(s)], "got": r})
        c.nontrivial(("raw", tuple(s)))
    c.sample({"op": "ArticleID.ToRaw", "text": repr(bytes(raw[30])), "result": o10[30]})
    c.cov["exhaustive_parts"] = ["every digit value (64) at every position (8) of the id", "every byte value (256) at every position (8) of the decoder input",
                                 "all 4096 suffixes x {M,G} x 6 boundary times"]
    c.finish(rule="ids: digit sweeps + PRNG(seed) 48-bit ids; decoder: byte sweeps + random 8-byte strings; names: suffix sweeps x boundary times + random well-formed, post-2038 and malformed names; "
                  "a case is non-trivial if it is a distinct id / byte string / well-formed name (malformed names only feed the correspondence)",
             assumptions=["Go's strconv.Atoi / ParseUint / fmt %d %03X are re-specified in Base/Dec.v and exercised by the correspondence, not verified"])


if __name__ == "__main__":
    main()
