#!/usr/bin/env python3
"""C02 — password hashes are crypt(3) DES. Proofs in coq/Props/C02.v. Correspondence, on every case, between
   (a) the implementation (crypt.Fcrypt, cmbbs.GenPasswd, cmbbs.CheckPasswd), (b) the extracted model of the Go code
   (Model/C02.v), (c) the extracted textbook DES / crypt(3) specification (Model/C02_DesSpec.v), (d) libcrypt (called
   through ctypes with raw bytes) and, as a second route to an oracle, perl's crypt(). A Python transcription of
   fcrypt (tables parsed from the regenerated Gen/CryptTab.v) is run as an instrumented twin on a subset of those
   cases to measure which SPtrans / skb / con_salt / cov_2char entries were indexed.
   Results that alias shared state / reentrancy (sessions(), driver ops 5 and 6 in c02_session.go): sessions of calls in
   one process whose returned slices are kept uncopied, handed back in as the stored hash and read after the last call,
   and the same calls from concurrent goroutines; model counterpart C02_calls_independent / C02_order_independent.
   The password as the server's entry points hand it on (accounts(), driver ops 7 and 8 in c02_accounts.go): histories of
   Register / Login / CheckPasswd / ChangePasswd through bbs.* and the gin handlers with passwords that have bytes >= 0x80,
   stored hashes read from .PASSWDS and compared with libcrypt; model counterpart C02_accounts_*."""
import ctypes, ctypes.util, os, re, subprocess, sys
from concurrent.futures import ThreadPoolExecutor
sys.path.insert(0, os.path.join(os.path.dirname(os.path.abspath(__file__)), "..", "lib"))
import vf

ALPHA = b"./0123456789ABCDEFGHIJKLMNOPQRSTUVWXYZabcdefghijklmnopqrstuvwxyz"
M = 0xffffffff


def toks(bs):
    return " ".join(str(b) for b in bs)


def case(op, *groups):
    return "%d|" % op + "|".join(toks(g) for g in groups)


# ---------------------------------------------------------------------------------------------- oracles
try:
    _lib = ctypes.CDLL(ctypes.util.find_library("crypt") or "libcrypt.so.1")
    _lib.crypt.restype = ctypes.c_char_p
    _lib.crypt.argtypes = [ctypes.c_char_p, ctypes.c_char_p]
except OSError:
    _lib = None          # no libcrypt here: the extracted textbook-DES specification and perl remain as references


def cstr(pw):
    pw = bytes(pw)
    i = pw.find(b"\0")
    return pw if i < 0 else pw[:i]


def libcrypt(pw, salt):
    """traditional DES crypt(3) of the C string pw (raw bytes, cut at the first NUL); None if libcrypt refuses the salt"""
    if _lib is None:
        return None
    r = _lib.crypt(cstr(pw), bytes(salt[:2]))
    if r is None or len(r) != 13 or r.startswith(b"*"):
        return None
    return r


def perl_crypt(pairs):
    inp = "".join("%s:%s\n" % (cstr(p).hex(), bytes(s[:2]).hex()) for p, s in pairs)
    prog = 'while(<STDIN>){chomp; my($p,$s)=split(/:/,$_,-1); print crypt(pack("H*",$p),pack("H*",$s)),"\\n"}'
    try:
        out = subprocess.run(["perl", "-e", prog], input=inp, stdout=subprocess.PIPE, stderr=subprocess.PIPE, text=True, timeout=300)
    except (OSError, subprocess.TimeoutExpired):
        return None
    res = out.stdout.split("\n")[:-1]
    return res if len(res) == len(pairs) else None


# ---------------------------------------------------------------------------------------------- instrumented twin
class Twin:
    """fcrypt transcribed from crypt/crypt.go; tables from Gen/CryptTab.v; records every table index it uses"""

    def __init__(self):
        src = open(os.path.join(vf.COQ, "Gen", "CryptTab.v")).read()

        def parse(name):
            m = re.search(r"Definition %s : list \((?:list \(Z\)|Z)\) :=\s*(.*?)\.\n" % name, src, re.S)
            return eval(m.group(1).replace(";", ","))
        self.con_salt, self.cov_2char, self.shifts2 = parse("con_salt"), parse("cov_2char"), parse("shifts2")
        self.skb, self.SP = parse("skb"), parse("SPtrans")
        self.cov_sp, self.cov_skb, self.cov_salt, self.cov_c2 = set(), set(), set(), set()

    @staticmethod
    def perm_op(a, b, n, m):
        t = ((a >> n) ^ b) & m
        return a ^ ((t << n) & M), b ^ t

    @staticmethod
    def hperm_op(a, n, m):
        t = (((a << (16 - n)) & M) ^ a) & m
        return a ^ t ^ (t >> (16 - n))

    def set_key(self, key):
        P, H, skb = self.perm_op, self.hperm_op, self.skb
        c = key[0] | key[1] << 8 | key[2] << 16 | key[3] << 24
        d = key[4] | key[5] << 8 | key[6] << 16 | key[7] << 24
        d, c = P(d, c, 4, 0x0f0f0f0f)
        c = H(c, -2, 0xcccc0000)
        d = H(d, -2, 0xcccc0000)
        d, c = P(d, c, 1, 0x55555555)
        c, d = P(c, d, 8, 0x00ff00ff)
        d, c = P(d, c, 1, 0x55555555)
        d = ((d & 0xff) << 16) | (d & 0xff00) | ((d & 0xff0000) >> 16) | ((c & 0xf0000000) >> 4)
        c &= 0x0fffffff
        ks = []
        for i in range(16):
            if self.shifts2[i]:
                c = (c >> 2) | (c << 26); d = (d >> 2) | (d << 26)
            else:
                c = (c >> 1) | (c << 27); d = (d >> 1) | (d << 27)
            c &= 0x0fffffff; d &= 0x0fffffff
            ix = (c & 0x3f, ((c >> 6) & 3) | ((c >> 7) & 0x3c), ((c >> 13) & 0xf) | ((c >> 14) & 0x30),
                  ((c >> 20) & 1) | ((c >> 21) & 6) | ((c >> 22) & 0x38),
                  d & 0x3f, ((d >> 7) & 3) | ((d >> 8) & 0x3c), (d >> 15) & 0x3f, ((d >> 21) & 0xf) | ((d >> 22) & 0x30))
            for k, x in enumerate(ix):
                self.cov_skb.add((k, x))
            s = skb[0][ix[0]] | skb[1][ix[1]] | skb[2][ix[2]] | skb[3][ix[3]]
            t = skb[4][ix[4]] | skb[5][ix[5]] | skb[6][ix[6]] | skb[7][ix[7]]
            ks.append(((t << 16) | (s & 0xffff)) & M)
            s = (s >> 16) | (t & 0xffff0000)
            ks.append(((s << 4) | (s >> 28)) & M)
        return ks

    def d_encrypt(self, L, R, S, E0, E1, s):
        t = R ^ (R >> 16)
        u = t & E0
        t = t & E1
        u = (u ^ ((u << 16) & M)) ^ R ^ s[S]
        t = (t ^ ((t << 16) & M)) ^ R ^ s[S + 1]
        t = ((t >> 4) | (t << 28)) & M
        ix = (u & 0x3f, t & 0x3f, (u >> 8) & 0x3f, (t >> 8) & 0x3f, (u >> 16) & 0x3f, (t >> 16) & 0x3f, (u >> 24) & 0x3f, (t >> 24) & 0x3f)
        v = 0
        for k, x in enumerate(ix):
            self.cov_sp.add((k, x))
            v |= self.SP[k][x]
        return L ^ v

    def body(self, ks, E0, E1):
        l = r = 0
        for _ in range(25):
            for i in range(0, 32, 4):
                l = self.d_encrypt(l, r, i, E0, E1, ks)
                r = self.d_encrypt(r, l, i + 2, E0, E1, ks)
            l, r = r, l
        t = r
        r = ((l >> 1) | (l << 31)) & M
        l = ((t >> 1) | (t << 31)) & M
        P = self.perm_op
        r, l = P(r, l, 1, 0x55555555)
        l, r = P(l, r, 8, 0x00ff00ff)
        r, l = P(r, l, 2, 0x33333333)
        l, r = P(l, r, 16, 0xffff)
        r, l = P(r, l, 4, 0x0f0f0f0f)
        return l, r

    def fcrypt(self, pw, salt):
        """-> list of 14 bytes, or None for a panic"""
        if len(salt) < 2:
            return None
        x0, x1 = salt[0] or 65, salt[1] or 65
        if x0 >= 128 or x1 >= 128:
            return None
        self.cov_salt.add(x0); self.cov_salt.add(x1)
        E0, E1 = self.con_salt[x0], (self.con_salt[x1] << 4) & M
        key = [0] * 8
        for i, ch in enumerate(pw[:8]):
            if ch == 0:
                break
            key[i] = (ch << 1) & 0xff
        l, r = self.body(self.set_key(key), E0, E1)
        bb = [(l >> (8 * i)) & 0xff for i in range(4)] + [(r >> (8 * i)) & 0xff for i in range(4)] + [0]
        out, y, u = [x0, x1], 0, 0x80
        for _ in range(2, 13):
            ch = 0
            for _ in range(6):
                ch <<= 1
                if bb[y] & u:
                    ch |= 1
                u >>= 1
                if u == 0:
                    y += 1; u = 0x80
            self.cov_c2.add(ch)
            out.append(self.cov_2char[ch])
        return out + [0]


def key_of(pw):
    k = []
    for b in pw[:8]:
        if b == 0:
            break
        k.append((b << 1) & 0xff)
    return tuple(k + [0] * (8 - len(k)))


def run_model_par(exe, lines, jobs=None):
    jobs = jobs or min(16, os.cpu_count() or 4)
    if len(lines) < 64:
        return vf.run_model(exe, lines)
    n = (len(lines) + jobs - 1) // jobs
    chunks = [lines[i:i + n] for i in range(0, len(lines), n)]
    with ThreadPoolExecutor(max_workers=jobs) as ex:
        parts = list(ex.map(lambda ch: vf.run_model(exe, ch), chunks))
    return [x for p in parts for x in p]


def coq_eval_cases(lines):
    """evaluate run_case on a few case lines inside Coq (vm_compute) -> result lines, or None"""
    def grp(g):
        return "[" + "; ".join(t if not t.startswith("-") else "(%s)" % t for t in g.split()) + "]"
    lits = ["[" + "; ".join(grp(g) for g in l.split("|")) + "]" for l in lines]
    d = os.path.join(vf.BUILD, "C02")
    os.makedirs(d, exist_ok=True)
    p = os.path.join(d, "cases.v")
    open(p, "w").write("From Verif Require Import Base.Common Model.C02.\nEval vm_compute in (map run_case\n [" + ";\n  ".join(lits) + "]).\n")
    with vf.Lock():
        rc, out = vf.sh(["bash", "-c", "ulimit -s unlimited 2>/dev/null; timeout 600 coqc -Q %s Verif %s" % (vf.COQ, p)], cwd=d)
    if rc != 0:
        return None
    m = re.search(r"=\s*(\[.*\])\s*:\s*list \(list Z\)", out, re.S)
    if not m:
        return None
    return [" ".join(str(x) for x in row) for row in eval(m.group(1).replace(";", ","))]


# ---------------------------------------------------------------------------------------------- sessions (ops 5, 6)
def eff_len(pw):
    return len(cstr(bytes(pw[:8])))


def sessions(c, rng, impl, model, thorough):
    """Results that alias shared state / reentrancy. Every other part of this check makes one call per case and the
    driver copies the answer at once; here the driver makes SEVERAL calls in one process, keeps the returned slices
    uncopied, hands such a slice back in as the stored hash, and reads everything only after the last call (op 5);
    and makes the calls from concurrent goroutines, comparing every answer with the sequential one (op 6).
    Direct predicates (no model involved): each kept slice holds crypt(3) (libcrypt) of ITS OWN password and salt;
    the answers of a session are the answers the same calls give when made alone (fresh op 1 / op 3 cases);
    a kept hash accepts its password and rejects one differing in the low 7 bits of the first 8 bytes; no call
    writes into an argument slice; every concurrent answer is the sequential answer."""
    K = 20 if thorough else 1

    def rnd_pw(n, pool=None):
        return [rng.choice(pool) if pool else rng.randrange(256) for _ in range(n)]

    def some_pw(allow_empty=False):
        r = rng.random()
        if allow_empty and r < 0.06:
            return rng.choice([[], [0], [0, 65]])
        if r < 0.4:
            return rnd_pw(rng.randrange(1, 13), ALPHA)
        pw = rnd_pw(rng.randrange(1, 15), list(range(1, 256)))
        if r > 0.9 and len(pw) > 2:
            pw[rng.randrange(1, len(pw))] = 0
        return pw

    def some_salt():
        r = rng.random()
        if r < 0.7:
            return [rng.choice(ALPHA), rng.choice(ALPHA)]
        if r < 0.8:
            return [rng.choice(ALPHA), rng.choice(ALPHA)] + rnd_pw(rng.randrange(1, 13), ALPHA)   # a whole stored hash as salt
        return [rng.randrange(128), rng.randrange(128)]                                            # as GenPasswd draws them

    def wrong_of(pw):
        """a password that differs from pw in the low 7 bits of the first 8 bytes of the C string"""
        e = eff_len(pw)
        if e == 0:
            return [rng.randrange(1, 128)] + rnd_pw(rng.randrange(0, 4))
        q = list(pw)
        q[rng.randrange(e)] ^= 1 << rng.randrange(7)
        return q

    def right_of(pw):
        """pw or a password with the same crypt(3) key"""
        r = rng.random()
        if r < 0.6:
            return list(pw)
        if r < 0.8:
            return [b ^ 0x80 if (b & 0x7f) and rng.random() < 0.5 else b for b in pw]
        if eff_len(pw) == 8:
            return pw[:8] + rnd_pw(rng.randrange(1, 5))
        return list(pw)

    # ---------------------------------------------------------------- op 5: sessions
    # a call: dict(kind, a, b, want) — want: ("hash1", pw, salt) | ("gen", pw) | ("verdict", 0/1, ref or None, stored or None, pw)
    def hash_call():
        if rng.random() < 0.65:
            pw, s = some_pw(allow_empty=True), some_salt()
            return {"kind": 1, "a": pw, "b": s, "pw": pw}
        pw = some_pw(allow_empty=True)
        return {"kind": 2, "a": pw, "b": [], "pw": pw}

    def kept_check(calls, j, right):
        h = calls[j]
        empty_gen = h["kind"] == 2 and (len(h["pw"]) == 0 or h["pw"][0] == 0)
        pw = right_of(h["pw"]) if right else wrong_of(h["pw"])
        return {"kind": 4, "a": [j], "b": pw, "ref": j, "verdict": 1 if right and not empty_gen else 0}

    def literal_check(right):
        while True:
            pw, s = some_pw(), [rng.choice(ALPHA), rng.choice(ALPHA)]
            st = libcrypt(pw, s)
            if st is not None or _lib is None:
                break
        if st is None:
            return None
        q = right_of(pw) if right else wrong_of(pw)
        return {"kind": 3, "a": list(st) + [0], "b": q, "verdict": 1 if right else 0}

    sess = []            # (pattern, calls)
    def add(pattern, calls):
        sess.append((pattern, [x for x in calls if x is not None]))

    for _ in range(60 * K):                                   # hashes only, read at the end
        add("hashes-kept", [hash_call() for _ in range(rng.randrange(2, 5))])
    for _ in range(60 * K):                                   # hash, then that very slice as the stored hash, wrong password
        cs = [hash_call()]
        cs.append(kept_check(cs, 0, False))
        add("kept-hash-wrong-password", cs)
    for _ in range(60 * K):                                   # hash, right then wrong (and the other way round)
        cs = [hash_call()]
        order = [True, False] if rng.random() < 0.5 else [False, True]
        cs += [kept_check(cs, 0, r) for r in order]
        add("kept-hash-right-and-wrong", cs)
    for _ in range(60 * K):                                   # register two users, then log both in
        cs = [hash_call(), hash_call()]
        for j, r in rng.sample([(0, True), (1, True), (0, False), (1, False)], rng.randrange(2, 5)):
            cs.append(kept_check(cs, j, r))
        add("two-hashes-then-checks", cs)
    for _ in range(60 * K):                                   # a check against somebody else's stored hash between a hash and its use
        cs = [hash_call(), literal_check(rng.random() < 0.5)]
        cs.append(kept_check(cs, 0, rng.random() < 0.5))
        if rng.random() < 0.5:
            cs.append(hash_call())
        add("hash-foreign-check-use", cs)
    for _ in range(100 * K):                                  # anything, references pointing backwards
        cs = []
        for i in range(rng.randrange(2, 7)):
            hs = [j for j, x in enumerate(cs) if x["kind"] in (1, 2)]
            r = rng.random()
            if r < 0.4 or not hs:
                cs.append(hash_call())
            elif r < 0.85:
                cs.append(kept_check(cs, rng.choice(hs), rng.random() < 0.5))
            else:
                x = literal_check(rng.random() < 0.5)
                if x is not None:
                    cs.append(x)
        add("mixed", cs)
    for _ in range(40 * K):                                   # related calls: state left by an earlier call (a cache keyed on too little)
        pw, pw2, s1, s2 = some_pw(), some_pw(), some_salt(), some_salt()
        same8 = (pw + rnd_pw(8, list(range(1, 256))))[:8]
        cs = rng.choice([
            [(pw, s1), (pw, s2), (pw2, s1), (pw, s1)],                               # same password / same salt / the first call again
            [(same8 + [65], s1), (same8 + [66], s1), (wrong_of(same8), s1)],         # same key, then one bit away
            [(pw, s1), (wrong_of(pw), s1), (pw, s1[:2])],
            [(pw, s1), (pw, [s1[0], s2[1]]), (pw, [s2[0], s1[1]])]])
        cs = [{"kind": 1, "a": list(a), "b": list(b), "pw": list(a)} for a, b in cs]
        cs.append(kept_check(cs, rng.randrange(len(cs)), rng.random() < 0.5))
        add("related-calls", cs)
    # the vectors of the repository's own tests, as a fixed session
    add("directed", [{"kind": 1, "a": list(b"123123"), "b": list(b"bh"), "pw": list(b"123123")},
                     {"kind": 1, "a": list(b"012345678901"), "b": list(b"AA"), "pw": list(b"012345678901")},
                     {"kind": 1, "a": list(b"00000000"), "b": list(b"00"), "pw": list(b"00000000")},
                     {"kind": 4, "a": [0], "b": list(b"123123"), "ref": 0, "verdict": 1},
                     {"kind": 4, "a": [0], "b": list(b"not-the-passwd"), "ref": 0, "verdict": 0},
                     {"kind": 4, "a": [2], "b": list(b"00000000"), "ref": 2, "verdict": 1}])

    def sess_line(calls, salts=None):
        parts = []
        for i, x in enumerate(calls):
            b = x["b"]
            if x["kind"] == 2 and salts is not None:
                b = salts[i]
            parts.append("%d|%s|%s" % (x["kind"], toks(x["a"]), toks(b)))
        return "5|" + "|".join(parts)

    def split_out(line):
        """status-0 session/concurrent answer -> the numbers after the status, or None"""
        t = line.split()
        if not t or t[0] != "0":
            return None
        v = [int(x) for x in t[1:]]
        return v

    l5 = [sess_line(cs) for _, cs in sess]
    o5 = vf.run_impl(impl, "C02", l5)
    for pat, cs in sess:
        c.count(1, "session " + pat)
        c.count(len(cs), "calls inside sessions")
    names = {1: "Fcrypt", 2: "GenPasswd", 3: "CheckPasswd", 4: "CheckPasswd(kept)"}
    parsed = []                             # per session: [(payload, argument-written flag)] or None
    for (pat, cs), line, o in zip(sess, l5, o5):
        v = split_out(o)
        per = None
        if v is None:
            c.violation("session-crash", "a session of %d calls (%s) does not return: status %s" % (len(cs), pat, o), {"cases": [line], "got": o})
        else:
            pos, per = 0, []
            for x in cs:
                if pos >= len(v) or pos + v[pos] + 2 > len(v):
                    per = None
                    break
                n = v[pos]
                per.append((v[pos + 1:pos + 1 + n], v[pos + 1 + n]))
                pos += n + 2
            if per is None or pos != len(v):
                per = None
                c.violation("session-shape", "session answer is not one record per call: %s" % o, {"cases": [line], "got": o})
        parsed.append(per)
    l5m = []                                # for the model: the salts GenPasswd drew, read back from its hashes
    for (pat, cs), per in zip(sess, parsed):
        l5m.append(sess_line(cs, {i: (per[i][0][:2] if per and len(per[i][0]) >= 2 else [0, 0]) for i, x in enumerate(cs) if x["kind"] == 2}))
    # what every call must have answered: libcrypt of ITS OWN password and salt / the verdict
    wants, exp_lines = [], []
    alone_lines, alone_meta = [], []        # the same calls made alone (fresh cases, answer copied at once)
    for si, ((pat, cs), per) in enumerate(zip(sess, parsed)):
        w, known = [], True
        for i, x in enumerate(cs):
            if x["kind"] in (1, 2):
                pw = x["pw"]
                if x["kind"] == 2 and (len(pw) == 0 or pw[0] == 0):
                    w.append(([0] * 14, None))
                else:
                    salt = x["b"][:2] if x["kind"] == 1 else (per[i][0][:2] if per else [])
                    lc = libcrypt(pw, salt) if len(salt) == 2 and salt[0] in ALPHA and salt[1] in ALPHA else None
                    w.append((list(lc) + [0] if lc is not None else None, salt))
                    if per and len(salt) == 2:
                        alone_lines.append(case(1, pw, salt))
                        alone_meta.append((si, i))
                known = known and x["kind"] == 1 and w[-1][0] is not None       # GenPasswd draws a fresh salt on every run
            else:
                w.append(([x["verdict"]], None))
        wants.append(w)
        exp_lines.append("0 " + " ".join("%d %s 0" % (len(h), toks(h)) for h, _ in w) if known else None)
    oa = vf.run_impl(impl, "C02", alone_lines) if alone_lines else []
    c.count(len(alone_lines), "session calls repeated alone")
    alone_of = {k: (al, a) for k, al, a in zip(alone_meta, alone_lines, oa)}
    n_kept = n_verd = 0
    # sessions whose whole expected answer is known (nothing random in them) first: their replay decides by itself
    for si in sorted(range(len(sess)), key=lambda k: exp_lines[k] is None):
        (pat, cs), line, o, per = sess[si], l5[si], o5[si], parsed[si]
        if per is None:
            continue
        shape = ", ".join(names[y["kind"]] for y in cs)

        def rep(**kw):
            r = {"cases": [line], "got": o, "session": pat}
            if exp_lines[si] is not None:
                r["expected"] = exp_lines[si]
            else:
                r["note"] = "the session contains GenPasswd (fresh salt on every run) or a salt libcrypt does not take: no fixed expected line; see expected_* below"
            r.update(kw)
            return r
        for i, (x, (pay, mut)) in enumerate(zip(cs, per)):
            where = "call %d of session [%s]" % (i, shape)
            want, salt = wants[si][i]
            if mut:
                c.violation("call-writes-into-argument", "%s: an argument slice (the stored hash or the password) was modified by the call" % where, rep(call=i))
            if x["kind"] in (1, 2):
                n_kept += 1
                if want is not None and pay != want:
                    c.violation("kept-hash-changed", "%s: the slice the call returned, read after the later calls, holds %r; crypt(3) of its own password %r and salt %r is %r"
                                % (where, bytes(pay), bytes(x["pw"]), bytes(salt or b""), bytes(want)), rep(call=i, expected_slice=want))
                if (si, i) in alone_of:
                    al, a = alone_of[(si, i)]
                    got = "0 " + toks(pay)
                    if a != got:
                        c.violation("session-differs-from-single-calls", "%s: read at the end of the session the call's result is %s; the same call made alone gives %s" % (where, got, a),
                                    dict(rep(call=i, alone_case=al, alone_answer=a), cases=[al, line]))
                c.nontrivial(("sess-hash", pat, x["kind"], key_of(x["pw"]), tuple(pay[:2])))
            else:
                n_verd += 1
                if pay != want:
                    if x["kind"] == 4:
                        h = cs[x["ref"]]
                        key = "kept-hash-accepts-wrong-password" if x["verdict"] == 0 else "kept-hash-rejects-right-password"
                        desc = ("%s: CheckPasswd(h, %r) = %s with h the slice that %s(%r) returned; expected %s"
                                % (where, bytes(x["b"]), pay, names[h["kind"]], bytes(h["pw"]), x["verdict"]))
                    else:
                        key = "accepts-wrong-password" if x["verdict"] == 0 else "legacy-hash-rejected"
                        desc = "%s: CheckPasswd(%r, %r) = %s inside a session; expected %s" % (where, bytes(x["a"]), bytes(x["b"]), pay, x["verdict"])
                    c.violation(key, desc, rep(call=i, expected_verdict=x["verdict"]))
                c.nontrivial(("sess-check", pat, x["kind"], x["verdict"], key_of(x["b"]), tuple(x["a"][:13])))
    if model:
        m5 = run_model_par(model, l5m)
        vf.correspond(c, "sessions of Fcrypt/GenPasswd/CheckPasswd calls (results kept uncopied) vs model session", l5m, o5, m5)

    # ---------------------------------------------------------------- op 6: the calls from concurrent goroutines
    rounds = 20000 if thorough else 3000
    conc = []            # (pattern, calls)

    def c_fcrypt():
        while True:
            pw, s = some_pw(), [rng.choice(ALPHA), rng.choice(ALPHA)]
            st = libcrypt(pw, s)
            if st is not None or _lib is None:
                return {"kind": 1, "a": pw, "b": s, "seq": (list(st) + [0]) if st is not None else None}

    def c_check(right, same_as=None):
        if same_as is not None:
            st, pw = same_as
        else:
            x = c_fcrypt()
            st, pw = x["seq"], x["a"]
        if st is None:
            return None
        q = right_of(pw) if right else wrong_of(pw)
        return {"kind": 3, "a": list(st), "b": q, "seq": [1 if right else 0], "user": (st, pw)}

    def c_gen():
        # b is not an argument of GenPasswd (the Go driver ignores it): it stands for the salt drawn, for the model, whose
        # op 6 reports nothing of a GenPasswd answer but that the call returns
        return {"kind": 2, "a": some_pw(allow_empty=True), "b": [65, 65], "seq": []}

    for _ in range(12 * K):                                   # two logins for ONE user: right and wrong password
        x = c_check(True)
        if x:
            conc.append(("one-hash-right-and-wrong", [x, c_check(False, x["user"])]))
    for _ in range(12 * K):                                   # checks against hashes of DIFFERENT passwords
        conc.append(("two-hashes", [c_check(rng.random() < 0.5), c_check(rng.random() < 0.5)]))
    for _ in range(8 * K):
        conc.append(("fcrypt-fcrypt", [c_fcrypt(), c_fcrypt()]))
    for _ in range(8 * K):
        conc.append(("genpasswd-and-check", [c_gen(), c_check(rng.random() < 0.5)] + ([c_gen()] if rng.random() < 0.5 else [])))
    for _ in range(10 * K):
        conc.append(("mixed-3-4", [rng.choice([c_fcrypt, c_gen, lambda: c_check(True), lambda: c_check(False)])() for _ in range(rng.randrange(3, 5))]))
    conc = [(p, [x for x in cs if x is not None]) for p, cs in conc]
    conc = [(p, cs) for p, cs in conc if len(cs) >= 2]
    l6 = ["6|%d|" % rounds + "|".join("%d|%s|%s" % (x["kind"], toks(x["a"]), toks(x["b"])) for x in cs) for _, cs in conc]
    o6 = vf.run_impl(impl, "C02", l6, deadline_ms=60000)
    n_conc_calls = 0
    for (pat, cs), line, o in zip(conc, l6, o6):
        c.count(1, "concurrent " + pat)
        n_conc_calls += rounds * len(cs)
        exp = ["0"]
        known = True
        for x in cs:
            if x["seq"] is None:
                known = False
                break
            exp += [str(len(x["seq"]))] + [str(b) for b in x["seq"]] + ["0", "0"]
        v = split_out(o)
        if v is None:
            c.violation("concurrent-crash", "%d concurrent callers (%s) do not return: status %s" % (len(cs), pat, o), {"cases": [line], "got": o})
            continue
        pos, bad = 0, None
        for i, x in enumerate(cs):
            if pos >= len(v) or pos + v[pos] + 3 > len(v):
                bad = "concurrent answer is not one record per call"
                break
            n = v[pos]
            seq, differ, stale = v[pos + 1:pos + 1 + n], v[pos + 1 + n], v[pos + 2 + n]
            pos += n + 3
            name = {1: "Fcrypt(%r, %r)" % (bytes(x["a"]), bytes(x["b"])), 2: "GenPasswd(%r)" % bytes(x["a"]),
                    3: "CheckPasswd(%r, %r)" % (bytes(x["a"][:13]), bytes(x["b"]))}[x["kind"]]
            if x["seq"] is not None and seq != x["seq"]:
                bad = "made alone, before the goroutines start, %s answers %s, expected %s" % (name, seq, x["seq"])
            elif differ:
                bad = "%d of %d answers of %s, made while %d other goroutine(s) were calling too, differ from the answer it gives alone (%s)" % (differ, rounds, name, len(cs) - 1, seq)
            elif stale:
                bad = "the slice %s returned last, read after all goroutines have finished, no longer holds its answer (or an argument was written to)" % name
            if bad:
                break
            c.nontrivial(("conc", pat, x["kind"], key_of(x["a"] if x["kind"] != 3 else x["b"]), tuple(x["b"][:2] if x["kind"] == 1 else x["a"][:13])))
        if bad:
            c.violation("concurrent-answer-differs", "%s: %s" % (pat, bad), {"cases": [line], "got": o, "expected": " ".join(exp) if known else None})
    if model:
        m6 = vf.run_model(model, l6)
        vf.correspond(c, "concurrent Fcrypt/GenPasswd/CheckPasswd calls (every answer = the sequential one) vs model", l6, o6, m6)

    # ---------------------------------------------------------------- thorough: the same cases under the race detector
    race = "not run in the quick tier"
    if thorough:
        race = race_run(c, l5[:200] + ["6|%d|" % 300 + l.split("|", 2)[2] for l in l6[:200]])
    c.sample({"op": "session", "case": l5[-1], "impl": o5[-1]})
    c.sample({"op": "concurrent", "case": l6[0], "impl": o6[0]})
    return {"sessions": len(sess), "kept_slices_read_at_the_end": n_kept, "verdicts_inside_sessions": n_verd,
            "session_calls_repeated_alone": len(alone_lines), "concurrent_cases": len(conc), "rounds_per_goroutine": rounds,
            "concurrent_calls": n_conc_calls, "race_detector": race, "GOMAXPROCS": os.cpu_count()}


# ---------------------------------------------------------------------------------------------- accounts (ops 7, 8)
ACCT_N = 3
ACCT_NAMES = {1: "Register", 2: "Login", 3: "CheckPasswd", 4: "ChangePasswd", 5: "CheckPasswd",
              11: "POST /register", 12: "POST /token", 13: "POST /user/:uid/attemptchangeemail", 14: "POST /user/:uid/changepasswd",
              15: "POST /user/:uid/attemptsetidemail"}


def is_utf8(bs):
    try:
        bytes(bs).decode("utf-8")
        return True
    except UnicodeDecodeError:
        return False


def real_pw(p):
    return p is not None and len(p) > 0 and p[0] != 0


def pw_match(p, q):
    """does the account whose password is p (None: no account) open for q — crypt(3): same key, and GenPasswd's empty hash opens for nothing"""
    return 1 if real_pw(p) and key_of(q) == key_of(p) else 0


def accounts(c, rng, impl, model, thorough):
    """The password as the server's entry points hand it on. Every other part of this check calls crypt.Fcrypt / cmbbs.GenPasswd /
    cmbbs.CheckPasswd itself; here the password enters where a client's does: bbs.Register / bbs.Login / bbs.CheckPasswd /
    bbs.ChangePasswd and the gin handlers in front of them (driver ops 7 and 8, c02_accounts.go), in HISTORIES — set a password
    through one entry point, use it through the others — with passwords that have bytes >= 0x80 (utf8 of every length, raw bytes
    at the bbs layer), blanks, both cases, more than 8 bytes. Direct predicates (no model involved), with the reference kept here
    (the password each account has, by the property text): the stored hash read out of .PASSWDS after an accepted Register /
    ChangePasswd is libcrypt's crypt(3) of the very bytes given (and crypt.Fcrypt of them, made alone); the password that was
    set is accepted by every entry point and one differing in the low 7 bits of its first 8 bytes is refused; the stored hash
    verifies exactly those probe passwords that have the key of the password set (op 8, no salt in the answer: replayable);
    nothing but an accepted Register / ChangePasswd of an account changes its hash. Model: C02_accounts_*."""
    K = 10 if thorough else 1
    ASCII = list(b"abcdefghijklmnopqrstuvwxyzABCDEFGHIJKLMNOPQRSTUVWXYZ0123456789")
    POOLS = ["密碼測試中文字號帳戶", "äöüßéñçÅÀ", "парольключ", "ぱすわーどパス", "😀🔑🐱", " \u0080ÿ☃￥　€", "한글비번"]

    def rnd_char():
        while True:
            r = rng.random()
            cp = rng.randrange(0x80, 0x800) if r < 0.3 else rng.randrange(0x800, 0x10000) if r < 0.8 else rng.randrange(0x10000, 0x110000)
            if not 0xd800 <= cp <= 0xdfff:
                return chr(cp)

    def utf8_pw():
        """valid utf8 with at least one byte >= 0x80 among the first 8"""
        while True:
            chars = []
            for _ in range(rng.randrange(1, 8)):
                r = rng.random()
                if r < 0.35:
                    chars.append(chr(rng.choice(ASCII + list(b" .-_!@#"))))
                elif r < 0.85:
                    chars.append(rng.choice(rng.choice(POOLS)))
                else:
                    chars.append(rnd_char())
            p = list("".join(chars).encode("utf-8"))
            if any(b >= 0x80 for b in p[:8]):
                return p

    def ascii_pw():
        r = rng.random()
        n = rng.randrange(1, 9) if r < 0.6 else rng.randrange(9, 16)
        p = [rng.choice(ASCII) for _ in range(n)]
        if r > 0.8:
            p[rng.randrange(len(p))] = 32
        if r > 0.93:
            p = [32] + p + [32]
        return p

    def raw_pw():
        """any bytes (what a Go string can hold): only the bbs layer can be given these"""
        r = rng.random()
        if r < 0.5:
            return [rng.randrange(1, 256) for _ in range(rng.randrange(1, 13))]
        if r < 0.7:
            return rng.choice([[0x80], [0x80, 0x61], [0xff, 0xfd], [0xb1, 0x4b, 0xbd, 0x58, 0x61], [0xc3], [0xe5, 0xaf], [0xa4, 0xa4, 0xa4, 0xe5]]) + [rng.choice(ASCII) for _ in range(rng.randrange(0, 4))]
        p = utf8_pw()
        p[rng.randrange(len(p))] ^= 0x80
        return p if p[0] else [0x41] + p

    def some_pw(api_ok=False):
        r = rng.random()
        if r < 0.62:
            return utf8_pw()
        if r < 0.8 or api_ok:
            return ascii_pw()
        return raw_pw()

    def wrong_of(p):
        """differs from p in the low 7 bits of the first 8 bytes of the C string; utf8 again if p is (so that it can go through the api)"""
        e = eff_len(p)
        if e == 0:
            return [rng.choice(ASCII)]
        for attempt in range(60):
            q = list(p)
            q[rng.randrange(e)] ^= 1 << rng.randrange(7)
            if q[0] != 0 and (attempt >= 50 or not is_utf8(p) or (is_utf8(q) and 0 not in q)):
                return q
        return [p[0] ^ 1] + list(p[1:])

    def twins(p):
        """byte strings a layer that 'helpfully' converts the password would use instead; which of them must open the account is
        decided by the crypt(3) key alone (pw_match)"""
        out = [wrong_of(p), [b & 0x7f if b & 0x7f else b for b in p]]
        if is_utf8(p):
            t = bytes(p).decode("utf-8")
            big5 = b""
            for ch in t:
                if ord(ch) < 0x80:
                    big5 += ch.encode()
                else:
                    try:
                        big5 += ch.encode("big5")
                    except UnicodeEncodeError:
                        big5 += b"\xff\xfd"
            out += [list(big5), list(t.encode("latin-1", errors="replace")), list(t.lower().encode()), list(t.upper().encode()), list(t.strip().encode()),
                    list(t[:max(1, len(t) // 2)].encode())]
        else:
            out.append(list(bytes(p).decode("utf-8", errors="replace").encode()))
        return [q for q in out if q != list(p)]

    def op(k, u, a, b=(), api=None):
        a, b = list(a), list(b)
        if api is None:
            api = rng.random() < 0.5
        if api and is_utf8(a) and is_utf8(b):
            k += 10
        return {"k": k, "u": u, "a": a, "b": b}

    def verify_op(u, q, api=None):
        return op(rng.choice([2, 3, 5]), u, q, api=api)

    def initial(api_ok=False):
        """the hash account 0 starts with: made by libcrypt (an existing .PASSWDS), of a password the check knows"""
        if _lib is not None:
            for _ in range(20):
                p0 = some_pw(api_ok)
                st = libcrypt(p0, [rng.choice(ALPHA), rng.choice(ALPHA)])
                if st is not None and real_pw(p0):
                    return p0, list(st) + [0]
        return list(b"123123"), list(b"bhwvOJtfT1TAI\0")

    hist = []                    # (pattern, p0, h0, ops)

    def add(pattern, p0h0, ops):
        hist.append((pattern, p0h0[0], p0h0[1], ops))

    SETTERS = [(4, False), (4, True), (1, False), (1, True)]
    for rep in range(4 * K):                                  # every setter x every verifier x (bbs, api), password with high bytes
        for sk, sapi in SETTERS:
            for vk in (2, 3, 5, 4):
                for vapi in (False, True):
                    i0 = initial(api_ok=True)
                    p = utf8_pw()
                    u = 0 if sk == 4 else rng.choice([1, 2])
                    ops = [op(4, 0, i0[0], p, api=sapi) if sk == 4 else op(1, u, p, api=sapi)]
                    right = op(vk, u, p, some_pw(api_ok=True), api=vapi) if vk == 4 else op(vk, u, p, api=vapi)
                    wrong = op(vk, u, wrong_of(p), some_pw(api_ok=True), api=vapi) if vk == 4 else op(vk, u, wrong_of(p), api=vapi)
                    ops += [wrong, right] if rng.random() < 0.5 else [right, wrong]
                    add("set-then-verify", i0, ops)
    for _ in range(40 * K):                                   # an existing hash (libcrypt-made, password with high bytes) through every verifier
        i0 = initial()
        ops = [verify_op(0, i0[0]), verify_op(0, wrong_of(i0[0]))]
        tw = twins(i0[0])
        ops += [verify_op(0, q) for q in rng.sample(tw, min(2, len(tw)))]
        rng.shuffle(ops)
        add("existing-hash", i0, ops)
    for _ in range(50 * K):                                   # set, then what a converting layer would send instead
        i0 = initial()
        p = some_pw()
        if rng.random() < 0.5:
            u, ops = 0, [op(4, 0, i0[0], p)]
        else:
            u = rng.choice([1, 2])
            ops = [op(1, u, p)]
        tw = twins(p)
        ops += [verify_op(u, q) for q in rng.sample(tw, min(3, len(tw)))] + [verify_op(u, p)]
        add("set-then-converted-twins", i0, ops)
    for _ in range(40 * K):                                   # change, change again with the password just set as the old one, use it
        i0 = initial()
        p1, p2 = some_pw(), some_pw()
        ops = [op(4, 0, i0[0], p1), op(4, 0, p1, p2), verify_op(0, p2), verify_op(0, p1), verify_op(0, i0[0])]
        if rng.random() < 0.5:
            ops.insert(1, op(4, 0, wrong_of(p1), some_pw()))             # refused: nothing may change
        add("change-twice", i0, ops)
    for _ in range(40 * K):                                   # two accounts: what one does must not move the other's hash
        i0 = initial()
        p1, p2 = some_pw(), some_pw()
        ops = [op(1, 1, p1), op(1, 2, p2), verify_op(1, p1), verify_op(2, p2), verify_op(1, p2), op(4, 1, p1, p2), verify_op(2, p2), verify_op(1, p2),
               verify_op(0, i0[0]), op(1, 1, some_pw())]
        add("two-accounts", i0, ops)
    for _ in range(12 * K):                                   # the empty password: registered, but nobody can log in
        i0 = initial()
        e = rng.choice([[], [0], [0, 0x41]])
        ops = [op(1, 1, e), verify_op(1, e), verify_op(1, [0x41]), op(4, 0, i0[0], e), verify_op(0, e), verify_op(0, i0[0])]
        add("empty-password", i0, ops)
    for _ in range(80 * K):                                   # anything
        i0 = initial()
        pool = [i0[0]] + [some_pw() for _ in range(3)]
        cur = {0: i0[0], 1: None, 2: None}
        ops = []
        for _ in range(rng.randrange(3, 9)):
            u = rng.randrange(ACCT_N)
            r = rng.random()
            known = cur[u] if cur[u] is not None and rng.random() < 0.7 else rng.choice(pool)
            if r < 0.2:
                ops.append(op(1, u, rng.choice(pool)))
                if cur[u] is None and u != 0:
                    cur[u] = ops[-1]["a"]
            elif r < 0.6:
                ops.append(verify_op(u, known if rng.random() < 0.7 else wrong_of(known)))
            else:
                ops.append(op(4, u, known, rng.choice(pool)))
                if pw_match(cur[u], known):
                    cur[u] = ops[-1]["b"]
        add("mixed", i0, ops)
    # the seed of the repository's own tests (SYSOP / 123123) with the passwords of a client that types chinese
    add("directed", (list(b"123123"), list(b"bhwvOJtfT1TAI\0")),
        [op(2, 0, b"123123", api=False), op(4, 0, b"123123", "密碼abcd".encode(), api=False), op(2, 0, "密碼abcd".encode(), api=False),
         op(3, 0, "密碼abcd".encode(), api=False), op(2, 0, [0xb1, 0x4b, 0xbd, 0x58] + list(b"abcd"), api=False), op(4, 0, "密碼abcd".encode(), "pw😀😀".encode(), api=True),
         op(2, 0, "pw😀😀".encode(), api=True), op(2, 0, "pw🔑🔑".encode(), api=True)])

    def line7(h0, ops, salts=None):
        return "7|%s|" % toks(h0) + "|".join("%d|%d|%s|%s|%s" % (x["k"], x["u"], toks(x["a"]), toks(x["b"]), toks(salts[i]) if salts else "") for i, x in enumerate(ops))

    def line8(h0, probes, ops):
        return "8|%s|%d|%s|" % (toks(h0), len(probes), "|".join(toks(q) for q in probes)) + "|".join("%d|%d|%s|%s|" % (x["k"], x["u"], toks(x["a"]), toks(x["b"])) for x in ops)

    # the reference: which password every account has after every operation, and the verdict of every operation
    refs, l7, l8, exp8, probes_of = [], [], [], [], []
    for pat, p0, h0, ops in hist:
        cur = {0: p0, 1: None, 2: None}
        ref = []
        for x in ops:
            k, u = x["k"] % 10, x["u"]
            if k == 1:
                v = 1 if cur[u] is None else 0
                if v:
                    cur[u] = x["a"]
            elif k == 4:
                v = pw_match(cur[u], x["a"])
                if v:
                    cur[u] = x["b"]
            else:
                v = pw_match(cur[u], x["a"])
            ref.append((v, dict(cur)))
        refs.append(ref)
        probes = []
        for q in [p0] + [y for x in ops for y in (x["a"], x["b"])]:
            if q not in probes and len(probes) < 14:
                probes.append(q)
        for x in ops:
            if x["k"] % 10 in (1, 4):
                for q in twins(x["b"] if x["k"] % 10 == 4 else x["a"])[:3]:
                    if q not in probes and len(probes) < 24:
                        probes.append(q)
        probes_of.append(probes)
        l7.append(line7(h0, ops))
        l8.append(line8(h0, probes, ops))
        e = ["0"]
        for v, cu in ref:
            e.append(str(v))
            for u in range(ACCT_N):
                e += ["0"] if cu[u] is None else ["1"] + [str(pw_match(cu[u], q)) for q in probes]
        exp8.append(" ".join(e))

    def run_chunks(lines):
        jobs = 4
        n = (len(lines) + jobs - 1) // jobs
        chunks = [lines[i:i + n] for i in range(0, len(lines), n)]
        with ThreadPoolExecutor(max_workers=jobs) as ex:
            parts = list(ex.map(lambda ch: vf.run_impl(impl, "C02", ch, deadline_ms=60000), chunks))
        return [x for p in parts for x in p]

    o78 = run_chunks(l7 + l8)
    o7, o8 = o78[:len(l7)], o78[len(l7):]
    vf.ipc_cleanup()
    for (pat, _, _, ops) in hist:
        c.count(1, "account history " + pat)
        c.count(len(ops), "operations inside account histories")

    def parse7(o, nops):
        t = o.split()
        if not t or t[0] != "0":
            return None
        v = [int(x) for x in t[1:]]
        pos, per = 0, []
        for _ in range(nops):
            if pos >= len(v):
                return None
            verdict, pos = v[pos], pos + 1
            hs = []
            for _ in range(ACCT_N):
                if pos >= len(v) or pos + 1 + v[pos] > len(v):
                    return None
                hs.append(v[pos + 1:pos + 1 + v[pos]])
                pos += 1 + v[pos]
            per.append((verdict, hs))
        return per if pos == len(v) else None

    def show(x):
        k = x["k"] % 10
        who = "bbs." + ACCT_NAMES[k] if x["k"] < 10 else ACCT_NAMES[x["k"]]
        if k == 4:
            return "%s(account %d, old %r, new %r)" % (who, x["u"], bytes(x["a"]), bytes(x["b"]))
        return "%s(account %d, %r)" % (who, x["u"], bytes(x["a"]))

    l7m, alone_lines, alone_meta = [], [], []
    n_sets = n_verifies = n_high = 0
    stats = {}
    for hi, ((pat, p0, h0, ops), ref, line, o, line_p, o_p, e_p) in enumerate(zip(hist, refs, l7, o7, l8, o8, exp8)):
        per = parse7(o, len(ops))
        salts = []
        for i, x in enumerate(ops):
            h = per[i][1][x["u"]] if per else []
            salts.append(h[:2] if x["k"] % 10 in (1, 4) and per and per[i][0] == 1 and len(h) == 14 else [65, 65])
        l7m.append(line7(h0, ops, salts))

        def rep(**kw):
            r = {"cases": [line, line_p], "got": [o, o_p], "expected": e_p, "history": [show(x) for x in ops], "pattern": pat,
                 "note": "the last case is the history with the stored hashes observed through probe passwords (op 8): its whole answer is a function of the case; "
                         "the first one (op 7) shows the hashes themselves, salts as drawn in that run"}
            r.update(kw)
            return r
        if per is None:
            c.violation("account-history-crash", "a history of %d account operations does not return one record per operation: status %s" % (len(ops), o.split()[:1]), rep())
            continue
        if o_p.split()[:1] != ["0"]:
            c.violation("account-history-crash", "a history of %d account operations (probed) does not return: %s" % (len(ops), o_p[:40]), rep())
            continue
        prev = [h0, [], []]
        last_set = {0: ("the hash the account had in .PASSWDS (libcrypt's, of %r)" % bytes(p0))}
        for i, (x, (v, hs), (rv, cu)) in enumerate(zip(ops, per, ref)):
            k, u = x["k"] % 10, x["u"]
            where = "operation %d of [%s]" % (i, "; ".join(show(y) for y in ops[:i + 1]))
            stats[(pat, x["k"])] = stats.get((pat, x["k"]), 0) + 1
            if any(b >= 0x80 for y in (x["a"], x["b"]) for b in y[:8]):
                n_high += 1
            if v != rv:
                if k == 1:
                    key, why = "register-verdict", "an id that %s" % ("is free must be registered" if rv else "exists must be refused")
                elif rv:
                    key, why = "entry-point-refuses-the-password-that-was-set", "account %d has the password %r (%s): %r has the same crypt(3) key" % (u, bytes(prevpw(ref, i, u, p0)), last_set.get(u, "?"), bytes(x["a"]))
                else:
                    cp = prevpw(ref, i, u, p0)
                    key, why = "entry-point-accepts-a-wrong-password", ("account %d has %s; %r differs from it in the low 7 bits of the first 8 bytes" % (u, "no record" if cp is None else "the password %r (%s)" % (bytes(cp), last_set.get(u, "?")), bytes(x["a"])))
                c.violation(key, "%s: answered %s, expected %s — %s" % (where, "accepted" if v else "refused", "accepted" if rv else "refused", why), rep(operation=i))
                break
            bad = None
            for w in range(ACCT_N):
                if w == u and v == 1 and k in (1, 4):
                    pw = x["a"] if k == 1 else x["b"]
                    h = hs[w]
                    n_sets += 1
                    last_set[u] = "set by %s" % show(x)
                    if not real_pw(pw):
                        if h != [0] * 14:
                            bad = ("stored-hash-is-not-crypt3-of-the-password", "the empty password must store the empty hash, .PASSWDS holds %r" % bytes(h))
                    elif len(h) != 14 or h[13] != 0 or not all(0 < b < 128 for b in h[:2]):
                        bad = ("stored-hash-is-not-crypt3-of-the-password", ".PASSWDS holds %r for account %d: not 13 characters + NUL" % (bytes(h), w))
                    else:
                        want = libcrypt(pw, h[:2]) if h[0] in ALPHA and h[1] in ALPHA else None
                        if want is not None and bytes(h[:13]) != want:
                            bad = ("stored-hash-is-not-crypt3-of-the-password", "after %s .PASSWDS holds %r for account %d; crypt(3) (libcrypt) of the password %r with the salt %r of that hash is %r"
                                   % (show(x), bytes(h[:13]), w, bytes(pw), bytes(h[:2]), want))
                        alone_lines.append(case(1, pw, h[:2]))
                        alone_meta.append((hi, i, h, pw))
                        c.nontrivial(("acct-set", x["k"], key_of(pw), tuple(h[:2])))
                elif hs[w] != prev[w]:
                    bad = ("hash-changed-by-an-operation-that-must-not", "%s on account %d (%s): the stored hash of account %d went from %r to %r"
                           % (show(x), u, "accepted" if v else "refused", w, bytes(prev[w]), bytes(hs[w])))
                if bad:
                    break
            if bad:
                c.violation(bad[0], "%s: %s" % (where, bad[1]), rep(operation=i))
                break
            prev = hs
            if k != 1:
                n_verifies += 1
                c.nontrivial(("acct-verify", x["k"], v, key_of(x["a"]), tuple(prev[u][:13])))
        else:
            if o_p.strip() != e_p:
                c.violation("stored-hash-verifies-the-wrong-passwords", "history [%s]: asked which of %d probe passwords each stored hash verifies after every operation (cmbbs.CheckPasswd on the hash read from .PASSWDS), "
                            "the answers differ from the crypt(3) reference (a hash verifies exactly the passwords with the key of the password that was set)" % ("; ".join(show(y) for y in ops), len(probes_of[hi])),
                            rep(probes=[repr(bytes(q)) for q in probes_of[hi]]))
    # the same hash made by crypt.Fcrypt alone, from the bytes the entry point was given and the salt found in .PASSWDS
    if alone_lines:
        oa = vf.run_impl(impl, "C02", alone_lines)
        c.count(len(alone_lines), "stored hashes re-made by crypt.Fcrypt alone")
        for (hi, i, h, pw), al, a in zip(alone_meta, alone_lines, oa):
            if a != "0 " + toks(h):
                pat, p0, h0, ops = hist[hi]
                c.violation("stored-hash-is-not-crypt3-of-the-password", "after %s .PASSWDS holds %r; crypt.Fcrypt of the password %r and the salt of that hash, made alone, is %s"
                            % (show(ops[i]), bytes(h), bytes(pw), a), {"cases": [l7[hi], l8[hi]], "got": [o7[hi], o8[hi]], "expected": exp8[hi], "alone_case": al, "alone_answer": a, "operation": i})
    if model:
        m7 = run_model_par(model, l7m)
        vf.correspond(c, "histories of Register/Login/CheckPasswd/ChangePasswd through bbs.* and the gin handlers (stored hashes read from .PASSWDS) vs model arun", l7m, o7, m7)
    c.sample({"op": "account history", "case": l7[-1], "impl": o7[-1], "probed": o8[-1]})
    by_entry = {}
    for (pat, k), n in stats.items():
        by_entry[ACCT_NAMES[k] if k > 10 else "bbs." + ACCT_NAMES[k]] = by_entry.get(ACCT_NAMES[k] if k > 10 else "bbs." + ACCT_NAMES[k], 0) + n
    return {"histories": len(hist), "operations_by_entry_point": by_entry, "accepted_sets_whose_stored_hash_was_compared_with_libcrypt": n_sets,
            "verify_operations": n_verifies, "operations_with_a_byte_ge_0x80_in_the_first_8": n_high, "model_lines": l7m}


def prevpw(ref, i, u, p0):
    """the password account u has before operation i"""
    if i == 0:
        return p0 if u == 0 else None
    return ref[i - 1][1][u]


def race_run(c, lines):
    """Build the driver with -race and run the session / concurrent cases; a report naming crypt or cmbbs is a violation."""
    import glob, tempfile
    exe = os.path.join(vf.BUILD, "implrun_race_C02")
    with vf.Lock():
        rc, out = vf.sh(["go", "build", "-race", "-tags", "verif", "-o", exe, "./cmd/implrun"], cwd=os.path.join(vf.ROOT, "go", "impl"), env=vf.GOENV, timeout=1800)
    if rc != 0:
        return "unavailable (go build -race failed: %s)" % out[-200:].replace("\n", " ")
    d = tempfile.mkdtemp(prefix="c02race")
    try:
        res = vf.run_impl(exe, "C02", lines, deadline_ms=120000, env={"GORACE": "log_path=%s/race halt_on_error=0 exitcode=0" % d})
        reports = ""
        for f in sorted(glob.glob(d + "/race*")):
            reports += open(f, errors="replace").read()
        n = reports.count("WARNING: DATA RACE")
        blocks = [b for b in reports.split("==================") if "DATA RACE" in b and ("go-pttbbs/crypt" in b or "go-pttbbs/cmbbs" in b)]
        if blocks:
            c.violation("data-race", "the race detector reports unsynchronised access to shared state inside crypt/cmbbs while two goroutines hash/check passwords",
                        {"cases": lines[-3:], "got": blocks[0][:3000], "how": "go build -race -tags verif ./cmd/implrun; implrun C02 < cases"})
        c.count(len(lines), "cases under the race detector")
        return "%d cases, %d reports (%d in crypt/cmbbs)" % (len(res), n, len(blocks))
    finally:
        import shutil
        shutil.rmtree(d, ignore_errors=True)


def main():
    c = vf.Check("C02")
    rng = c.rng
    thorough = c.tier == "thorough"
    K = 20 if thorough else 1
    c.prove()
    model_ok = c.model_ok()
    impl = vf.build_impl()
    model = vf.build_model("C02") if model_ok else None
    twin = Twin()

    def rnd_pw(n, pool=None):
        return [rng.choice(pool) if pool else rng.randrange(256) for _ in range(n)]

    def rnd_salt():
        return [rng.choice(ALPHA), rng.choice(ALPHA)]

    def want_shape(salt):
        return len(salt) >= 2 and salt[0] < 128 and salt[1] < 128

    # ------------------------------------------------------------------------------------------ Fcrypt cases
    fc = []            # (pw, salt, class)
    fixed_pws = [list(b"password"), [], rnd_pw(5), list(b"\xe4\xb8\xad\xe6\x96\x87pw")]
    for pos in range(2):                                          # every byte value at both salt positions
        for b in range(256):
            for pw in fixed_pws[:3]:
                s = rnd_salt()
                s[pos] = b
                fc.append((pw, s, "salt-byte-sweep"))
    pws8 = [rnd_pw(rng.randrange(1, 10)) for _ in range(8)]
    for a in ALPHA:                                               # every alphabet salt pair
        for b in ALPHA:
            fc.append((pws8[(a + b) % 8], [a, b], "salt-alphabet-pairs"))
    for s in ([], [65], [0], [200], [65, 66, 67], [65, 66, 200, 1], [0, 0], [0, 66], [65, 0], [127, 127], [128, 65], [65, 128], [255, 255]):
        fc.append((list(b"abc"), list(s), "salt-length"))
    for L in range(21):                                           # passwords of every length 0..20 over all byte values
        for _ in range(40 * K):
            fc.append((rnd_pw(L), rnd_salt(), "pw-random-bytes"))
        for _ in range(20 * K):
            pw = rnd_pw(L)
            if L:
                pw[rng.randrange(L)] = 0
                if rng.random() < 0.3:
                    pw[rng.randrange(L)] = 0
            fc.append((pw, rnd_salt(), "pw-with-nul"))
        for _ in range(20 * K):
            pw = rnd_pw(L, ALPHA)
            for i in range(L):
                if rng.random() < 0.4:
                    pw[i] |= 0x80
            fc.append((pw, rnd_salt(), "pw-bit7"))
    base = rnd_pw(10, ALPHA)
    for pos in range(10):                                         # every byte value at every position of a 10-byte password
        for b in range(256):
            pw = list(base)
            pw[pos] = b
            fc.append((pw, [base[0], base[1]] if pos else rnd_salt(), "pw-byte-sweep"))
    for pw in ([0x80], [0x80, 0x61], [0, 0x61], [0x80] * 8, [0xff] * 8, [0x7f] * 8, [1] * 8, [0x81] * 20, list(b"012345678901")):
        fc.append((list(pw), [65, 65], "directed"))
    for _ in range(2000 * K if thorough else 600):                # 7-bit salts as GenPasswd draws them
        fc.append((rnd_pw(rng.randrange(0, 12)), [rng.randrange(128), rng.randrange(128)], "salt-7bit-random"))

    l1 = [case(1, pw, s) for pw, s, _ in fc]
    o1 = vf.run_impl(impl, "C02", l1)
    for _, _, k in fc:
        c.count(1, "Fcrypt " + k)
    if model:
        m1 = run_model_par(model, l1)
        vf.correspond(c, "crypt.Fcrypt vs model fcrypt", l1, o1, m1)
    # specification: on every case whose salt is in the alphabet it must equal the implementation (without the NUL)
    spec_idx = [i for i, (pw, s, _) in enumerate(fc) if len(s) >= 2 and s[0] in ALPHA and s[1] in ALPHA]
    l4 = [case(4, fc[i][0], fc[i][1]) for i in spec_idx]
    if model:
        m4 = run_model_par(model, l4)
        exp4 = []
        for i in spec_idx:
            t = o1[i].split()
            exp4.append(" ".join(t[:14]) if t[0] == "0" else o1[i])
        vf.correspond(c, "crypt.Fcrypt vs DesSpec.crypt (textbook DES crypt(3))", l4, exp4, m4)
        c.count(len(l4), "DesSpec.crypt")
    perl = perl_crypt([(fc[i][0], fc[i][1]) for i in spec_idx])
    perl_by_idx = dict(zip(spec_idx, perl)) if perl else {}
    n_oracle = n_perl = 0
    for i, (pw, s, kind) in enumerate(fc):
        t = o1[i].split()
        cs = [l1[i]]
        if want_shape(s):
            nb = [s[0] or 65, s[1] or 65]
            if t[0] != "0":
                c.violation("fcrypt-crash", "crypt.Fcrypt(%r, salt %s) does not return: status %s" % (bytes(pw), s[:2], o1[i]), {"cases": cs, "got": o1[i]})
                continue
            h = [int(x) for x in t[1:]]
            if not (len(h) == 14 and h[13] == 0 and h[:2] == nb and all(x in ALPHA for x in h[2:13])):
                c.violation("hash-shape", "crypt.Fcrypt(%r, salt %s) is not salt + 11 alphabet characters + NUL: %s" % (bytes(pw), s[:2], h),
                            {"cases": cs, "got": o1[i]})
                continue
            c.nontrivial(("fcrypt", key_of(pw), tuple(nb)))
            if i in perl_by_idx or (s[0] in ALPHA and s[1] in ALPHA):
                want = libcrypt(pw, s)
                if want is not None:
                    n_oracle += 1
                    if bytes(h[:13]) != want:
                        c.violation("differs-from-crypt3", "crypt.Fcrypt(%r, %r) = %r, libcrypt says %r" % (bytes(pw), bytes(s[:2]), bytes(h[:13]), want),
                                    {"cases": cs, "expected": "0 " + toks(list(want) + [0]), "got": o1[i]})
                if i in perl_by_idx:
                    n_perl += 1
                    if bytes(h[:13]).decode("latin-1") != perl_by_idx[i]:
                        c.violation("differs-from-crypt3", "crypt.Fcrypt(%r, %r) = %r, perl crypt says %r" % (bytes(pw), bytes(s[:2]), bytes(h[:13]), perl_by_idx[i]),
                                    {"cases": cs, "expected": "0 " + toks(list(perl_by_idx[i].encode("latin-1")) + [0]), "got": o1[i]})
        # a salt shorter than two bytes or with a byte >= 128 is outside the property (GenPasswd masks to 7 bits, a hash is
        # ASCII); Go panics there (con_salt has 128 entries) and the model says Crash — only the correspondence looks at it.
    c.sample({"op": "Fcrypt", "pw": repr(bytes(fc[1540][0])), "salt": repr(bytes(fc[1540][1])), "impl": vf.fmt_bytes(o1[1540].split()[1:14]),
              "libcrypt": repr(libcrypt(fc[1540][0], fc[1540][1]))})

    # key locality: equal crypt(3) keys (first 8 bytes up to NUL, low 7 bits, NUL ends) must give equal hashes
    loc = []
    for _ in range(300 * K):
        pw = rnd_pw(rng.randrange(1, 12), list(range(1, 128)))
        s = rnd_salt()
        p8 = (pw + rnd_pw(8, list(range(1, 256))))[:8]
        v1a, v1b = p8 + rnd_pw(rng.randrange(0, 6)), p8 + rnd_pw(rng.randrange(0, 6))   # different tails after the 8th byte
        cut = rng.randrange(0, min(len(pw), 8) + 1)
        v2a, v2b = pw[:cut] + [0] + rnd_pw(5), pw[:cut] + [0] + rnd_pw(3)        # different bytes after a NUL
        v3 = [b | 0x80 if rng.random() < 0.5 else b for b in pw]                 # bit 7 set (never creates or removes a NUL)
        loc.append((v1a, v1b, s)); loc.append((v2a, v2b, s)); loc.append((pw, v3, s))
    la = [case(1, a, s) for a, b, s in loc]
    lb = [case(1, b, s) for a, b, s in loc]
    oa, ob_ = vf.run_impl(impl, "C02", la), vf.run_impl(impl, "C02", lb)
    c.count(2 * len(loc), "Fcrypt key-locality pairs")
    for (a, b, s), x, y, ca, cb in zip(loc, oa, ob_, la, lb):
        if x != y or x.split()[0] != "0":
            c.violation("ignored-bytes-matter", "crypt.Fcrypt differs on passwords with the same crypt(3) key: %r -> %s, %r -> %s" % (bytes(a), x, bytes(b), y),
                        {"cases": [ca, cb], "got": [x, y]})

    # ------------------------------------------------------------------------------------------ instrumented twin: table coverage
    order = list(range(len(fc)))
    rng.shuffle(order)
    n_twin = 0
    for i in order:
        pw, s, _ = fc[i]
        full = len(twin.cov_sp) == 512 and len(twin.cov_skb) == 512 and len(twin.cov_c2) == 64
        if full and n_twin >= (3000 if thorough else 500):
            break
        r = twin.fcrypt(pw, s)
        n_twin += 1
        got = "1" if r is None else "0 " + toks(r)
        if got != o1[i]:
            c.broken.append({"kind": "correspondence", "where": "instrumented Python twin vs crypt.Fcrypt", "theorem": "correspondence twin",
                             "mismatches": 1, "examples": [{"case": l1[i], "impl": o1[i], "twin": got}], "log": ""})
            break
    for i, (pw, s, _) in enumerate(fc):                           # con_salt coverage needs only the salt bytes of the cases run
        if want_shape(s) and o1[i].split()[0] == "0":
            twin.cov_salt.add(s[0] or 65); twin.cov_salt.add(s[1] or 65)
    table_cov = {"SPtrans_entries_indexed": "%d/512" % len(twin.cov_sp), "skb_entries_indexed": "%d/512" % len(twin.cov_skb),
                 "cov_2char_entries_indexed": "%d/64" % len(twin.cov_c2), "con_salt_entries_indexed": "%d/128 (index 0 is unreachable: a zero salt byte becomes 'A')" % len(twin.cov_salt),
                 "cases_run_through_twin": n_twin}
    if len(twin.cov_sp) < 512 or len(twin.cov_skb) < 512:
        c.broken.append({"kind": "coverage", "where": "instrumented twin", "theorem": "every SPtrans/skb entry indexed", "log": str(table_cov)})

    # ------------------------------------------------------------------------------------------ GenPasswd / CheckPasswd
    gp = [[], [0], [0, 65], [0] * 8]
    for _ in range(500 * K):
        gp.append(rnd_pw(rng.randrange(1, 21)))
    for _ in range(200 * K):
        gp.append(rnd_pw(rng.randrange(1, 13), ALPHA))
    for _ in range(100 * K):
        pw = rnd_pw(rng.randrange(2, 14), list(range(1, 256)))
        pw[rng.randrange(1, len(pw))] = 0
        gp.append(pw)
    l2 = [case(2, pw) + "|" for pw in gp]
    o2 = vf.run_impl(impl, "C02", l2)
    c.count(len(l2), "GenPasswd")
    l2m, chk, chk_meta = [], [], []
    for pw, line, o in zip(gp, l2, o2):
        t = o.split()
        salt = [int(t[1]), int(t[2])] if t[0] == "0" and len(t) == 15 else [0, 0]
        l2m.append(case(2, pw, salt))
        empty = len(pw) == 0 or pw[0] == 0
        if t[0] != "0":
            if len(pw) == 0:
                c.violation("genpasswd-empty", "cmbbs.GenPasswd panics on a zero-length password (passwd[0] on an empty slice)", {"cases": [line], "got": o})
            else:
                c.violation("genpasswd-crash", "cmbbs.GenPasswd(%r) does not return: status %s" % (bytes(pw), o), {"cases": [line], "got": o})
            continue
        h = [int(x) for x in t[1:]]
        if empty:
            # GenPasswd's contract (as pttbbs genpasswd): an empty password gets the empty hash, with which nobody can log in
            if h != [0] * 14:
                c.violation("genpasswd-empty-hash", "cmbbs.GenPasswd(%r) = %s, expected the empty hash" % (bytes(pw), h), {"cases": [line], "got": o})
            chk.append((h, pw)); chk_meta.append(("empty", line))
            continue
        if not (len(h) == 14 and h[13] == 0 and all(0 < x < 128 for x in h[:2]) and all(x in ALPHA for x in h[2:13])):
            c.violation("hash-shape", "cmbbs.GenPasswd(%r) is not 2 salt characters + 11 alphabet characters + NUL: %s" % (bytes(pw), h), {"cases": [line], "got": o})
            continue
        c.nontrivial(("gen", key_of(pw), h[0], h[1]))
        chk.append((h, pw)); chk_meta.append(("accept", line))
        eff = len(cstr(bytes(pw[:8])))
        flips = [(i, k) for i in range(eff) for k in range(7)]
        pick = flips if len(chk) % 25 == 0 else rng.sample(flips, min(6, len(flips)))
        for i, k in pick:                                          # single-bit flips in the low 7 bits of the first 8 bytes
            q = list(pw)
            q[i] ^= 1 << k
            chk.append((h, q)); chk_meta.append(("reject", line))
        q = pw[:8] + rnd_pw(rng.randrange(1, 5)) if len(pw) >= 8 else None  # ignored: bytes after the 8th
        if q and eff == 8:
            chk.append((h, q)); chk_meta.append(("accept-tail", line))
        if eff < len(pw) and eff < 8:                              # ignored: bytes after a NUL
            q = pw[:eff + 1] + rnd_pw(3)
            chk.append((h, q)); chk_meta.append(("accept-after-nul", line))
        q = [b ^ 0x80 if (b & 0x7f) and rng.random() < 0.5 else b for b in pw]  # ignored: bit 7
        chk.append((h, q)); chk_meta.append(("accept-bit7", line))
    if model:
        m2 = run_model_par(model, l2m)
        vf.correspond(c, "cmbbs.GenPasswd vs model gen_passwd (salt read back)", l2m, o2, m2)
    # hashes as an existing .PASSWDS holds them (made by libcrypt, not by this code) must keep verifying
    for _ in range(300 * K):
        pw, s = rnd_pw(rng.randrange(1, 14), list(range(1, 256))), rnd_salt()
        want = libcrypt(pw, s)
        if want is not None:
            chk.append((list(want) + [0], pw)); chk_meta.append(("legacy", ""))
            q = list(pw)
            q[rng.randrange(min(8, len(q)))] ^= 1 << rng.randrange(7)
            chk.append((list(want) + [0], q)); chk_meta.append(("reject", ""))
    # malformed stored hashes: model and code must still agree (13 / 15 bytes, no NUL, high bytes, short)
    good = [int(x) for x in o1[1540].split()[1:]] if o1[1540].split()[0] == "0" else list(b"AA3QBhLWk1BWA\0")
    for st in (good[:13], good + [0], good[:13] + [1], [], good[:1], good[:2], [200] + good[1:], [good[0], 130] + good[2:], good[:5] + [200] + good[6:]):
        chk.append((list(st), fc[1540][0])); chk_meta.append(("malformed", ""))
    l3 = [case(3, h, pw) for h, pw in chk]
    o3 = vf.run_impl(impl, "C02", l3)
    c.count(len(l3), "CheckPasswd")
    if model:
        m3 = run_model_par(model, l3)
        vf.correspond(c, "cmbbs.CheckPasswd vs model check_passwd", l3, o3, m3)
    dist = {}
    for (h, pw), (kind, gline), line, o in zip(chk, chk_meta, l3, o3):
        dist[kind] = dist.get(kind, 0) + 1
        if kind == "malformed":
            continue
        cs = [gline, line] if gline else [line]
        if o.split()[0] != "0":
            c.violation("checkpasswd-crash", "cmbbs.CheckPasswd(%r, %r) does not return: status %s" % (bytes(h), bytes(pw), o), {"cases": cs, "got": o})
        elif kind == "empty":
            if o != "0 0":
                c.violation("empty-hash-verifies", "the empty hash verifies against %r" % bytes(pw), {"cases": cs, "expected": "0 0", "got": o})
        elif kind == "reject":
            if o != "0 0":
                c.violation("accepts-wrong-password", "hash %r accepts %r, which differs in the low 7 bits of its first 8 bytes from the password it was made from" % (bytes(h[:13]), bytes(pw)),
                            {"cases": cs, "expected": "0 0", "got": o})
        elif o != "0 1":
            key = {"accept": "generate-then-verify", "legacy": "legacy-hash-rejected"}.get(kind, "rejects-equivalent-password")
            c.violation(key, "hash %r (%s) rejects %r" % (bytes(h[:13]), kind, bytes(pw)), {"cases": cs, "expected": "0 1", "got": o})
        c.nontrivial(("chk", kind, tuple(h[:13]), key_of(pw)))
    c.sample({"op": "GenPasswd/CheckPasswd", "pw": repr(bytes(gp[10])), "hash": vf.fmt_bytes(o2[10].split()[1:14]), "kinds": dist})

    # ------------------------------------------------------------------------------------------ sessions and concurrent callers
    sess_stats = sessions(c, rng, impl, model, thorough)

    # ------------------------------------------------------------------------------------------ the password through the server's entry points
    acct_stats = accounts(c, rng, impl, model, thorough)
    l7m = acct_stats.pop("model_lines")

    # ------------------------------------------------------------------------------------------ extraction cross-check inside Coq
    if model:
        pick = [l1[0], l1[1540], l1[3000], l1[len(l1) - 700], l1[2 * 256 * 3 + 4096 + 3], l4[17], l4[len(l4) - 5], l2m[0], l2m[1], l2m[7], l3[0], l3[1], l3[-1], l3[-4], l7m[0], l7m[-1]]
        inside = coq_eval_cases(pick)
        outside = vf.run_model(model, pick)
        if inside is None or inside != outside:
            c.broken.append({"kind": "correspondence", "where": "extracted OCaml model vs vm_compute of the same cases", "theorem": "correspondence extraction",
                             "mismatches": -1 if inside is None else sum(1 for a, b in zip(inside, outside) if a != b), "log": ""})
        c.count(len(pick), "vm_compute cross-check of extraction")

    c.cov["exhaustive_parts"] = ["every byte value (256) at both salt positions x 3 passwords", "all 64x64 salt pairs of the crypt alphabet",
                                 "every byte value (256) at each of the first 10 password positions", "every password length 0..20"]
    c.finish(rule="Fcrypt: salt byte sweeps + all alphabet salt pairs + passwords of length 0..20 over all byte values (random, with NULs, with bit 7) + byte sweeps + 7-bit salts, PRNG(seed); "
                  "every case goes to implementation, extracted model of the Go code, extracted textbook crypt(3) spec (alphabet salts), libcrypt via ctypes and perl crypt (alphabet salts); "
                  "GenPasswd: random passwords, salt read back from the hash and fed to the model; CheckPasswd: the generating password (accept), single-bit flips in the low 7 bits of the first 8 bytes (reject), "
                  "changed bytes after the 8th / after a NUL / bit 7 (accept), libcrypt-made hashes (accept). "
                  "Sessions (op 5): 2-6 Fcrypt/GenPasswd/CheckPasswd calls in one process, returned slices kept uncopied and read after the last call, CheckPasswd called on the very slice an earlier call returned (right and wrong password); "
                  "predicates: every kept slice = libcrypt of its own password and salt, session answers = answers of the same calls made alone, verdicts, no argument written to. "
                  "Concurrent (op 6): 2-4 goroutines repeating Fcrypt/GenPasswd/CheckPasswd against hashes of the same and of different passwords, every answer = the sequential one (thorough: also under go build -race). "
                  "Account histories (ops 7, 8): 3-10 operations through bbs.Register / Login / CheckPasswd / ChangePasswd and the gin handlers (/register, /token, /user/:uid/changepasswd, /attemptchangeemail, /attemptsetidemail) on a scratch BBS, account 0 starting with a libcrypt-made hash: "
                  "every setter x every verifier x (bbs, api) with utf8 passwords that have a byte >= 0x80 in the first 8, existing hashes, the byte strings a converting layer would send (big5 / latin-1 / case-folded / trimmed / truncated / 7-bit twins), change twice, two accounts, the empty password, random histories; raw (non-utf8) bytes at the bbs layer; "
                  "predicates: stored hash read from .PASSWDS = libcrypt crypt(3) of the bytes given (and = crypt.Fcrypt made alone), verdict of every operation = crypt(3)-key reference, every stored hash verifies exactly the probes with the right key, no other hash moves. A case is non-trivial if it has a distinct (DES key, salt) resp. (kind, hash, DES key)",
             extra={"table_coverage": table_cov, "oracle_comparisons": {"libcrypt_ctypes": n_oracle, "perl_crypt": n_perl, "DesSpec_cases": len(l4)},
                    "sessions_and_concurrency": sess_stats, "account_histories": acct_stats},
             assumptions=["the reject clause ('rejected for any password whose first eight bytes differ in the low seven bits') is exercised by differential testing only: proving it would assert that DES under 25 salted iterations has no colliding keys on the zero block, which nobody has proved (C02_reject_partial says what is proved)",
                          "whole-function equality model-of-fcrypt = textbook crypt(3) (Model/C02_DesSpec.v) is a theorem for all passwords and alphabet salts (C02_equals_crypt3); what stays validated, by the 4-way correspondence on every case, is that the model is the Go code (Go <-> extracted model) and that the textbook specification is the crypt(3) of libcrypt / perl (extracted DesSpec <-> oracles)",
                          "libcrypt (libxcrypt's DES crypt) and perl's crypt are validation oracles, not part of any theorem",
                          "C02_calls_independent / C02_order_independent hold of the model by construction (its functions have no state); that crypt.Fcrypt, cmbbs.GenPasswd and cmbbs.CheckPasswd are such functions - no result aliasing a shared buffer, no scratch state shared between goroutines - is validated, not proved: sessions with results kept uncopied (deterministic) and concurrent goroutines (a data race shows with high probability per case, not with certainty; the thorough tier adds the race detector)",
                          "C02_accounts_* are theorems about the model's account operations (the password bytes go unchanged into GenPasswd / CheckPasswd at every entry point); that bbs.Register / Login / CheckPasswd / ChangePasswd and the five gin handlers ARE those operations is validated by the account histories (ops 7, 8), not proved: ptt.Register / ptt.Login do much besides the password (utmp, home directory, favourites) that the model leaves out; through the api only valid utf8 can travel (a json string), raw bytes are exercised at the bbs layer",
                          "a salt shorter than 2 bytes or with a byte >= 128 is outside the property: Go panics (con_salt has 128 entries), the model says Crash; GenPasswd masks its salt to 7 bits and stored hashes are ASCII"])


if __name__ == "__main__":
    main()
