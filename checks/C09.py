#!/usr/bin/env python3
"""C09 — a published article is stored once, completely, and is immediately retrievable.
Proofs in coq/Props/C09.v. Tie: real posts through bbs.CreateArticle / bbs.GetArticle /
bbs.LoadGeneralArticles in a scratch BBSHOME; the extracted model is run on the observed state
before each post plus the observed clock / random draws and must predict the state after; the
clauses of the property text are evaluated directly on the implementation's own files. Bodies include the size
boundaries of the body and of its lines (gen_size_cases); 'every submitted line' is decided line by line on what
bbs.GetArticle returns (lines_clause). Posts are also made while shared memory that belongs to other features is in
an unusual but legal condition (gen_env_cases: the board-cache busy flag left set by a loader that went away, per-board
busy stamps, a cached count that is 0 / behind / ahead, a stale LastPostTime): every clause — in particular 'the cached
count equals the index length' — is decided on them as on every other post, and the memory after must be what the
model's post_seq_shm (cache.SetBTotal with that memory explicit) computes from the memory before."""
import os, re, sys, time, calendar
sys.path.insert(0, os.path.join(os.path.dirname(os.path.abspath(__file__)), "..", "lib"))
import vf

TAG = bytes([0x5b, 0xa4, 0xbd, 0xa7, 0x69, 0x5d])            # [公告] in Big5
IP = b"127.0.0.1"
USERS = ["SYSOP", "test1(moderator of WhoAmI)", "CodingMan(plain)"]
BOARDS = ["WhoAmI", "EditExp"]


# ------------------------------------------------------------------ wire helpers
class Cur:
    def __init__(self, toks):
        self.t = toks
        self.p = 0

    def num(self):
        v = int(self.t[self.p]); self.p += 1
        return v

    def blob(self):
        n = self.num()
        b = bytes(int(x) for x in self.t[self.p:self.p + n]); self.p += n
        return b

    def state(self):
        nu = self.num()
        numposts = [self.num() for _ in range(nu)]
        boards = []
        for _ in range(self.num()):
            total = self.num()
            d = self.blob()
            files = {}
            for _ in range(self.num()):
                n = self.blob()
                files[n] = self.blob()
            boards.append({"total": total, "dir": d, "files": files})
        # shared memory the post path has no business with: Shm.BBusyState, per board Shm.BusyStateB / Shm.LastPostTime
        shm = {"bbusy": self.num(), "busyb": [], "lastpost": []}
        for _ in boards:
            shm["busyb"].append(self.num()); shm["lastpost"].append(self.num())
        return {"numposts": numposts, "boards": boards, "shm": shm}


def tk(bs):
    return " ".join(str(b) for b in bs)


def blob(bs):
    return (str(len(bs)) + " " + tk(bs)).strip()


def enc_files(files):
    return " ".join([str(len(files))] + [blob(n) + " " + blob(files[n]) for n in sorted(files)])


def enc_lines(lines):
    return " ".join([str(len(lines))] + [blob(l) for l in lines])


def canon(outs, numposts, boards):
    """canonical rendering shared by implementation and model results (files sorted by name)"""
    s = ["0", str(len(outs))]
    for (idx, fn, aid) in outs:
        s += [str(idx), blob(fn), blob(aid)]
    s += [str(len(numposts))] + [str(x) for x in numposts]
    s.append(str(len(boards)))
    for b in boards:
        s += [str(b["total"]), blob(b["dir"]), enc_files(b["files"])]
    return " ".join(s)


def canon_model(line):
    t = line.split()
    if t[0] != "0":
        return " ".join(t)
    c = Cur(t); c.num()
    outs = []
    for _ in range(c.num()):
        idx = c.num(); fn = c.blob(); aid = c.blob()
        outs.append((idx, fn, aid))
    numposts = [c.num() for _ in range(c.num())]
    boards = []
    for _ in range(c.num()):
        total = c.num(); d = c.blob(); files = {}
        for _ in range(c.num()):
            n = c.blob(); files[n] = c.blob()
        boards.append({"total": total, "dir": d, "files": files})
    line = canon(outs, numposts, boards)
    if c.p < len(t):                                  # op 3: bbusystate busystateb.. lastposttime..
        line += " | " + " ".join(t[c.p:])
    return line


def canon_shm(shm):
    return " | " + " ".join(str(x) for x in [shm["bbusy"]] + shm["busyb"] + shm["lastpost"])


def parse_post(line):
    t = line.split()
    c = Cur(t)
    r = {"status": c.num()}
    r["t0"] = c.num(); r["t1"] = c.num()
    r["rnds"] = [c.num() for _ in range(8)]
    r["err"] = c.num()
    r["pre"] = c.state()
    if c.num() == 1:
        s = {"aid": c.blob(), "filename": c.blob(), "ctime": c.num(), "mtime": c.num(), "owner": c.blob(),
             "fulltitle": c.blob(), "money": c.num(), "filemode": c.num(), "class": c.blob(), "realtitle": c.blob(), "idx": c.blob()}
        r["summary"] = s
    else:
        r["summary"] = None
    r["post"] = c.state()
    r["fetch"] = {"err": c.num(), "mtime": c.num(), "content": c.blob()}
    l = {"err": c.num(), "n": c.num(), "newest": c.num()}
    l["aid"] = c.blob(); l["filename"] = c.blob(); l["fulltitle"] = c.blob(); l["owner"] = c.blob()
    r["list"] = l
    return r


# ------------------------------------------------------------------ reference written from the property text (not from the model)
WD = ["Mon", "Tue", "Wed", "Thu", "Fri", "Sat", "Sun"]
MO = ["Jan", "Feb", "Mar", "Apr", "May", "Jun", "Jul", "Aug", "Sep", "Oct", "Nov", "Dec"]


def ref_ctime(t):
    g = time.gmtime(t + 8 * 3600)                      # Asia/Taipei
    return ("%s %s %2d %02d:%02d:%02d %d" % (WD[g.tm_wday], MO[g.tm_mon - 1], g.tm_mday, g.tm_hour, g.tm_min, g.tm_sec, g.tm_year)).encode()


def ref_datemd(t):
    g = time.gmtime(t + 8 * 3600)
    return ("%2d/%02d" % (g.tm_mon, g.tm_mday)).encode()


MOVE = re.compile(rb"\x1b([0-9;,\[]*)([ABCDfjHJRu])")


def ref_line(l):
    i = l.find(b"\0")
    if i >= 0:
        l = l[:i]
    l = l.rstrip(b" ")
    return MOVE.sub(lambda m: b"\x1b" + m.group(1) + b"s", l)


def cstr(b):
    i = b.find(b"\0")
    return b if i < 0 else b[:i]


def ref_header(sc, u, bi, title, t):
    usr = sc["users"][u]
    brd = sc["boards"][bi]
    out = b"\xa7\x40\xaa\xcc: " + cstr(usr["id"]) + b" (" + cstr(usr["nick"]) + b") \xac\xdd\xaa\x4f: " + cstr(brd["name"]) + b"\n"
    return out + b"\xbc\xd0\xc3\x44: " + title + b"\n\xae\xc9\xb6\xa1: " + ref_ctime(t) + b"\n\n"


def ref_body(lines):
    """one stored line (with its line feed) per submitted line, in order — for every number of lines and every line
    length; only an empty last line is not stored"""
    body = list(lines)
    if body and len(body[-1]) == 0:
        body = body[:-1]
    return [ref_line(l) + b"\n" for l in body]


def ref_tail(sc, bi, name):
    brd = sc["boards"][bi]
    out = b"\n--\n\xa1\xb0 \xb5\x6f\xab\x48\xaf\xb8: \xb7\x73\xa7\xe5\xbd\xf0\xbd\xf0(ptt2.cc), \xa8\xd3\xa6\xdb: " + IP + b"\n"
    return out + b"\xa1\xb0 \xa4\xe5\xb3\xb9\xba\xf4\xa7\x7d: http://localhost/bbs/" + cstr(brd["name"]) + b"/" + name + b".html\n"


def ref_article(sc, u, bi, title, t, lines, name):
    return ref_header(sc, u, bi, title, t) + b"".join(ref_body(lines)) + ref_tail(sc, bi, name)


MAX_EDIT_LINE = 2048      # ptttype.MAX_EDIT_LINE / WRAPMARGIN: limits of the terminal editor, NOT of a post request
WRAPMARGIN = 511


def size_class(q):
    """signature of the size class of a body (part of the violation key of the line-by-line clause)"""
    n = len(q["lines"])
    longest = max([len(l) for l in q["lines"]] or [0])
    total = sum(len(l) + 1 for l in q["lines"])
    if n > MAX_EDIT_LINE:
        return ":more-than-%d-lines" % MAX_EDIT_LINE
    if longest > WRAPMARGIN:
        return ":line-longer-than-%d-bytes" % WRAPMARGIN
    if total >= 65536:
        return ":body-of-64KiB-or-more"
    return ""


def abbr(b, n=48):
    return repr(b) if len(b) <= n else "%r...(%d bytes)" % (b[:n], len(b))


def lines_clause(sc, q, r, want_title, name):
    """'every submitted line': the article returned by bbs.GetArticle for the returned id is walked line by line
    against the submitted lines (each trimmed / defused by the reference above). Returns None or a description."""
    if r["fetch"]["err"] != 0:
        return None                                   # reported by fetch-by-id
    got = r["fetch"]["content"]
    head = None
    for t in range(r["t0"], r["t1"] + 1):
        h = ref_header(sc, q["u"], q["b"], want_title, t)
        if got.startswith(h):
            head = h
            break
    if head is None:
        return None                                   # header differs: reported by file-content
    want = ref_body(q["lines"])
    tail = ref_tail(sc, q["b"], name)
    pos, k = len(head), 0
    while k < len(want) and got[pos:pos + len(want[k])] == want[k]:
        pos += len(want[k]); k += 1
    what = "submitted %d lines (%d to be stored, %d bytes)" % (len(q["lines"]), len(want), sum(len(w) for w in want))
    if k < len(want):
        room = len(got) - len(head) - len(tail)
        return "%s: the article read back by id holds the first %d of them, then instead of line %d (%s) it continues with %s; %d bytes between header and signature, %d expected" % (
            what, k, k, abbr(want[k]), abbr(got[pos:pos + 60]), room, sum(len(w) for w in want))
    if got[pos:] != tail:
        return "%s: all of them are in the article read back by id, but they are followed by %s instead of the signature %s" % (what, abbr(got[pos:pos + 80], 80), abbr(tail, 80))
    return None


def shm_class(pre, bi):
    """signature of the condition the shared memory around the board cache was in when the post was made (part of
    the violation key of the cached-count clause); empty for the condition of a freshly initialised cache"""
    sh, b = pre["shm"], pre["boards"][bi]
    if sh["bbusy"] != 0:
        return ":board-cache-busy-flag-set"
    if sh["busyb"][bi] != 0:
        return ":board-busy-stamp-set"
    if b["total"] != 0 and b["total"] != len(b["dir"]) // 128:
        return ":stale-cached-count"
    return ""


def shm_words(pre, bi):
    sh, b = pre["shm"], pre["boards"][bi]
    if sh["bbusy"] == 0 and sh["busyb"][bi] == 0 and b["total"] in (0, len(b["dir"]) // 128):
        return ""
    return " (before the post: Shm.BBusyState %d, BusyStateB of the board %d, Shm.Total %d with %d entries in the index, LastPostTime %d)" % (
        sh["bbusy"], sh["busyb"][bi], b["total"], len(b["dir"]) // 128, sh["lastpost"][bi])


def role_ok(sc, u, bi):
    return sc["users"][u]["priv"] or u in sc["boards"][bi]["mods"]


def ref_title(sc, u, bi, cls, title):
    full = (b"[" + cls + b"] " + title) if cls else title
    if not role_ok(sc, u, bi) and full.startswith(TAG):
        full = full[len(TAG):]                          # the announcement tag is reserved to moderators
    return full


def clauses(sc, q, r):
    """The clauses of the property text, evaluated on what the implementation left on disk / in shared memory /
    returned. Returns (verdict, [(key, description)], file name, index entry); verdict: ok | crash | refused."""
    pre, post = r["pre"], r["post"]
    pb, ab_ = pre["boards"][q["b"]], post["boards"][q["b"]]
    if r["status"] != 0:
        orphan = sorted(set(ab_["files"]) - set(pb["files"]))
        return "crash", [("crash", "bbs.CreateArticle panics for %s; files left behind in the board directory: %r, index %s" % (
            describe(q), [n.decode("latin-1") for n in orphan], "unchanged" if ab_["dir"] == pb["dir"] else "changed"))], None, None
    if r["err"] != 0 or r["summary"] is None:
        return "refused", [], None, None
    s = r["summary"]
    bad = []
    # one more index entry, earlier bytes unchanged
    if not (len(ab_["dir"]) == len(pb["dir"]) + 128 and ab_["dir"][:len(pb["dir"])] == pb["dir"]):
        bad.append(("index-grows-by-one", "len before %d, after %d, old bytes %s" % (len(pb["dir"]), len(ab_["dir"]), "unchanged" if ab_["dir"][:len(pb["dir"])] == pb["dir"] else "CHANGED")))
    entry = ab_["dir"][-128:] if len(ab_["dir"]) >= 128 else b"\0" * 128
    name = cstr(entry[0:28])
    # ... naming a new article file; nothing else in the board directory changes; the other board is untouched
    newf = sorted(set(ab_["files"]) - set(pb["files"]))
    gone = sorted(set(pb["files"]) - set(ab_["files"]))
    changed = sorted(n for n in pb["files"] if n in ab_["files"] and pb["files"][n] != ab_["files"][n])
    if newf != [name] or gone or changed or name in pb["files"]:
        bad.append(("directory-diff", "entry names %r; new files %r, removed %r, changed %r" % (name, newf, gone, changed)))
    shape = re.fullmatch(rb"M\.\d{10}\.A\.[0-9A-F]{3}", name)
    if not shape:
        bad.append(("file-name-shape", "entry names %r" % name))
    for ob_ in range(len(pre["boards"])):
        if ob_ != q["b"] and pre["boards"][ob_] != post["boards"][ob_]:
            bad.append(("other-board-untouched", "board %s changed by a post to %s" % (BOARDS[ob_], BOARDS[q["b"]])))
    # owner, title, date
    want_title = ref_title(sc, q["u"], q["b"], q["cls"], q["title"])
    if entry[34:48] != (cstr(sc["users"][q["u"]]["id"]) + b"\0" * 14)[:14]:
        bad.append(("owner-recorded", "owner field %r" % entry[34:48]))
    if entry[54:119] != (want_title[:65] + b"\0" * 65)[:65]:
        bad.append(("title-recorded", "title field %r, expected the first 65 bytes of %r" % (entry[54:119], want_title)))
    stamp_t = int(name[2:12]) if shape else 0
    if entry[48:54] != ref_datemd(stamp_t) + b"\0":
        bad.append(("date-recorded", "date field %r for stamp time %d" % (entry[48:54], stamp_t)))
    if not (r["t0"] + 1 <= stamp_t <= r["t1"] + 8):
        bad.append(("stamp-time", "stamp time %d outside [%d, %d]" % (stamp_t, r["t0"] + 1, r["t1"] + 8)))
    # the file holds header, every submitted line (trimmed, defused), signature (and the URL line)
    got_file = ab_["files"].get(name, b"<missing>")
    wants = [ref_article(sc, q["u"], q["b"], want_title, t, q["lines"], name) for t in range(r["t0"], r["t1"] + 1)]
    if got_file not in wants:
        bad.append(("file-content", "file %r holds %d bytes %s, expected %d bytes %s" % (name, len(got_file), abbr(got_file, 400), len(wants[0]), abbr(wants[0], 400))))
    # ... every submitted line, whatever their number and length: line by line on what bbs.GetArticle returns
    d = lines_clause(sc, q, r, want_title, name)
    if d:
        bad.append(("body-lines" + size_class(q), d))
    # cached count = index length; author's counter + 1, nobody else's
    if ab_["total"] != len(ab_["dir"]) // 128:
        bad.append(("cached-total" + shm_class(pre, q["b"]), "Shm.Total %d, index holds %d entries%s" % (ab_["total"], len(ab_["dir"]) // 128, shm_words(pre, q["b"]))))
    wantnp = [n + (1 if i == q["u"] else 0) for i, n in enumerate(pre["numposts"])]
    if post["numposts"] != wantnp:
        bad.append(("numposts", "NumPosts %r -> %r, expected %r" % (pre["numposts"], post["numposts"], wantnp)))
    # the returned id fetches exactly that file; the listing shows the entry
    if r["fetch"]["err"] != 0 or r["fetch"]["content"] != got_file:
        bad.append(("fetch-by-id", "GetArticle(%r): err=%d, %d bytes, file has %d bytes" % (s["aid"], r["fetch"]["err"], len(r["fetch"]["content"]), len(got_file))))
    if s["filename"] != name:
        bad.append(("summary-filename", "summary names %r, index entry names %r" % (s["filename"], name)))
    l = r["list"]
    if l["err"] != 0 or l["aid"] != s["aid"] or l["filename"] != name or l["fulltitle"] != cstr(entry[54:119]):
        bad.append(("listing", "LoadGeneralArticles newest entry: err=%d aid=%r filename=%r title=%r" % (l["err"], l["aid"], l["filename"], l["fulltitle"])))
    return "ok", bad, name, entry


def parse_scenario(line):
    cu = Cur(line.split()); cu.num()
    sc = {"users": [], "boards": []}
    for _ in range(cu.num()):
        priv = cu.num() == 1; uid = cu.num(); level = cu.num()
        sc["users"].append({"priv": priv, "uid": uid, "level": level, "id": cu.blob(), "nick": cu.blob()})
    for _ in range(cu.num()):
        bid = cu.num(); attr = cu.num(); name = cu.blob()
        sc["boards"].append({"bid": bid, "attr": attr, "name": name, "mods": [cu.num() for _ in range(cu.num())]})
    return sc


def enc_requests(qs):
    """the requests of a scenario as they go into a replay file (an optional "env": the shared-memory line sent just before)"""
    rs = []
    for q in qs:
        x = {"u": q["u"], "b": q["b"], "seed": q["seed"], "cls": list(q["cls"]), "title": list(q["title"]), "lines": [list(l) for l in q["lines"]], "edge": q.get("edge", 0), "shape": q.get("shape")}
        if q.get("env"):
            x["env"] = {"bbusy": list(q["env"]["bbusy"]), "boards": [[list(kv) for kv in b] for b in q["env"]["boards"]], "words": env_words(q["env"])}
        if q.get("clock"):
            x["clock"] = list(q["clock"]); x["clock_words"] = clock_words(q["clock"])
        rs.append(x)
    return rs


def replay(path):
    """./check C09 --replay f: re-run the recorded requests on the implementation built from the current tree and
    re-evaluate every clause on the last one."""
    import json
    obj = json.load(open(path))
    print("replay of %s: %s" % (path, obj.get("what", "")))
    if obj.get("dates"):
        replay_dates(obj["dates"])
    reqs = obj.get("requests")
    if not reqs:
        print(json.dumps(obj, indent=1)[:4000])
        print("(no replayable request list: this replay names the obligation/correspondence that no longer checks)")
        sys.exit(1)
    qs = [{"u": x["u"], "b": x["b"], "seed": x["seed"], "cls": bytes(x["cls"]), "title": bytes(x["title"]), "lines": [bytes(l) for l in x["lines"]], "kind": "replay", "edge": x.get("edge", 0), "shape": x.get("shape")} for x in reqs]
    for q, x in zip(qs, reqs):
        if x.get("env"):
            q["env"] = {"bbusy": tuple(x["env"]["bbusy"]), "boards": [tuple(tuple(kv) for kv in b) for b in x["env"]["boards"]]}
        if x.get("clock"):
            q["clock"] = tuple(x["clock"])
    impl = vf.build_impl()
    gl, pos = group_lines(qs)
    out = vf.run_impl(impl, "C09", ["0"] + gl, deadline_ms=120000)
    sc = parse_scenario(out[0])
    out = out[:2] + [out[1 + p_] for p_ in pos]
    violated = False
    for i, q in enumerate(qs):
        t = out[2 + i].split()
        if t[0] == "2":
            print("request %d: %s\n  -> hang" % (i, describe(q))); violated = True
            continue
        verdict, bad, name, entry = clauses(sc, q, parse_post(out[2 + i]))
        print("request %d: %s\n  -> %s %s" % (i, describe(q), verdict, "; ".join("%s: %s" % b for b in bad) if bad else ("file %s" % name.decode() if name else "")))
        if i == len(qs) - 1 and (verdict != "ok" or bad):
            violated = True
    vf.ipc_cleanup()
    print("replay: %s" % ("property still violated on this input" if violated else "input now behaves"))
    sys.exit(1 if violated else 0)


# ------------------------------------------------------------------ case generation
def gen_cases(c):
    rng = c.rng
    thorough = c.tier == "thorough"
    groups = []          # each group = list of requests, executed after a reset of the scratch boards
    singles = []

    def req(u, b, cls, title, lines, kind):
        return {"u": u, "b": b, "cls": bytes(cls), "title": bytes(title), "lines": [bytes(l) for l in lines], "kind": kind, "seed": rng.randrange(1, 2**31)}

    letters = b"abcdefghijklmnopqrstuvwxyzABCDEFGHIJKLMNOPQRSTUVWXYZ0123456789 -_:()"
    body0 = [b"first line  ", b"second\x1b[1;31mline\x1b[m", b""]

    def rtitle(n):
        return bytes(rng.choice(letters) for _ in range(n))

    # A. every title length 0..70, both class lengths, the three kinds of author
    for rep in range(8 if thorough else 1):
        for u in range(3):
            for cls in (b"", b"test"):
                for n in range(71):
                    singles.append(req(u, (n + u + rep) % 2, cls, rtitle(n), body0 if (n + rep) % 7 else [], "title-len"))
    # B. titles that start with the announcement tag or with a proper prefix of it; class equal to the tag's inside
    for u in range(3):
        for cls in (b"", b"test", TAG[1:5]):
            for n in [6, 7, 8, 30, 58, 59, 60, 64, 65, 66, 70]:
                singles.append(req(u, rng.randrange(2), cls, (TAG + rtitle(70))[:n], body0, "title-tag"))
            for n in range(1, 6):
                singles.append(req(u, rng.randrange(2), cls, TAG[:n], [b"x"], "title-tag-prefix"))
    # C. a DBCS lead byte exactly at position 64 of the stored title (the character is cut in half), and at 63/64
    for u in range(3):
        for cls in (b"", b"test"):
            pre = len(cls) + 3 if cls else 0
            for pos in (62, 63, 64):
                t = rtitle(pos - pre) + b"\xa4\x40\xa4\x41\xa4\x42"
                singles.append(req(u, rng.randrange(2), cls, t[:70 - pre] if pre else t[:70], body0, "title-dbcs"))
    # D. ANSI / control / arbitrary bytes in titles and classes
    specials = [b"\x1b[1;31mred\x1b[m title", b"\x1b[10;20Hmoved", b"a\0b after nul", b"two\nlines", b"\xff\xfe\x80\x81", b"tab\there", b"\x1b", b"\r\n",
                b" leading blank", b"trailing blank   ", b"%s%d%v", b"[test] nested", b"]", b"[", b"Re: reply", b"Fw: [x]"]
    for i, t in enumerate(specials):
        for u in range(3):
            singles.append(req(u, (i + u) % 2, [b"", b"test", b"\x1b[1m", b"a\0bc"][(i + u) % 4], t, body0, "title-bytes"))
    for _ in range(2000 if thorough else 40):
        n = rng.randrange(0, 71)
        singles.append(req(rng.randrange(3), rng.randrange(2), rng.choice([b"", bytes(rng.randrange(256) for _ in range(4))]),
                           bytes(rng.choice([0, 10, 27, 32, 91, 93, 0xa4, 0xbd, 0x80, 0xff, 65, 66, 48]) if rng.random() < 0.5 else rng.randrange(256) for _ in range(n)),
                           body0, "title-random"))
    # E. bodies
    bodies = [
        [], [b""], [b"", b""], [b" "], [b"   ", b""], [b"only line"], [b"only line", b""], [b"trail   ", b"trail \t ", b"trail\t", b""],
        [b"nul\0hidden tail", b"\0starts with nul", b"abc  \0  ", b""], [b"\x1b[A", b"\x1b[10B", b"\x1b[1;2C", b"\x1b[D", b"\x1b[5;5f", b"\x1b[j", b"\x1b[3;4H", b"\x1b[2J", b"\x1b[R", b"\x1b[u", b"\x1b[s", b"\x1b[K", b"\x1b[m"],
        [b"\x1b", b"\x1b\x1b", b"\x1b[", b"\x1b[1;", b"x\x1b[1;31", b"\x1bA", b"\x1b\x1b[H", b"\x1b[;;,,[[H", b"\x1b[1m\x1b[2J\x1b[3;3H text \x1b[0m  "],
        [b"\x1b[H\x1b[H\x1b[H", b"AB\x1bCD", b"\x1b[1;1Hx\x1b[2;2Hy  ", b"\x1b[?25l", b"\x1b[1 A", b"\x1bxA"],
        [b"\xa4\xa4\xa4\xe5 big5 \xa4\x40  ", b"\x80\xff", b"\r", b"cr\r", b"  leading", b"%s %d %v %!", b"--", b"\xa1\xb0 looks like a signature"],
        [bytes(range(1, 256)), bytes(range(256)), b"x" * 300 + b"   ", b" " * 100],
        [b"a", b"", b"b", b"", b""], [b"last is blank but not empty", b" "], [b"last has nul", b"\0"],
    ]
    for i, bd in enumerate(bodies):
        for u in range(3):
            singles.append(req(u, (i + u) % 2, [b"", b"test"][(i + u) % 2], rtitle(10 + i), bd, "body"))
    alpha = [0, 27, 27, 32, 32, 32, ord("["), ord(";"), ord(","), ord("1"), ord("9"), ord("A"), ord("H"), ord("J"), ord("f"), ord("j"), ord("u"), ord("R"), ord("m"), ord("s"), ord("x"), 9, 13, 0x80, 0xa4, 0xfe]
    for _ in range(6000 if thorough else 90):
        nl = rng.randrange(0, 7)
        bd = [bytes(rng.choice(alpha) for _ in range(rng.randrange(0, 14))) for _ in range(nl)]
        if rng.random() < 0.4:
            bd.append(b"")
        singles.append(req(rng.randrange(3), rng.randrange(2), rng.choice([b"", b"test"]), rtitle(rng.randrange(0, 71)), bd, "body-random"))
    rng.shuffle(singles)
    for i in range(0, len(singles), 6):
        groups.append(singles[i:i + 6])
    # F. sequences of up to five posts over the two boards (same and different authors)
    for _ in range(2000 if thorough else 45):
        k = rng.randrange(2, 6)
        seq = []
        b_first = rng.randrange(2)
        for j in range(k):
            bd = [bytes(rng.choice(alpha) for _ in range(rng.randrange(0, 10))) for _ in range(rng.randrange(0, 4))]
            t = rng.choice([rtitle(rng.randrange(0, 71)), TAG + rtitle(5), TAG[:rng.randrange(1, 6)], b""])
            seq.append(req(rng.randrange(3), b_first if rng.random() < 0.5 else rng.randrange(2), rng.choice([b"", b"test"]), t, bd, "sequence"))
        groups.append(seq)
    # G. posts started a few hundred microseconds before the wall-clock second changes: the clock readings of one
    #    post differ (stamp / header / second stamp), which the model takes as three separate observed inputs
    edge = []
    for us in ([150, 400, 900, 250, 600, 1500] if thorough else [300, 700]):
        q = req(rng.randrange(3), rng.randrange(2), b"test", rtitle(20), body0, "second-boundary")
        q["edge"] = us
        edge.append(q)
    groups.append(edge)
    return groups


def gen_size_cases(c, sc):
    """H. size boundaries of the body and of its lines, through bbs.CreateArticle / bbs.GetArticle: numbers of lines
    around ptttype.MAX_EDIT_LINE (a limit of the terminal editor that a post request does not have) and far beyond,
    single lines around 80 / 256 / WRAPMARGIN / 4 KiB / 64 KiB, bodies and whole files whose size crosses 64 KiB
    (1 MiB in the thorough tier). Every large post is a scenario of its own (boards reset before)."""
    rng = c.rng
    thorough = c.tier == "thorough"
    letters = b"abcdefghijklmnopqrstuvwxyzABCDEFGHIJKLMNOPQRSTUVWXYZ0123456789 -_:()"
    k = [0]

    def req(cls, title, lines, kind, shape, u=None, b=None):
        k[0] += 1
        return {"u": k[0] % 3 if u is None else u, "b": (k[0] // 3) % 2 if b is None else b, "cls": bytes(cls), "title": bytes(title),
                "lines": [bytes(l) for l in lines], "kind": kind, "shape": shape, "seed": rng.randrange(1, 2**31)}

    def rtitle(n):
        return bytes(rng.choice(letters) for _ in range(n))

    def numbered(n, tail_empty=False):
        ls = []
        for i in range(n):
            l = b"line-%05d" % i
            if i % 97 == 3:
                l += b"   "                                   # trailing blanks
            if i % 211 == 5:
                l = b"\x1b[%d;1H" % (i % 24 + 1) + l           # a cursor-movement escape
            if i % 503 == 7:
                l += b"\0after-nul"
            ls.append(l)
        if tail_empty:
            ls.append(b"")
        return ls

    def pattern(n, salt=0):
        return bytes(33 + ((i * 7 + salt) % 90) for i in range(n))   # printable, no blank, no ESC

    groups = []
    # H1. number of lines
    counts = [0, 1, MAX_EDIT_LINE - 1, MAX_EDIT_LINE, MAX_EDIT_LINE + 1, 5000]
    if thorough:
        counts += [2, MAX_EDIT_LINE + 2, 4095, 4096, 4097, 10000, 32000, 32001, 65535, 65536, 65537]
    for n in counts:
        groups.append([req(b"", rtitle(12), numbered(n), "size-lines", "%d numbered lines" % n)])
    for n in [MAX_EDIT_LINE, MAX_EDIT_LINE + 1] + ([5000, 32000] if thorough else []):
        groups.append([req(b"test", rtitle(12), numbered(n, True), "size-lines", "%d numbered lines and an empty last line" % n)])
    # H2. length of one line (between two short lines; for some lengths also as the only line)
    widths = [0, 79, 80, 81, 255, 256, WRAPMARGIN, WRAPMARGIN + 1, 4095, 4096, 70000]
    if thorough:
        widths += [1, 257, 1023, 1024, 8191, 8192, 32767, 32768, 65535, 65536, 65537, 1 << 20]
    for n in widths:
        groups.append([req(b"", rtitle(12), [b"before", pattern(n), b"after"], "size-line-bytes", "a line of %d bytes between two short lines" % n)])
    for n in [256, 4096, 70000] + ([65536, 1 << 20] if thorough else []):
        groups.append([req(b"", rtitle(12), [b"before", pattern(n - 40) + b" " * 40, b"after"], "size-line-bytes", "a line of %d bytes, the last 40 of them blanks" % n)])
        esc = bytearray(pattern(n))
        for at in range(100, n - 8, 1000):
            esc[at:at + 6] = b"\x1b[5;5H"
        groups.append([req(b"test", rtitle(12), [b"before", bytes(esc), b"after"], "size-line-bytes", "a line of %d bytes with a cursor-movement escape every 1000 bytes" % n)])
    for n in [4096, 70000]:
        groups.append([req(b"", rtitle(12), [pattern(n, 3)], "size-line-bytes", "a line of %d bytes as the only line" % n)])
    groups.append([req(b"", rtitle(12), [b"before", b" " * 4096, b"after", b" " * 300], "size-line-bytes", "lines of 4096 and 300 blanks")])
    # H3. the stored body / the first write (header..signature) / the whole file is 64 KiB - 1, 64 KiB, 64 KiB + 1 bytes
    def sized(total, width, base):
        """lines of width bytes (+ line feed) whose stored size is total - base"""
        room = total - base
        ls = []
        i = 0
        while room > 2 * (width + 1):
            ls.append(pattern(width, i)); room -= width + 1; i += 1
        a = room // 2
        ls += [pattern(a - 1, i), pattern(room - a - 1, i + 1)]
        assert sum(len(l) + 1 for l in ls) == total - base
        return ls

    def bases(u, b, title):
        return len(ref_header(sc, u, b, ref_title(sc, u, b, b"", title), 0)), len(ref_tail(sc, b, b"M.1234567890.A.123"))

    marks = [(65536, 63, "64 KiB")] + ([(1 << 20, 255, "1 MiB")] if thorough else [])
    for (mark, width, label) in marks:
        for d in (-1, 0, 1):
            groups.append([req(b"", rtitle(12), sized(mark + d, width, 0), "size-total", "stored body of %s%+d bytes" % (label, d))])
        for d in (-1, 0, 1):
            u, b, title = 2, 0, rtitle(12)
            h, t = bases(u, b, title)
            groups.append([req(b"", title, sized(mark + d, width, h + t), "size-total", "article file of %s%+d bytes" % (label, d), u=u, b=b)])
        u, b, title = 1, 1, rtitle(12)
        h, t = bases(u, b, title)
        urllen = len(b"\xa1\xb0 \xa4\xe5\xb3\xb9\xba\xf4\xa7\x7d: http://localhost/bbs/" + cstr(sc["boards"][b]["name"]) + b"/M.1234567890.A.123.html\n")
        groups.append([req(b"", title, sized(mark, width, h + t - urllen), "size-total", "header + body + signature of exactly %s (the URL line is appended by a second write)" % label, u=u, b=b)])
    # H4. random large bodies
    alpha = [0, 27, 27, 32, 32, 32, ord("["), ord(";"), ord("1"), ord("9"), ord("A"), ord("H"), ord("J"), ord("m"), ord("s"), ord("x"), 9, 13, 0x80, 0xa4, 0xfe]
    for _ in range(40 if thorough else 3):
        n = rng.randrange(MAX_EDIT_LINE + 1, 4000)
        bd = [bytes(rng.choice(alpha) for _ in range(rng.randrange(0, 14))) for _ in range(n)]
        if rng.random() < 0.4:
            bd.append(b"")
        groups.append([req(rng.choice([b"", b"test"]), rtitle(rng.randrange(0, 71)), bd, "size-random", "%d random short lines" % len(bd))])
    # H5. large posts inside a sequence: the later posts leave the large articles alone, the index keeps growing by one
    groups.append([req(b"", rtitle(12), numbered(MAX_EDIT_LINE + 1), "size-sequence", "%d numbered lines" % (MAX_EDIT_LINE + 1), u=2, b=0),
                   req(b"test", rtitle(12), [b"short"], "size-sequence", None, u=1, b=0),
                   req(b"", rtitle(12), [b"before", pattern(70000), b"after"], "size-sequence", "a line of 70000 bytes between two short lines", u=0, b=0),
                   req(b"", rtitle(12), numbered(3), "size-sequence", None, u=2, b=1)])
    return groups


# ------------------------------------------------------------------ I. unusual but legal conditions of the shared memory around a post
KEEP = (0, 0)
LISTED = (2, 0)          # somebody lists the board: cache.GetBTotalWithRetry puts the cached count in sync
T_MAX = 2**31 - 1


def env_line(e):
    g = ["3", "%d %d" % e["bbusy"]]
    for (busyb, total, last) in e["boards"]:
        g.append("%d %d %d %d %d %d" % (busyb + total + last))
    return "|".join(g)


def env_words(e):
    def one(kv, what, rel):
        k, v = kv
        return {0: None, 1: "%s=%d" % (what, v), 2: "%s in sync (board listed)" % what, 3: "%s=%s%+d" % (what, rel, v)}[k]
    parts = [one(e["bbusy"], "Shm.BBusyState", "")]
    for i, (busyb, total, last) in enumerate(e["boards"]):
        parts += [one(busyb, "BusyStateB[%s]" % BOARDS[i], "now"), one(total, "Total[%s]" % BOARDS[i], "index length"), one(last, "LastPostTime[%s]" % BOARDS[i], "now")]
    return ", ".join(x for x in parts if x) or "nothing changed"


def gen_env_cases(c):
    """Posts made while shared state that belongs to other features is in an unusual but legal condition: the
    board-cache busy flag Shm.BBusyState left set by a loader that went away (any non-zero value; before the first
    post, after the board was listed, set and cleared in the middle of a sequence), the per-board busy stamps of
    ResetBoard (now, a few seconds ago, 1970, the far future), a cached count that is 0 / behind / ahead of the index,
    a stale LastPostTime — and all of them at once. With the global flag set every lookup of a board by name sleeps a
    second (two per post: the copy to ALLPOST), so these scenarios run in a driver of their own beside the others."""
    rng = c.rng
    thorough = c.tier == "thorough"
    letters = b"abcdefghijklmnopqrstuvwxyzABCDEFGHIJKLMNOPQRSTUVWXYZ0123456789 -_:()"

    def env(bbusy=None, b0=None, b1=None):
        return {"bbusy": (1, bbusy) if bbusy is not None else KEEP, "boards": [b0 or (KEEP, KEEP, KEEP), b1 or (KEEP, KEEP, KEEP)]}

    def brd(busyb=KEEP, total=KEEP, last=KEEP):
        return (busyb, total, last)

    def post(b, kind, e=None):
        q = {"u": rng.randrange(3), "b": b, "cls": rng.choice([b"", b"test"]), "title": bytes(rng.choice(letters) for _ in range(rng.randrange(1, 40))),
             "lines": [bytes(rng.choice(letters) for _ in range(rng.randrange(0, 30))) for _ in range(rng.randrange(1, 4))], "kind": kind, "seed": rng.randrange(1, 2**31)}
        if e:
            q["env"] = e
        return q

    nz = [1, -1, 2, T_MAX, -2**31, 255, 65536]
    groups = []
    b = rng.randrange(2)
    # the board was listed (count in sync), then a loader died with the flag set: same board twice, then the other one
    groups.append([post(b, "shm-busy-flag", env(1, brd(total=LISTED), brd(total=LISTED))), post(b, "shm-busy-flag"), post(1 - b, "shm-busy-flag")])
    # the flag is set before anything was counted (Total 0 before the first post)
    groups.append([post(1 - b, "shm-busy-flag", env(rng.choice(nz[1:]))), post(1 - b, "shm-busy-flag")])
    # set and cleared in the middle of a sequence
    groups.append([post(b, "shm-busy-flag"), post(b, "shm-busy-flag", env(rng.choice(nz))), post(b, "shm-busy-flag", env(0))])
    # per-board busy stamps (ResetBoard's): now / five seconds ago on the other board; 1970 and the far future
    groups.append([post(0, "shm-board-busy", env(None, brd(busyb=(3, 0), total=LISTED), brd(busyb=(3, -5)))), post(1, "shm-board-busy"), post(0, "shm-board-busy")])
    groups.append([post(1, "shm-board-busy", env(None, brd(busyb=(1, T_MAX)), brd(busyb=(1, 1), total=LISTED))), post(0, "shm-board-busy"), post(1, "shm-board-busy")])
    # a cached count behind / ahead of the index, a stale LastPostTime (0, 1970, tomorrow, the end of time)
    groups.append([post(0, "shm-stale", env(None, brd(total=(3, -1), last=(3, 86400)), brd(total=(3, 3), last=(1, 1)))), post(1, "shm-stale"), post(0, "shm-stale")])
    groups.append([post(1, "shm-stale", env(None, brd(total=LISTED, last=(1, 0)), brd(total=LISTED, last=(1, T_MAX)))), post(1, "shm-stale"),
                   post(0, "shm-stale", env(None, brd(total=(1, 0)), brd(total=(3, -2))))])
    # everything at once
    groups.append([post(b, "shm-busy-flag", env(1, brd(busyb=(3, 0), total=(3, -1), last=(1, T_MAX)), brd(busyb=(3, -3), total=(3, 2), last=(3, 86400)))), post(1 - b, "shm-busy-flag")])
    for _ in range(40 if thorough else 0):
        def rb():
            return brd(busyb=rng.choice([KEEP, (3, 0), (3, -rng.randrange(1, 20)), (1, rng.choice([1, T_MAX]))]),
                       total=rng.choice([KEEP, LISTED, (3, rng.randrange(-3, 4)), (1, 0)]),
                       last=rng.choice([KEEP, (1, 0), (1, 1), (1, T_MAX), (3, rng.randrange(-100000, 100000))]))
        g = [post(rng.randrange(2), "shm-random", env(rng.choice([None, None, 0] + nz), rb(), rb()))]
        for _ in range(rng.randrange(1, 4)):
            g.append(post(rng.randrange(2), "shm-random", env(rng.choice([None, 0] + nz), rb(), rb()) if rng.random() < 0.3 else None))
        groups.append(g)
    return groups


# ------------------------------------------------------------------ the clock of a long-running process
T_LO, T_HI = 1000000000 + 86400, 2**31 - 200000     # clock readings of the model's domain (10-digit times below 2^31), with room for a day


def local_midnight(y, m, d):
    """the first second of the calendar day y-m-d in Asia/Taipei (UTC+8, no DST in the range)"""
    return calendar.timegm((y, m, d, 0, 0, 0)) - 8 * 3600


def local_str(t):
    g = time.gmtime(t + 8 * 3600)
    return "%04d-%02d-%02d %02d:%02d:%02d +0800" % (g.tm_year, g.tm_mon, g.tm_mday, g.tm_hour, g.tm_min, g.tm_sec)


def clock_words(ck):
    mode, v = ck
    if mode == 0:
        return "the clock is the real one again"
    if mode == 2:
        return "the clock moves by %+d s (%+.3f days)" % (v, v / 86400.0)
    return "the clock reads %d = %s%s" % (v, local_str(v), " (set in the first half of a second)" if mode == 3 else "")


def gen_clock_cases(c):
    """One server process lives through day boundaries: the clock types.NowTS reads is moved (driver op 4) between the
    posts of a scenario — shortly before / after a local midnight (16:00 UTC), a UTC midnight (08:00 local), a month
    end, new year, 28/29 February, exactly one day / week / year later at the same time of day, and stepped back (a
    clock correction). Two posts are started a few hundred microseconds before the second that begins a new local day
    (first stamp on the old day, second stamp on the new one; or both stamps already on the new day). Every clause of
    the property is evaluated per post as everywhere else; the date recorded must be the calendar day (Asia/Taipei) of
    the time in the entry's own name, whatever this process stamped before."""
    rng = c.rng
    thorough = c.tier == "thorough"
    letters = b"abcdefghijklmnopqrstuvwxyzABCDEFGHIJKLMNOPQRSTUVWXYZ0123456789 -_:()"

    def post(kind, clock=None, b=None, edge=0):
        q = {"u": rng.randrange(3), "b": rng.randrange(2) if b is None else b, "cls": rng.choice([b"", b"test"]),
             "title": bytes(rng.choice(letters) for _ in range(rng.randrange(1, 40))),
             "lines": [bytes(rng.choice(letters) for _ in range(rng.randrange(0, 30))) for _ in range(rng.randrange(1, 4))], "kind": kind, "seed": rng.randrange(1, 2**31)}
        if clock:
            q["clock"] = clock
        if edge:
            q["edge"] = edge
        return q

    def rday():
        """midnight (local) that begins a random day of the range"""
        return ((rng.randrange(T_LO + 2 * 86400, T_HI - 400 * 86400) + 28800) // 86400) * 86400 - 28800

    groups = []
    b = rng.randrange(2)
    M = rday()
    # local midnight inside one UTC day: the last minute of a day, the first seconds of the next (same board, other board)
    groups.append([post("clock-local-midnight", (1, M - rng.randrange(3, 60)), b), post("clock-local-midnight", (1, M + rng.randrange(0, 5)), b), post("clock-local-midnight", None, 1 - b)])
    # UTC midnight inside one local day
    U = rday() + 8 * 3600
    groups.append([post("clock-utc-midnight", (1, U - rng.randrange(3, 60)), b), post("clock-utc-midnight", (1, U + rng.randrange(0, 5)), b)])
    # a whole day of one process: before / after local midnight, before / after UTC midnight, before / after the next local midnight
    M = rday()
    groups.append([post("clock-day", (1, M - 30)), post("clock-day", (1, M + 1)), post("clock-day", (1, M + 8 * 3600 - 20)), post("clock-day", (1, M + 8 * 3600 + 2)),
                   post("clock-day", (1, M + 86400 - 10)), post("clock-day", (1, M + 86400 + 3))])
    # new year (the padded one-digit month follows a two-digit one), a month end, 28 February with and without a 29th
    y = rng.randrange(2002, 2037)
    N = local_midnight(y + 1, 1, 1)
    groups.append([post("clock-new-year", (1, N - rng.randrange(3, 60)), b), post("clock-new-year", (1, N + rng.randrange(0, 5)), b)])
    E = local_midnight(rng.randrange(2002, 2037), rng.choice([10, 2, 3, 5, 12]), 1)
    groups.append([post("clock-month-end", (1, E - rng.randrange(3, 60))), post("clock-month-end", (1, E + rng.randrange(0, 5)))])
    ly = rng.choice([2004, 2008, 2012, 2016, 2020, 2024, 2028, 2032, 2036])
    F = local_midnight(ly, 2, 29)
    groups.append([post("clock-leap-day", (1, F - 20)), post("clock-leap-day", (1, F + 1)), post("clock-leap-day", (1, F + 86400 - 5)), post("clock-leap-day", (1, F + 86400 + 5))])
    F = local_midnight(ly + 1, 3, 1)
    groups.append([post("clock-leap-day", (1, F - 20)), post("clock-leap-day", (1, F + 1))])
    # the same time of day one day / one week / 365 / 366 days later (the clock is moved, not set)
    T = rng.randrange(T_LO, T_HI - 800 * 86400)
    groups.append([post("clock-days-later", (1, T)), post("clock-days-later", (2, 86400)), post("clock-days-later", (2, 6 * 86400)), post("clock-days-later", (2, 358 * 86400)),
                   post("clock-days-later", (2, 86400))])
    # the clock is stepped back over a local midnight and forward again
    M = rday()
    groups.append([post("clock-stepped-back", (1, M + 10), b), post("clock-stepped-back", (1, M - 20), b), post("clock-stepped-back", (1, M + 30), b)])
    # a post that is itself in flight while the local day changes: started some hundred microseconds before the clock
    # reaches M-1 (first stamp M-1: old day; second stamp M: new day) and before it reaches M (both stamps on the new day)
    M = rday()
    groups.append([post("clock-midnight-in-flight", (3, M - 2), b, edge=rng.choice([300, 700])), post("clock-midnight-in-flight", None, b)])
    M = rday()
    groups.append([post("clock-midnight-in-flight", (3, M - 1), b, edge=rng.choice([300, 700])), post("clock-midnight-in-flight", None, 1 - b)])
    # both ends of the range of 10-digit times below 2^31
    groups.append([post("clock-range-ends", (1, T_LO - 86400 + rng.randrange(100, 80000))), post("clock-range-ends", (1, T_HI + rng.randrange(0, 100000))), post("clock-range-ends", (0, 0))])
    # random walks of the clock
    steps = [1, 60, 3600, 8 * 3600, 16 * 3600, 86400 - 1, 86400, 86400 + 1, 7 * 86400, 30 * 86400, 365 * 86400, 366 * 86400]
    for _ in range(300 if thorough else 5):
        t = rng.randrange(T_LO + 400 * 86400, T_HI - 400 * 86400)
        if rng.random() < 0.5:
            t = ((t + 28800) // 86400) * 86400 - 28800 - rng.randrange(1, 30)        # shortly before a local midnight
        g = [post("clock-walk", (1, t))]
        for _ in range(rng.randrange(2, 5)):
            d = rng.choice(steps) * rng.choice([1, 1, 1, -1]) if rng.random() < 0.7 else rng.randrange(-400 * 86400, 400 * 86400)
            t = min(max(t + d, T_LO), T_HI)
            g.append(post("clock-walk", (1, t)))
        groups.append(g)
    return groups


def gen_dates(c):
    """Times for which types.Time4.Cdatemd (the date fhdrStamp records in every new index entry) is asked inside ONE
    process, in this order (driver op 5) — lists, each run in a driver process of its own:
    every local midnight of the range forwards (last second of a day, first second of the next), the same backwards,
    UTC midnights, the same time of day on consecutive / distant days, pairs inside one UTC day on two local days and
    inside one local day on two UTC days, random times."""
    rng = c.rng
    thorough = c.tier == "thorough"
    d_lo, d_hi = (T_LO + 28800) // 86400 + 1, (T_HI + 28800) // 86400 - 1
    fw = []
    for d in range(d_lo, d_hi):
        m = d * 86400 - 28800
        fw += [m - 1, m]
    bw = list(reversed(fw))
    mix = []
    for _ in range(40000 if thorough else 3000):
        t = rng.randrange(T_LO, T_HI)
        k = rng.randrange(6)
        if k == 0:        # same UTC day, two local days
            u = (t // 86400) * 86400
            mix += [u + rng.randrange(0, 57600), u + rng.randrange(57600, 86400)]
        elif k == 1:      # same local day, two UTC days
            m = ((t + 28800) // 86400) * 86400 - 28800
            mix += [m + rng.randrange(0, 28800), m + rng.randrange(28800, 86400)]
        elif k == 2:      # UTC midnight
            u = (t // 86400) * 86400
            mix += [u - 1, u, u + 1]
        elif k == 3:      # same time of day, other days
            mix += [t, min(t + 86400 * rng.choice([1, 2, 7, 30, 365, 366]), T_HI), t]
        elif k == 4:      # around a local midnight, in any order
            m = ((t + 28800) // 86400) * 86400 - 28800
            x = [m - 2, m - 1, m, m + 1]
            rng.shuffle(x)
            mix += x
        else:
            mix.append(t)
    return [("every local midnight of the range, forwards", fw), ("every local midnight of the range, backwards", bw), ("mixed order", mix)]


def dates_of(impl, ts, chunk=4000):
    """the 6-byte date fields the implementation gives for ts, asked in order inside one fresh driver process"""
    lines = ["5|" + " ".join(str(t) for t in ts[i:i + chunk]) for i in range(0, len(ts), chunk)]
    got = []
    for ln in vf.run_impl(impl, "C09", lines, deadline_ms=60000):
        t = ln.split()
        if t[0] != "0":
            return None
        got += [bytes(int(x) for x in t[1 + 6 * i:7 + 6 * i]) for i in range((len(t) - 1) // 6)]
    return got if len(got) == len(ts) else None


def replay_dates(ts):
    impl = vf.build_impl()
    got = dates_of(impl, ts)
    vf.ipc_cleanup()
    bad = got is None
    for i, t in enumerate(ts):
        g = got[i] if got else None
        ok_ = g == ref_datemd(t) + b"\0"
        bad = bad or not ok_
        print("time %d = %s -> date field %r%s" % (t, local_str(t), g, "" if ok_ else "   expected %r" % (ref_datemd(t) + b"\0")))
    print("replay: %s" % ("property still violated on this input" if bad else "input now behaves"))
    sys.exit(1 if bad else 0)


def group_lines(g):
    """driver lines of one scenario (reset, then per request an optional shared-memory line and the post) and the
    positions of the posts among them"""
    lines, pos = ["2"], []
    for q in g:
        if q.get("clock"):
            lines.append("4|%d %d" % q["clock"])
        if q.get("env"):
            lines.append(env_line(q["env"]))
        pos.append(len(lines))
        lines.append(impl_line(q))
    return lines, pos


def impl_line(q):
    return "1|%d %d %d %d|%s|%s|%s|%s" % (q["u"], q["b"], q["seed"], q.get("edge", 0), tk(q["cls"]), tk(q["title"]), enc_lines(q["lines"]), tk(IP))


def model_line(sc, pre, reqs):
    """reqs: list of (q, observed) with observed = (nowA, nowH, nowB, mtime, rnds)"""
    g = ["1", "%d %d %d" % (len(sc["users"]), len(sc["boards"]), len(reqs))]
    for i, u in enumerate(sc["users"]):
        g += ["%d %d" % (1 if u["priv"] else 0, pre["numposts"][i]), tk(u["id"]), tk(u["nick"])]
    for i, b in enumerate(sc["boards"]):
        g += [" ".join([str(pre["boards"][i]["total"])] + [str(m) for m in b["mods"]]), tk(b["name"]), tk(pre["boards"][i]["dir"]), enc_files(pre["boards"][i]["files"])]
    for q, (nA, nH, nB, mt, rnds) in reqs:
        g += ["%d %d %d %d %d %d" % (q["u"], q["b"], nA, nH, nB, mt), tk(rnds), tk(q["cls"]), tk(q["title"]), enc_lines(q["lines"]), tk(IP)]
    return "|".join(g)


def model_line_shm(sc, pre, reqs):
    sh = pre["shm"]
    t = model_line(sc, pre, reqs).split("|")
    return "|".join(["3", t[1], " ".join(str(x) for x in [sh["bbusy"]] + sh["busyb"]), " ".join(str(x) for x in sh["lastpost"])] + t[2:])


def describe(q):
    ls = q["lines"]
    body = "[" + ", ".join(abbr(l, 40) for l in ls[:6]) + (", ... %d lines, %d bytes in all" % (len(ls), sum(len(l) for l in ls)) if len(ls) > 6 else "") + "]"
    return "user=%s board=%s class=%r title=%r(len %d) lines=%s%s%s" % (USERS[q["u"]], BOARDS[q["b"]], q["cls"], q["title"], len(q["title"]), body,
                                                                     " shape=%s" % q["shape"] if q.get("shape") else "",
                                                                     (" [just before: %s]" % env_words(q["env"]) if q.get("env") else "")
                                                                     + (" [just before: %s]" % clock_words(q["clock"]) if q.get("clock") else ""))


def main():
    if "--replay" in sys.argv[1:-1]:
        replay(sys.argv[sys.argv.index("--replay") + 1])
    c = vf.Check("C09")
    thorough = c.tier == "thorough"
    c.prove()
    model_ok = c.model_ok()
    impl = vf.build_impl()
    model = vf.build_model("C09") if model_ok else None
    vf.ipc_cleanup()

    sc0 = parse_scenario(vf.run_impl(impl, "C09", ["0"])[0])     # users / boards of the fixture: the size cases aim at exact file sizes
    groups = gen_cases(c)
    groups += gen_size_cases(c, sc0)
    groups += gen_clock_cases(c)
    n_main = len(groups)
    groups += gen_env_cases(c)

    def run_groups(lo, hi, box):
        lines, idx = ["0"], []
        for gi in range(lo, hi):
            gl, pos = group_lines(groups[gi])
            for qi, p_ in enumerate(pos):
                idx.append((len(lines) + p_, gi, qi))
            lines += gl
        try:
            box["out"] = vf.run_impl(impl, "C09", lines, deadline_ms=20000)
        except BaseException as e:                     # SystemExit of a failed driver: re-raised in the main thread
            box["err"] = e
        box["idx"] = idx

    # the scenarios with the busy flag set sleep (two seconds per post, in the code under test): a driver of their own
    import threading
    box_env, box_main = {}, {}
    th = threading.Thread(target=run_groups, args=(n_main, len(groups), box_env))
    th.start()
    run_groups(0, n_main, box_main)
    th.join()
    for bx in (box_main, box_env):
        if "err" in bx:
            raise bx["err"]
    out = box_main["out"]
    index, outs_at = [], {}
    for bx in (box_main, box_env):
        for (li, gi, qi) in bx["idx"]:
            index.append((li, gi, qi))
            outs_at[(gi, qi)] = bx["out"][li]
    if box_env["out"][0] != out[0]:
        c.broken.append({"kind": "correspondence", "where": "the scenario description differs between the two drivers", "theorem": "correspondence scenario", "log": ""})

    # a post that did not return within the deadline: the scenario is run again alone with a long deadline before it counts
    hung = sorted(set(gi for (li, gi, qi) in index if outs_at[(gi, qi)].split()[0] in ("2", "7")))
    for gi in hung:
        gl, pos = group_lines(groups[gi])
        o2 = vf.run_impl(impl, "C09", ["0"] + gl, deadline_ms=120000)
        still = [qi for qi, p_ in enumerate(pos) if o2[1 + p_].split()[0] == "2"]
        if still:
            qi = still[0]
            c.violation("hang:post-does-not-return", "bbs.CreateArticle did not return within 120 s — %s" % describe(groups[gi][qi]),
                        {"cases": gl[:pos[qi] + 1], "request": describe(groups[gi][qi]), "requests": enc_requests(groups[gi][:qi + 1]), "got": "status 2 (no return within the deadline)"})
        else:
            for qi, p_ in enumerate(pos):
                outs_at[(gi, qi)] = o2[1 + p_]
    dead = set(gi for gi in hung if any(outs_at[(gi, qi)].split()[0] in ("2", "7") for qi in range(len(groups[gi]))))
    index = [x for x in index if x[1] not in dead]

    sc = parse_scenario(out[0])      # scenario description reported by the driver
    if sc != sc0:
        c.broken.append({"kind": "correspondence", "where": "the scenario description changed between two runs of the driver", "theorem": "correspondence scenario", "log": ""})

    results = {}
    for (li, gi, qi) in index:
        results[(gi, qi)] = parse_post(outs_at[(gi, qi)])

    # ------------------------------------------------------------ direct predicates from the property text
    def replay_obj(gi, qi, extra=None):
        cases = group_lines(groups[gi][:qi + 1])[0]
        o = {"cases": cases, "request": describe(groups[gi][qi]), "requests": enc_requests(groups[gi][:qi + 1])}
        if extra:
            o.update(extra)
        return o

    good = {}      # (gi, qi) -> (name, entry) for posts on which every clause held
    for (li, gi, qi) in index:
        q = groups[gi][qi]
        r = results[(gi, qi)]
        c.count(1, q["kind"])
        verdict, bad, name, entry = clauses(sc, q, r)
        full = (b"[" + q["cls"] + b"] " + q["title"]) if q["cls"] else q["title"]
        short = len(full) < len(TAG)
        if verdict == "crash":
            key = "crash:title-shorter-than-tag" if (short and not role_ok(sc, q["u"], q["b"])) else "crash:other"
            c.violation(key, bad[0][1], replay_obj(gi, qi, {"expected_behaviour": "status 0 (the author may post on this board)", "got": "status 1 (panic)"}))
            continue
        if verdict == "refused":
            c.broken.append({"kind": "correspondence", "where": "CreateArticle refused a permitted request", "theorem": "correspondence post(success path)",
                             "examples": [describe(q)], "log": ""})
            continue
        if r["t0"] > r["summary"]["mtime"] or r["summary"]["mtime"] > r["t1"]:
            # the recorded modification time is the file system's coarse clock: it may lag time.Now() by a tick, so it
            # is an observed input of the model and no clause of the property; only counted
            k_ = "mtime outside [t0,t1] (coarse fs clock)"
            c.cov["distribution"][k_] = c.cov["distribution"].get(k_, 0) + 1
        for (k, d) in bad:
            c.violation(k + (":short-title" if short else ""), "%s — %s" % (d, describe(q)), replay_obj(gi, qi, {"got": d}))
        if not bad:
            good[(gi, qi)] = (name, entry)
            c.nontrivial((q["u"], q["b"], q["cls"], q["title"], tuple(q["lines"])))

    # ------------------------------------------------------------ the recorded date inside one long-running process
    # types.Time4.Cdatemd is what fhdrStamp copies into the Date field of every new index entry. Asked for many times in
    # one process, in an order that crosses every local midnight of the range (forwards, backwards, mixed with UTC
    # midnights and repeats), every answer must be the calendar day (Asia/Taipei) of its own argument.
    date_lists = gen_dates(c)
    date_results = []
    for (what, ts) in date_lists:
        got = dates_of(impl, ts)
        date_results.append(got)
        if got is None:
            c.broken.append({"kind": "correspondence", "where": "driver op 5 (dates asked in one process: %s) failed" % what, "theorem": "correspondence dates", "log": ""})
            continue
        c.count(len(ts), "date of a time, asked in one process")
        for j, t in enumerate(ts):
            want = ref_datemd(t) + b"\0"
            if got[j] == want:
                continue
            # smallest history that still gives the wrong date: the time alone, then one earlier call plus this one (each in a fresh process)
            alone = dates_of(impl, [t])
            if alone and alone[0] != want:
                hist, key = [t], "date-recorded:date-of-time"
            else:
                hist, key = ts[:j + 1], "date-recorded:depends-on-earlier-stamps-of-the-process"
                for i in list(range(j - 1, max(-1, j - 12), -1)) + [0]:
                    two_ = dates_of(impl, [ts[i], t])
                    if two_ and two_[1] != want:
                        hist = [ts[i], t]
                        break
            c.violation(key, "types.Time4(%d).Cdatemd() — the date fhdrStamp records for an article stamped at %s — gives %r, expected %r, when the same process was asked before for %s" % (
                            t, local_str(t), got[j], want, ", ".join("%d (%s)" % (x, local_str(x)) for x in hist[:-1][-3:]) or "nothing"),
                        {"cases": ["5|" + " ".join(str(x) for x in hist[-4000:])], "dates": hist[-4000:], "expected": repr(want), "got": repr(got[j]), "list": what})
            break
    c.cov["distribution"]["local midnights crossed by the date sweep (each forwards and backwards)"] = len(date_lists[0][1]) // 2

    # ------------------------------------------------------------ correspondence with the extracted model
    def impl_canon(r, q):
        if r["status"] != 0:
            return str(r["status"])
        if r["err"] != 0 or r["summary"] is None:
            return "3"
        d = r["post"]["boards"][q["b"]]["dir"]
        return canon([(len(d) // 128, d[-128:][:28], r["summary"]["aid"])], r["post"]["numposts"], r["post"]["boards"])

    def triples(t0, t1):
        ts = list(range(t0, t1 + 1))
        return [(a, h, b) for a in ts for h in ts for b in ts if a <= h <= b]

    if model:
        cases, impls, cand = [], [], []
        for (li, gi, qi) in index:
            q = groups[gi][qi]; r = results[(gi, qi)]
            mt = r["summary"]["mtime"] if r["summary"] else r["t0"]
            for tr in triples(r["t0"], r["t1"]):
                cand.append((gi, qi, tr))
                cases.append(model_line(sc, r["pre"], [(q, (tr[0], tr[1], tr[2], mt, r["rnds"]))]))
        mo = [canon_model(x) for x in vf.run_model(model, cases)]
        chosen, k = {}, 0
        step_cases, step_impl, step_model = [], [], []
        for (li, gi, qi) in index:
            q = groups[gi][qi]; r = results[(gi, qi)]
            ic = impl_canon(r, q)
            n = len(triples(r["t0"], r["t1"]))
            pick = k
            for j in range(k, k + n):
                if mo[j] == ic:
                    pick = j
                    break
            chosen[(gi, qi)] = cand[pick][2]
            step_cases.append(cases[pick]); step_impl.append(ic); step_model.append(mo[pick])
            k += n
        vf.correspond(c, "post: state after = model(state before, request, observed clock/random)", step_cases, step_impl, step_model,
                      describe=lambda cs: "")
        c.count(len(step_cases), "model single-step")
        # sequences: the fold of the model from the first observed state must reach the last observed state
        seq_cases, seq_impl = [], []
        for gi, g in enumerate(groups):
            if gi in dead or gi >= n_main:              # the scenarios with shared-memory lines are folded below (op 3)
                continue
            rs = [results[(gi, qi)] for qi in range(len(g))]
            if len(g) < 2 or any(r["status"] != 0 or r["err"] != 0 or r["summary"] is None for r in rs):
                continue
            cont = all(rs[i]["post"] == rs[i + 1]["pre"] for i in range(len(g) - 1))
            if not cont:
                c.broken.append({"kind": "correspondence", "where": "state continuity between consecutive posts", "theorem": "correspondence sequence", "log": ""})
                continue
            reqs = []
            for qi, q in enumerate(g):
                tr = chosen[(gi, qi)]
                reqs.append((q, (tr[0], tr[1], tr[2], rs[qi]["summary"]["mtime"], rs[qi]["rnds"])))
            seq_cases.append(model_line(sc, rs[0]["pre"], reqs))
            outs = []
            for qi, q in enumerate(g):
                d = rs[qi]["post"]["boards"][q["b"]]["dir"]
                outs.append((len(d) // 128, d[-128:][:28], rs[qi]["summary"]["aid"]))
            seq_impl.append(canon(outs, rs[-1]["post"]["numposts"], rs[-1]["post"]["boards"]))
        if seq_cases:
            sm = [canon_model(x) for x in vf.run_model(model, seq_cases)]
            vf.correspond(c, "sequence: fold of the model over the posts of a scenario = observed final state", seq_cases, seq_impl, sm)
            c.count(len(seq_cases), "model sequence fold")
        # the posts made under unusual conditions of the shared memory: post_shm / post_seq_shm of the model (SetBTotal with
        # Shm.BBusyState, BusyStateB, LastPostTime explicit) on the observed memory before must give the memory after —
        # Total = index length, LastPostTime = the time in the new name, the busy flags as they were. Single steps, and
        # the fold over every run of posts between two shared-memory lines.
        e_cases, e_impl = [], []
        for gi in range(n_main, len(groups)):
            if gi in dead:
                continue
            g = groups[gi]
            rs = [results[(gi, qi)] for qi in range(len(g))]
            if any(r["status"] != 0 or r["err"] != 0 or r["summary"] is None for r in rs):
                continue

            def obs(qi):
                tr = chosen[(gi, qi)]
                return (g[qi], (tr[0], tr[1], tr[2], rs[qi]["summary"]["mtime"], rs[qi]["rnds"]))

            def out_of(qi):
                d = rs[qi]["post"]["boards"][g[qi]["b"]]["dir"]
                return (len(d) // 128, d[-128:][:28], rs[qi]["summary"]["aid"])

            starts = [qi for qi in range(len(g)) if qi == 0 or g[qi].get("env")] + [len(g)]
            for a, b_ in zip(starts, starts[1:]):
                if not all(rs[i]["post"] == rs[i + 1]["pre"] for i in range(a, b_ - 1)):
                    c.broken.append({"kind": "correspondence", "where": "state continuity between consecutive posts (shared-memory scenarios)", "theorem": "correspondence sequence", "log": ""})
                    continue
                spans = [(qi, qi + 1) for qi in range(a, b_)] + ([(a, b_)] if b_ - a > 1 else [])
                for (lo, hi) in spans:
                    e_cases.append(model_line_shm(sc, rs[lo]["pre"], [obs(qi) for qi in range(lo, hi)]))
                    last = rs[hi - 1]["post"]
                    e_impl.append(canon([out_of(qi) for qi in range(lo, hi)], last["numposts"], last["boards"]) + canon_shm(last["shm"]))
        if e_cases:
            em = [canon_model(x) for x in vf.run_model(model, e_cases)]
            vf.correspond(c, "post under any condition of the board cache's shared memory: state and memory after = post_seq_shm(state and memory before)", e_cases, e_impl, em)
            c.count(len(e_cases), "model post_shm / post_seq_shm")
        # the date of a time: the model's cdatemd (op 4, stamp_dates) on the same lists
        d_cases, d_impl = [], []
        for (what, ts), got in zip(date_lists, date_results):
            if got is None:
                continue
            for i in range(0, len(ts), 4000):
                d_cases.append("4|" + " ".join(str(t) for t in ts[i:i + 4000]))
                d_impl.append("0 " + " ".join(" ".join(str(x) for x in g_) for g_ in got[i:i + 4000]))
        if d_cases:
            dm = [" ".join(x.split()) for x in vf.run_model(model, d_cases)]
            vf.correspond(c, "dates: Cdatemd asked in one process for a list of times = stamp_dates of the model", d_cases, d_impl, dm, describe=lambda cs: "")
            c.count(len(d_cases), "model stamp_dates")
        # fetch: the model's decoder+lookup on the observed state returns the file
        f_cases, f_impl = [], []
        for (li, gi, qi) in index:
            q = groups[gi][qi]; r = results[(gi, qi)]
            if r["summary"] is None:
                continue
            b = r["post"]["boards"][q["b"]]
            f_cases.append("2|%d|%s|%s|%s|%s" % (b["total"], tk(sc["boards"][q["b"]]["name"]), tk(b["dir"]), enc_files(b["files"]), tk(r["summary"]["aid"])))
            f_impl.append("0 0" if r["fetch"]["err"] else ("0 1 " + tk(r["fetch"]["content"])).strip())
        if f_cases:
            fm = vf.run_model(model, f_cases)
            vf.correspond(c, "fetch: GetArticle(returned id) = model lookup of the decoded name", f_cases, f_impl, [" ".join(x.split()) for x in fm])
            c.count(len(f_cases), "model fetch")

    # samples and distribution
    for (li, gi, qi) in index[:400]:
        q = groups[gi][qi]; r = results[(gi, qi)]
        if q["kind"] in ("title-tag", "body", "title-dbcs") and (gi, qi) in good and len(c.cov["samples"]) < 6:
            name, entry = good[(gi, qi)]
            c.sample({"request": describe(q), "file": name.decode(), "aid": r["summary"]["aid"].decode("latin-1"), "stored_title": repr(cstr(entry[54:119])),
                      "numposts": "%r -> %r" % (r["pre"]["numposts"], r["post"]["numposts"]), "total": r["post"]["boards"][q["b"]]["total"]})
    c.cov["exhaustive_parts"] = ["every title length 0..70 (exact capacity) x class of 0 and 4 bytes x {SYSOP, moderator, plain verified user}",
                                 "every proper prefix of the announcement tag as a title x 3 classes x 3 authors",
                                 "body sizes through bbs.CreateArticle -> bbs.GetArticle: 0, 1, MAX_EDIT_LINE-1, MAX_EDIT_LINE, MAX_EDIT_LINE+1, 5000 lines; one line of 0, 79, 80, 81, 255, 256, "
                                 "WRAPMARGIN, WRAPMARGIN+1, 4095, 4096, 70000 bytes; stored body / article file of 64 KiB-1, 64 KiB, 64 KiB+1 bytes (thorough: 1 MiB, up to 65537 lines)",
                                 "every local midnight of the range of times (2001-09 .. 2038-01): types.Time4.Cdatemd asked in one process for the last second of a day and the first of the next, forwards and backwards",
                                 "conditions of the shared memory around a post (second driver, op 3): Shm.BBusyState non-zero before anything was counted / after the board was listed / set and "
                                 "cleared inside a sequence; BusyStateB = now, seconds ago, 1970, 2^31-1; Total 0, behind, ahead of the index; LastPostTime 0, 1970, tomorrow, 2^31-1; all at once"]
    c.cov["distribution"]["posts"] = len(index)
    c.cov["distribution"]["scenarios(reset between)"] = len(groups)
    c.cov["distribution"]["posts with Shm.BBusyState set"] = sum(1 for k_ in results if results[k_]["pre"]["shm"]["bbusy"] != 0)
    c.cov["distribution"]["posts with a per-board busy stamp set"] = sum(1 for k_ in results if any(results[k_]["pre"]["shm"]["busyb"]))
    c.cov["distribution"]["posts with a cached count out of sync before"] = sum(
        1 for k_ in results if results[k_]["pre"]["boards"][groups[k_[0]][k_[1]]["b"]]["total"] not in (0, len(results[k_]["pre"]["boards"][groups[k_[0]][k_[1]]["b"]]["dir"]) // 128))
    c.cov["distribution"]["scenarios dropped after a hang"] = len(dead)
    c.cov["distribution"]["posts made under a moved clock"] = sum(1 for g_ in groups for q_ in g_ if q_["kind"].startswith("clock-"))
    c.cov["distribution"]["posts in flight while the local day changed (clock readings of one post on two local days)"] = sum(
        1 for k_ in results if (results[k_]["t0"] + 28800) // 86400 != (results[k_]["t1"] + 28800) // 86400)
    c.cov["distribution"]["posts whose clock readings straddle the second before a local midnight (first stamp old day, second stamp new day possible)"] = sum(
        1 for k_ in results if results[k_]["t0"] != results[k_]["t1"] and (results[k_]["t1"] + 1 + 28800) % 86400 == 0)
    c.cov["distribution"]["clock straddled a second"] = sum(1 for k_ in results if results[k_]["t0"] != results[k_]["t1"])
    vf.ipc_cleanup()
    c.finish(rule="real posts through bbs.CreateArticle in a scratch BBSHOME; title lengths / tag prefixes / body-size boundaries / conditions of the board cache's shared memory enumerated, "
                  "title bytes, bodies and sequences from PRNG(seed); "
                  "a case is non-trivial if it is a distinct (author, board, class, title, body) on which the post succeeded and every clause of the property text held",
             assumptions=["clock readings, math/rand draws and the file modification time are observed inputs of the model (reported by the driver, which seeds math/rand per case)",
                          "Go's fmt / time formatting, os file operations and rename(2) are re-specified in Model/C09.v and exercised by the correspondence, not verified",
                          "the .post log (ptt.PostLog) and the cross-post copies in ALLPOST are outside this property's statement and are not compared",
                          "the clock of a long-running process: types.NowTS (the only clock the post path reads) is moved by the driver through the verif hook types.VerifSetClockOffset between posts, "
                          "and types.Time4.Cdatemd is asked for lists of times inside one process — validation on chosen histories (every local midnight of 2001-2038 for the date function; day / month / year "
                          "boundaries, later days, a clock stepped back and random walks for real posts); that the recorded date depends on the entry's own stamp time only is a theorem about the model "
                          "(C09_sequence_dates, C09_date_is_local_day), for the Go code it is what these histories test; file modification times still come from the kernel clock; histories are sequential",
                          "shared-memory conditions are set by the driver between requests (Shm.BBusyState, BusyStateB, Total, LastPostTime of the two scenario boards); another process writing the "
                          "board cache while a post is in flight is not exercised; a post that does not return within 20 s is re-run alone with a 120 s deadline before it is reported"])


if __name__ == "__main__":
    main()
