#!/usr/bin/env python3
"""C04 — the user-ID index: proofs in coq/Props/C04.v; histories of add / set / remove / cold load / reload / attach on a
real SysV segment through cache.*; after every step the chains walked in the attached memory and a battery of lookups are
compared with the extracted model and judged against a reference dict kept by the check."""
import os, sys
sys.path.insert(0, os.path.join(os.path.dirname(os.path.abspath(__file__)), "..", "lib"))
import vf

IDSZ = 13
IDLEN_MAX = 12
FNV_INIT, FNV_PRIME = 33554467, 0x01000193
ALNUM = b"abcdefghijklmnopqrstuvwxyzABCDEFGHIJKLMNOPQRSTUVWXYZ0123456789"
ALPHA = ALNUM[:52]
ADD, REMOVE, SET, SEARCH, DOSEARCH, GETID, WRITE, LOAD, RESET, UNLOAD, ATTACH, ATTACH_HDR, BATTERY, BUCKETS = 10, 11, 12, 13, 14, 15, 20, 21, 22, 23, 25, 26, 30, 31
BBS_RELOAD = 27
WSPARSE, SLOTS = 24, 32   # (WSPARSE, n, {slot: id}): a .PASSWDS of n records, the empty id everywhere else; (SLOTS, [slot..]): print the ids of these slots only
PREALLOC = 1000           # cache.PRE_ALLOCATED_USERS (compared with the compiled constant of both builds in main)
BY2 = 29   # (BY2, mode, op): op is executed by a second process attached to the existing segment (mode 1: NewSHM with the create flag); its Shm.IsNew is false
BY2_OPS = (ADD, REMOVE, SET, SEARCH, DOSEARCH, GETID, LOAD)
RELINK = 33   # (RELINK, mode): BBSHOME/.PASSWDS becomes 0 a regular file, 1 a symbolic link with an absolute target in another directory, 2 one with a relative target, 3 a link to a link; same records
PEER = 34     # (PEER, k, op): op is executed by the LONG-LIVED attached process k (0..2): it attaches once and keeps its process-private state until the history ends
LINKS = {0: "a regular file", 1: "a symbolic link (absolute target in another directory)", 2: "a symbolic link (relative target)", 3: "a symbolic link to a symbolic link to the table"}


def pad(b):
    return (bytes(b) + b"\0" * IDSZ)[:IDSZ]


def cpre(b):
    return bytes(b).split(b"\0")[0]


def over(longer, shorter):
    """the USER_ID_SZ-byte array of a variable (a caller's UserID_t, a .PASSWDS userid field, a query buffer) that held `longer` and was then reused
    for `shorter` with C-string semantics (UserID_t.CopyFrom, strlcpy): shorter, NUL, the leftovers of longer. As a C string it IS shorter."""
    a = bytearray(pad(longer))
    n = min(len(shorter), IDLEN_MAX)
    a[:n] = shorter[:n]
    a[n] = 0
    return bytes(a)


def valid_id(b):
    """ptttype.UserID_t.IsValid transcribed: 2..IDLEN characters before the first NUL, a letter first, letters and digits only"""
    p_ = cpre(pad(b))
    return 2 <= len(p_) <= IDLEN_MAX and p_[:1].isalpha() and p_.isalnum() and all(ch < 128 for ch in p_)


class Tab:
    """Userid[] of the reference: sparse (the docker build has 2 000 000 slots), the empty id by default"""

    def __init__(self, n):
        self.n, self.d = n, {}

    def __getitem__(self, s):
        if isinstance(s, slice):
            return [self.d.get(i, EMPTY) for i in range(*s.indices(self.n))]
        return self.d.get(s, EMPTY)

    def __setitem__(self, s, v):
        self.d[s] = v

    def __len__(self):
        return self.n

    def __iter__(self):
        raise TypeError("Tab is sparse: iterate over the slots of interest")

    def key(self):
        return tuple(sorted(self.d.items()))


EMPTY = pad(b"")
_FOLD = {}


def fold(b):
    v = _FOLD.get(b)
    if v is None:
        v = _FOLD[bytes(b)] = cpre(b).lower()
    return v


def pyhash(b, bits=16):
    """cmsys.StringHashWithHashBits transcribed: case-folded FNV-1a (32 bit), reduced modulo 2^HASH_BITS"""
    h = FNV_INIT
    for ch in bytes(b):
        if ch == 0:
            break
        if 97 <= ch <= 122:
            ch -= 32
        h = ((h ^ ch) * FNV_PRIME) & 0xffffffff
    return h % (1 << bits)


def showid(b):
    """an id as the C string it is, with the bytes behind its terminator when there are any"""
    b = pad(b)
    return cpre(b) if not b[len(cpre(b)):].strip(b"\0") else b.rstrip(b"\0")


def toks(b):
    return " ".join(str(x) for x in b)


def op_line(o):
    k = o[0]
    if k in (BY2, PEER):
        return "%d %d %s" % (k, o[1], op_line(o[2]))
    if k == RELINK:
        return "%d %d" % (k, o[1])
    if k in (ADD, SET):
        return "%d %d %s" % (k, o[1], toks(pad(o[2])))
    if k in (REMOVE, GETID):
        return "%d %d" % (k, o[1])
    if k in (SEARCH, DOSEARCH, BBS_RELOAD):
        return "%d %s" % (k, toks(pad(o[1])))
    if k in (WRITE, BATTERY):
        return ("%d " % k + " ".join(toks(pad(i)) for i in o[1])).strip()
    if k == WSPARSE:
        return ("%d %d " % (k, o[1]) + " ".join("%d %s" % (s_, toks(pad(i))) for s_, i in sorted(o[2].items()))).strip()
    if k in (BUCKETS, SLOTS):
        return ("%d " % k + toks(o[1])).strip()
    if k == ATTACH_HDR:
        return "%d %d %d" % (k, o[1], o[2])
    return "%d" % k


def case_line(ops, op="1"):
    return op + "|" + "|".join(op_line(o) for o in ops)


class Ref:
    """What the property text prescribes: which slot holds which id, which slots are in the index."""

    def __init__(self, maxu):
        self.maxu = maxu
        self.table = Tab(maxu)
        self.slots = range(maxu)   # the slots whose ids the driver prints
        self.indexed = set()
        self.file = []
        self.number = self.loaded = 0
        self.wild = True          # after Shm.Reset every head points at slot 0: not a state the property speaks about
        self.off_premise = False  # an operation outside the property's premises was issued; only the correspondence is judged from here on
        self.battery, self.buckets = [], []
        self.watching = False     # no (BUCKETS, ..) yet: the driver prints no chain (the docker scenarios set their buckets after the first load)
        self._hm = None
        self.mode = 0             # how .PASSWDS reaches the table (RELINK); the records are the same whichever way

    def holders(self, q):
        """uids of the indexed slots whose WHOLE id equals q up to letter case (never a prefix, never an extension)"""
        if self._hm is None:
            self._hm = {}
            for s in self.indexed:
                self._hm.setdefault(fold(self.table[s]), set()).add(s + 1)
        return self._hm.get(fold(q), set())

    def apply(self, o):
        """-> expected (status, code) or None when the property does not fix it"""
        k = o[0]
        self._hm = None
        if k in (BY2, PEER):                  # the same memory: who executes the operation must not matter, nor how long that process has been attached
            return self.apply(o[2])
        if k == RELINK:                       # the same records behind another kind of directory entry
            self.mode = o[1]
            return (0, 0)
        if k == ADD:
            slot = o[1]
            if not 0 <= slot < self.maxu:
                return None
            if slot in self.indexed or self.wild:
                self.off_premise = True       # AddToUHash on a slot that is already on a chain (the code base only adds after removing)
                return None
            self.table[slot] = pad(o[2]); self.indexed.add(slot)
            return (0, 0)
        if k == REMOVE:
            slot = o[1]
            if not 0 <= slot < self.maxu:
                return None
            self.indexed.discard(slot)
            return (0, 0)
        if k == SET:
            uid = o[1]
            if not 1 <= uid <= self.maxu:
                return (3, 3)
            self.table[uid - 1] = pad(o[2]); self.indexed.add(uid - 1)
            return (0, 0)
        if k == WRITE:
            self.file = [pad(i) for i in o[1]]
        elif k == WSPARSE:
            self.file = [EMPTY] * o[1]
            for s_, i in o[2].items():
                self.file[s_] = pad(i)
        elif k == SLOTS:
            self.slots = list(o[1]) if o[1] else range(self.maxu)
        elif k == RESET:
            self.table = Tab(self.maxu); self.indexed = set(); self.number = self.loaded = 0; self.wild = True
        elif k == UNLOAD:
            self.number = self.loaded = 0
        elif k == LOAD:
            n = len(self.file)
            # the loader's cap on free slots: records WITHOUT a valid id (free slots: the empty id) are filed only while at most PRE_ALLOCATED_USERS of them have been
            # seen; a later one is left alone (not stored, on no chain). A record with a valid id is ALWAYS stored and indexed, however many free records precede it.
            # A later record with a non-empty invalid id is a slot the property says nothing definite about (occupied by something that is not a user id).
            cnt, filed = 0, []
            for i in range(n):
                if self.file[i] is not EMPTY and valid_id(self.file[i]):
                    filed.append(i)
                    continue
                cnt += 1
                if cnt <= PREALLOC:
                    filed.append(i)
                elif self.file[i][0] != 0:
                    self.off_premise = True
                    return None
            if self.number == 0 and self.loaded == 0:                 # cold load: from any prior state
                for i in filed:
                    self.table[i] = self.file[i]
                self.indexed = set(filed); self.loaded = 1; self.wild = False
            else:                                                     # reload into a populated segment
                if self.wild or any(cpre(self.file[i]) != cpre(self.table[i]) for i in range(n) if self.file[i] is not EMPTY or i in self.table.d):
                    self.off_premise = True                           # .PASSWDS disagrees with the live table
                    return None
                self.indexed |= set(filed)
            self.number = n
        elif k == BATTERY:
            self.battery = [pad(i) for i in o[1]]
        elif k == BUCKETS:
            self.buckets = list(o[1]); self.watching = True
        elif k == ATTACH_HDR:
            return (0, 0) if (o[1], o[2]) == self.hdr else (3, 4) if o[1] != self.hdr[0] else (3, 5)
        return (0, 0)


def parse(line, ops, maxu):
    t = [int(x) for x in line.split()]
    if t[0] != 0:
        return None
    i, out = 1, []
    nslots = maxu
    for o in ops:
        if o[0] == SLOTS:
            nslots = len(o[1]) if o[1] else maxu
        if i == len(t) and out and out[-1][0] == 2:      # the driver abandons a history after a step that did not return
            break
        st, code = t[i], t[i + 1]; i += 2
        extra = None
        if o[0] in (BY2, PEER):
            o = o[2]
        if o[0] in (SEARCH, DOSEARCH, GETID):
            extra = bytes(t[i:i + IDSZ]); i += IDSZ
        elif o[0] == ATTACH:
            n = t[i]; extra = t[i + 1:i + 1 + n]; i += 1 + n
        number, loaded, nonempty, nb = t[i:i + 4]; i += 4
        chains = {}
        for _ in range(nb):
            h, k = t[i], t[i + 1]
            chains[h] = (t[i + 2:i + 2 + k], t[i + 2 + k]); i += 3 + k
        ids = [bytes(t[i + IDSZ * s:i + IDSZ * (s + 1)]) for s in range(nslots)]; i += IDSZ * nslots
        nl = t[i]; looks = t[i + 1:i + 1 + nl]; i += 1 + nl
        out.append((st, code, extra, number, loaded, nonempty, chains, ids, looks))
    assert i == len(t), (i, len(t))
    return out


def judge(ops, line, maxu, hdr):
    """first step where the implementation's own outputs contradict the property -> None | (step, key, text)"""
    obs = parse(line, ops, maxu)
    if obs is None and line.split()[:1] == ["2"]:
        # the first process itself did not come back before the driver's deadline; ops was cut at the operation that does not return
        r = Ref(maxu); r.hdr = hdr
        for o in ops[:-1]:
            r.apply(o)
        if r.off_premise:
            return None
        pre = "Number/Loaded = %d/%d, %s" % (r.number, r.loaded, "not loaded since Shm.Reset / creation (every head and link 0)" if r.wild else "%d slots indexed" % len(r.indexed))
        r.apply(ops[-1])
        if r.off_premise:
            return None
        return (len(ops) - 1, "hang", "%s executed by the first process (the creator of the segment) does not return on a segment with %s" % (
            {LOAD: "LoadUHash()", BBS_RELOAD: "bbs.ReloadUHash"}.get(ops[-1][0], "op %d" % ops[-1][0]), pre))
    if obs is None:
        return (0, "driver", "case status " + line[:20])
    r = Ref(maxu); r.hdr = hdr
    for n, (o, ob) in enumerate(zip(ops, obs)):
        st, code, extra, number, loaded, nonempty, chains, ids, looks = ob
        pre = "Number/Loaded = %d/%d, %s" % (r.number, r.loaded, "not loaded since Shm.Reset / creation (every head and link 0)" if r.wild else "%d slots indexed" % len(r.indexed))
        exp = r.apply(o)
        if r.off_premise:
            return None
        who = ""
        if o[0] == BY2:
            who = " executed by a second process (attached to the existing segment with NewSHM(isCreate=%s), IsNew=false)" % ("true" if o[1] else "false")
            o = o[2]
        elif o[0] == PEER:
            who = " executed by the long-lived attached process %d (attached once with NewSHM(isCreate=false), alive since its first operation in this history)" % o[1]
            o = o[2]
        name = {ADD: "AddToUHash", REMOVE: "RemoveFromUHash", SET: "SetUserID", SEARCH: "SearchUserRaw", DOSEARCH: "DoSearchUserRaw", GETID: "GetUserID", LOAD: "LoadUHash",
                ATTACH: "attach by a second process", ATTACH_HDR: "attach with header"}.get(o[0], "op %d" % o[0])
        desc = "%s%s%s" % (name, tuple(showid(x) if isinstance(x, (bytes, bytearray)) else x for x in o[1:]) if o[0] not in (WRITE, WSPARSE, SLOTS, BATTERY, BUCKETS) else "", who)
        if o[0] == LOAD and r.mode:
            desc += " with BBSHOME/.PASSWDS being %s, %d records" % (LINKS[r.mode], len(r.file))
        if o[0] == RELINK:
            desc = "making BBSHOME/.PASSWDS %s (same records)" % LINKS.get(o[1], o[1])
        if st == 2 and o[0] == LOAD:
            desc += " on a segment with " + pre
        if st in (1, 2) and exp is not None:
            return (n, "crash" if st == 1 else "hang", "%s %s" % (desc, "panics" if st == 1 else "does not return"))
        if exp is not None and (st, code) != exp and o[0] not in (SEARCH, DOSEARCH, GETID):
            return (n, "result", "%s returns status %d code %d, expected %s" % (desc, st, code, exp))
        if r.wild:
            continue
        if o[0] in (SEARCH, DOSEARCH) and st == 0:
            q = pad(o[1]); hold = r.holders(q)
            if o[0] == SEARCH and q[0] == 0:
                hold = set()
            if o[0] == DOSEARCH and q[0] == 0 and code != 0 and code not in hold:
                return (n, "free-slot-search-occupied", "%s (the search for a free slot: the empty id) returns %d, which holds %r; slots holding the empty id: %s" % (
                    desc, code, cpre(r.table[code - 1]) if 1 <= code <= maxu else None, sorted(hold)[:8]))
            if (code not in hold) if hold else code != 0:
                return (n, "lookup-miss" if hold else "lookup-ghost", "%s returns %d; slots holding that id (any case): %s" % (desc, code, sorted(hold)))
            want = r.table[code - 1] if code and q[0] else pad(b"")
            if extra != want:
                return (n, "right-id", "%s copies %r into rightID, the slot holds %r" % (desc, extra, want))
        if o[0] == GETID and st == 0 and extra != r.table[o[1] - 1]:
            return (n, "ids", "%s returns %r, the slot holds %r" % (desc, extra, r.table[o[1] - 1]))
        want_ids = [r.table[s] for s in r.slots]
        if ids != want_ids:
            bad = [j for j in range(len(want_ids)) if ids[j] != want_ids[j]]
            return (n, "ids", "after %s Userid[%d] = %r, expected %r" % (desc, r.slots[bad[0]], ids[bad[0]], want_ids[bad[0]]))
        if (number, loaded) != (r.number, r.loaded):
            return (n, "number", "after %s Number/Loaded = %d/%d, expected %d/%d" % (desc, number, loaded, r.number, r.loaded))
        if not r.watching:
            continue
        seen = {}
        for h, (slots, end) in sorted(chains.items()):
            if end != -1:
                return (n, "chain-not-terminated", "after %s the chain of bucket %d %s" % (desc, h, "has a link out of range" if end == -2 else "is longer than MAX_USERS (cycle)"))
            for s in slots:
                if s in seen:
                    return (n, "slot-on-two-chains", "after %s slot %d is on the chains of buckets %d and %d (or twice on one)" % (desc, s, seen[s], h))
                seen[s] = h
                if pyhash(r.table[s]) != h:
                    return (n, "slot-on-wrong-chain", "after %s slot %d (id %r, hash %d) is on the chain of bucket %d" % (desc, s, cpre(r.table[s]), pyhash(r.table[s]), h))
        if set(seen) != r.indexed:
            miss, extra_s = sorted(r.indexed - set(seen)), sorted(set(seen) - r.indexed)
            if miss:
                return (n, "occupied-slot-on-no-chain", "after %s slot(s) %s (id %r) are on no chain" % (desc, miss[:5], cpre(r.table[miss[0]])))
            return (n, "removed-slot-still-on-chain", "after %s slot(s) %s were removed but are still on a chain" % (desc, extra_s[:5]))
        if nonempty != sum(1 for h, (s, e) in chains.items() if s):
            return (n, "stray-bucket", "after %s %d buckets are non-empty, the ids in use account for %d" % (desc, nonempty, sum(1 for h, (s, e) in chains.items() if s)))
        for q, got in zip(r.battery, looks):
            hold = r.holders(q) if q[0] else set()
            if got < 0:
                return (n, "crash", "after %s SearchUserRaw(%r) panics" % (desc, cpre(q)))
            if (got not in hold) if hold else got != 0:
                return (n, "lookup-miss" if hold else "lookup-ghost", "after %s SearchUserRaw(%r) returns %d; slots holding that id (any case): %s" % (desc, cpre(q), got, sorted(hold)))
        if o[0] == ATTACH and (st != 0 or list(extra) != list(looks)):
            return (n, "attach-differs", "the attaching process answers %s, the first process %s" % (extra, looks))
    return None


def main():
    if any("replay" in a for a in sys.argv[1:]):     # a replay of a production-configuration history ("11|..") is passed on to this driver by the default one
        vf.build_impl(tags="verif docker", name="implrun_docker")
    c = vf.Check("C04")
    import time
    t00 = time.time()

    def lap(what):
        if os.environ.get("VERIF_C04_TIMING"):
            sys.stderr.write("[C04 %6.1fs] %s\n" % (time.time() - t00, what))
    rng = c.rng
    thorough = c.tier == "thorough"
    c.prove()
    model_ok = c.model_ok()
    impl = vf.build_impl()
    model = vf.build_model("C04") if model_ok else None
    lap("proofs, drivers, model built")
    vf.ipc_cleanup()

    def both(lines, label, shown=None):
        io = vf.run_impl(impl, "C04", lines, deadline_ms=60000)
        if model:
            vf.correspond(c, label, shown or lines, io, vf.run_model(model, lines))
        return io

    k = both(["3"], "constants (MAX_USERS, 1<<HASH_BITS, USER_ID_SZ, SHM_VERSION, SHM_RAW_SZ, PRE_ALLOCATED_USERS)")[0].split()
    maxu, hashn, idsz, shmver, shmsz = (int(x) for x in k[1:6])
    if int(k[6]) != PREALLOC or idsz != IDSZ:
        c.broken.append({"kind": "harness", "where": "checks/C04.py constants", "theorem": "the check's PRE_ALLOCATED_USERS / USER_ID_SZ are the compiled ones", "log": " ".join(k)})
    bits = hashn.bit_length() - 1
    hdr = (shmver, shmsz)
    c.count(1, "constants")
    isnew = both(["4"], "the harness's first process created the segment (cache.Shm.IsNew), the processes of op 29 did not")[0].split()
    if isnew != ["0", "1"]:
        c.broken.append({"kind": "harness", "where": "go/impl/cmd/implrun/c04.go", "theorem": "the driver's first process is the creator of its segment", "log": " ".join(isnew)})

    # ---------------------------------------------------------------- ID pool: 16-bit collision families, case twins
    def rand_id(lo=2, hi=12):
        n = rng.randrange(lo, hi + 1)
        return bytes([rng.choice(ALPHA)] + [rng.choice(ALNUM) for _ in range(n - 1)])

    by_bucket, empty_bucket = {}, pyhash(b"", bits)
    seen_fold = set()
    tries = 0
    while tries < 600000:
        tries += 1
        i = rand_id(2, 6)
        if i.lower() in seen_fold:
            continue
        seen_fold.add(i.lower())
        by_bucket.setdefault(pyhash(i, bits), []).append(i)
        if tries >= 150000 and len(by_bucket.get(empty_bucket, [])) >= 2:
            break
    fams = sorted((v for v in by_bucket.values() if len(v) >= 3), key=lambda v: (-len(v), v))[:3]
    with_empty = by_bucket.get(empty_bucket, [])[:2]
    plain = [b"SYSOP", b"guest", b"alice", b"Bob2", b"a1", b"Zz", b"twelvechars1"]

    # prefix-related ids on ONE chain: (short, long) collide in the hash and short is a proper prefix of long. A lookup that compares only up to the
    # end of the queried (or of the stored) id confuses exactly these; ids that do not collide never meet on a chain.
    mask = (1 << bits) - 1
    FOLDED = b"ABCDEFGHIJKLMNOPQRSTUVWXYZ0123456789"

    def fnv_state(b, h=FNV_INIT):
        for ch in bytes(b):
            if 97 <= ch <= 122:
                ch -= 32
            h = ((h ^ ch) * FNV_PRIME) & 0xffffffff
        return h

    def recase(b):
        return bytes(ch + 32 if 65 <= ch <= 90 and rng.random() < 0.6 else ch for ch in b)

    def extend(base, lo, hi):
        """a colliding proper extension of base by lo..hi characters -> bytes | None"""
        target = fnv_state(base) & mask
        frontier = [(fnv_state(base), b"")]
        for n in range(1, hi + 1):
            nxt = []
            for st0, suf in frontier:
                for ch in FOLDED:
                    st1 = ((st0 ^ ch) * FNV_PRIME) & 0xffffffff
                    if n >= lo and st1 & mask == target:
                        return base + recase(suf + bytes([ch]))
                    nxt.append((st1, suf + bytes([ch])))
            frontier = nxt
        return None

    one_more, longer, ptries = [], [], 0
    while len(one_more) < 2 and ptries < 20000:               # same id + ONE extra character (36 candidates per base, one in ~1800 bases collides)
        ptries += 1
        base = rand_id(2, 7)
        e = extend(base, 1, 1)
        if e is not None and base.lower() not in {x[0].lower() for x in one_more}:
            one_more.append((base, e))
    while len(longer) < 2 and ptries < 20100:                 # a proper extension by two or three characters, and an extension of the extension (a triple on one chain)
        ptries += 1
        base = rand_id(2, 5)
        e = extend(base, 2, 3)
        if e is not None:
            e2 = extend(e, 2, 3)
            longer.append((base, e) if e2 is None else (base, e, e2))
    empty_ext = []                                              # the empty id is a prefix of every id: ids of ITS bucket, and a colliding extension of one of them
    for w in with_empty[:1]:
        e = extend(w, 2, 3)
        empty_ext = [w] + ([e] if e is not None else [])
    prefix_chains = [list(t) for t in one_more + longer] + ([[b""] + empty_ext] if empty_ext else [])
    prefix_ids = [i for t in prefix_chains for i in t if i]
    if len(one_more) < 1 or len(longer) < 1 or not with_empty:
        c.broken.append({"kind": "harness", "where": "checks/C04.py prefix pairs", "theorem": "the id pool contains colliding prefix pairs", "log": "%r %r %r" % (one_more, longer, with_empty)})
    pool = [i for f in fams for i in f[:5]] + with_empty + plain + [i for i in prefix_ids if i not in with_empty]

    def big_family(n):
        """n ids colliding in one bucket (a chain longer than any the random pool gives): directed search over three-character suffixes"""
        first = rand_id(5, 6)
        tgt, out, seenb, btries = pyhash(first, bits), [first], {first.lower()} | {x.lower() for x in pool}, 0
        while len(out) < n and btries < 600:
            btries += 1
            base = rand_id(2, 4)
            s0 = fnv_state(base)
            for a in FOLDED:
                s1 = ((s0 ^ a) * FNV_PRIME) & 0xffffffff
                for b in FOLDED:
                    s2 = ((s1 ^ b) * FNV_PRIME) & 0xffffffff
                    for ch in FOLDED:
                        if ((s2 ^ ch) * FNV_PRIME) & mask == tgt:
                            i = base + recase(bytes([a, b, ch]))
                            if i.lower() not in seenb and i.lower() not in seen_fold and pyhash(i, bits) == tgt:
                                seenb.add(i.lower()); out.append(i)
        return out
    bigfam = big_family(26)
    if len(bigfam) < 22:
        c.broken.append({"kind": "harness", "where": "checks/C04.py big_family", "theorem": "a family of at least 22 ids colliding in the 16-bit hash", "log": "%r" % bigfam})
    full = []                                                # 50 pairwise distinct ids for full tables: whole families first
    for f in sorted(by_bucket.values(), key=lambda v: (-len(v), v)):
        for i in f:
            if len(full) < maxu and i.lower() not in {x.lower() for x in pool}:
                full.append(i)
    spare = [rand_id() for _ in range(25)]                    # used when every pool id is taken
    junk = b"bob\0XYZ"                                        # bytes after the NUL are stored but must not matter
    # what a reused buffer held before: a 12-character id, a 11-character one, bytes >= 0x80 (no character of any id), and an id of the pool
    LEFT = [b"LongUserName", b"sysopishere", bytes([0xe4, 0xb8, 0xad, 0xff, 0x80, 0xc3, 0x28, 0xa0, 0xa1, 0xfe, 0x81, 0x9f]), b"twelvechars1"]

    def dirt(i, p_=1.0):
        """i as the C string it is, in a buffer with leftovers behind the terminator (with probability p_)"""
        i = cpre(pad(i))
        if len(i) >= IDLEN_MAX or rng.random() >= p_:
            return i
        return over(rng.choice(LEFT + [rng.choice(pool)]), i)
    queries = []
    for i in pool + full[:6]:
        queries += [i, i.upper(), i.lower(), i.swapcase()]
    queries += [b"", junk, b"nobody", b"ALICEx", b"alic", b"\0alice", b"al\0ice"] + [rand_id() for _ in range(6)]
    for i in prefix_ids:                                       # near misses of the prefix-related ids: one character less, one more, a different last one
        queries += [i[:-1], i[:-1].upper(), (i + b"x")[:IDLEN_MAX], (i + b"0")[:IDLEN_MAX].upper(), i[:-1] + b"_", i[:1]]
    battery = sorted(set(pad(q) for q in queries))
    buckets = sorted({pyhash(i, bits) for i in pool + full + spare + bigfam[:1] + [b"", junk, b"bob", b"amy"] + [cpre(q) for q in battery]})

    # the check's transcription of the hash against the implementation (and the model)
    hl = [pad(i) for i in pool + full] + battery + [bytes(rng.randrange(256) for _ in range(IDSZ)) for _ in range(1500)] + [bytes([rng.randrange(1, 256)] * 13)]
    ho = both(["2|" + toks(i) for i in hl], "StringHashWithHashBits")
    c.count(len(hl), "hash")
    for i, o in zip(hl, ho):
        if o.split() != ["0", str(pyhash(i, bits))]:
            c.broken.append({"kind": "harness", "where": "checks/C04.py pyhash", "theorem": "the check's FNV transcription equals cmsys.StringHashWithHashBits", "log": "%r -> %s, python %d" % (i, o, pyhash(i, bits))})
            break

    # ---------------------------------------------------------------- histories
    def start(file_ids, loader=(LOAD,)):
        return [(BUCKETS, buckets), (BATTERY, battery), (WRITE, file_ids), loader]

    def narrow(ops, ids, dirty=False):
        """the same history with a lookup battery about the ids it uses (4 letter cases, one character less / more / different, the fixed near misses) instead of the
        whole pool's: the extracted model hashes every query after every step in binary arithmetic"""
        qs = [b"", junk, b"nobody", b"ALICEx", b"alic", b"al\0ice"]
        for i in ids:
            i = cpre(pad(i))
            if i:
                qs += [i, i.upper(), i.lower(), i.swapcase(), i[:-1], (i + b"x")[:IDLEN_MAX], i[:-1] + b"_"]
                if dirty:      # the same C string in a buffer that held something longer before
                    qs += [over(LEFT[0], i), over(LEFT[1], i.swapcase()), over(LEFT[2], i.upper()), over(i + b"xyz", i), over(LEFT[0], i[:-1])]
        bat = sorted(set(pad(q) for q in qs))
        return [(BATTERY, bat) if o[0] == BATTERY else o for o in ops]

    def second(o, mode=None):
        return (BY2, rng.randrange(2) if mode is None else mode, o)

    def agreeing(ops, nrec=maxu):
        """(WRITE, the .PASSWDS that agrees with the live table after ops)"""
        r = Ref(maxu); r.hdr = hdr
        for o in ops:
            r.apply(o)
        return (WRITE, [cpre(t) for t in r.table[:nrec]])

    def gen_history(n, style, p2=0.1, pd=0.0):
        """p2: share of the operations that a second, attached process executes instead of the creator; pd: share of the ids (arguments of set / add, .PASSWDS records,
        queries) that arrive in a buffer with leftovers of a longer id behind the terminator"""
        r = Ref(maxu); r.hdr = hdr
        by = lambda o: (second(o) if rng.random() < 0.6 else (PEER, rng.randrange(3), o)) if o[0] in BY2_OPS and rng.random() < p2 else o
        if style == "full":
            file_ids = list(full)
        elif style == "short":
            file_ids = [rng.choice(pool) if rng.random() < 0.5 else b"" for _ in range(rng.randrange(0, maxu))]
        else:
            some = rng.sample(pool, rng.randrange(0, min(len(pool), 12)))
            file_ids = (some + [b""] * maxu)[:maxu]
            rng.shuffle(file_ids)
        if pd:
            file_ids = [dirt(i, pd) for i in file_ids]
        ops = start(file_ids, by((LOAD,)))
        # every history looks up its own random 96 of the pool's queries (plus the fixed ones) after every step; the scenarios above use complete, focused batteries
        bat = set(rng.sample(battery, min(len(battery), 96))) | {pad(b""), pad(junk), pad(b"nobody")}
        if pd:
            bat |= {pad(dirt(q)) for q in rng.sample(sorted(bat), 40) if q[0]}
        ops[1] = (BATTERY, sorted(bat))
        for o in ops:
            r.apply(o)
        free_ids = lambda: [i for i in pool + ([junk] if style != "full" else []) if not r.holders(i)] or [i for i in spare if not r.holders(i)] or pool
        while len(ops) < n + 4:
            x = rng.random()
            slot = rng.choice([0, 1, maxu - 1, rng.randrange(maxu), rng.randrange(maxu)])
            if x < 0.40:
                i = rng.choice(free_ids()) if rng.random() < 0.85 else rng.choice(pool)           # sometimes a duplicate up to case
                if rng.random() < 0.3:
                    i = rng.choice([i.upper(), i.lower(), i.swapcase()])
                    if r.holders(i) and rng.random() < 0.8:
                        continue
                o = (SET, slot + 1, dirt(i, pd))
            elif x < 0.45:
                o = (SET, rng.choice([0, -1, maxu + 1, 2**31 - 1, -2**31]), rng.choice(pool))
            elif x < 0.57:
                o = (REMOVE, slot if rng.random() < 0.5 or not r.indexed else rng.choice(sorted(r.indexed)))
            elif x < 0.67:
                freeslots = sorted(set(range(maxu)) - r.indexed)
                if not freeslots:
                    continue
                o = (ADD, rng.choice(freeslots), dirt(rng.choice(free_ids()), pd))
            elif x < 0.75:
                q = rng.choice(r.battery + [r.table[s] for s in r.indexed][:10])
                kind = rng.choice([SEARCH, SEARCH, DOSEARCH])
                if kind == DOSEARCH and rng.random() < 0.35:
                    q = b""                                   # the free-slot search of the registration: must answer a slot that holds the empty id
                elif rng.random() < 0.3:
                    q = rng.choice(prefix_ids or [q])
                    q = rng.choice([q, q[:-1], q + b"x"])[:IDLEN_MAX]
                o = (kind, dirt(rng.choice([q, q.upper(), q.lower()]), pd if q else 0))
            elif x < 0.78:
                o = (GETID, rng.choice([1, maxu, slot + 1, 0, maxu + 1]))
            elif x < 0.86:                                                                       # reload into the populated segment from an agreeing file
                nrec = maxu if rng.random() < 0.7 else rng.randrange(0, maxu + 1)
                for o in ((WRITE, [(dirt(t, pd) if cpre(t) else t) if rng.random() < 0.8 else t for t in r.table[:nrec]]), by((LOAD,))):
                    r.apply(o); ops.append(o)
                continue
            elif x < 0.91:                                                                       # cold load over whatever the segment holds
                newfile = [rng.choice(pool + [b""] * 6) for _ in range(maxu)] if rng.random() < 0.6 else list(full)
                if rng.random() < 0.5:
                    seenf, nf = set(), []
                    for i in newfile:
                        nf.append(b"" if i.lower() in seenf else i); seenf.add(i.lower())
                    newfile = nf
                newfile = [dirt(i, pd) for i in newfile]
                for o in ((UNLOAD,) if rng.random() < 0.6 else (RESET,), (WRITE, newfile), by((LOAD,))):
                    r.apply(o); ops.append(o)
                continue
            elif x < 0.955:
                o = (ATTACH,)
            elif x < 0.97:
                o = (ATTACH_HDR, rng.choice([shmver, shmver + 1, 0]), rng.choice([shmsz, shmsz, shmsz - 4]))
            elif x < 0.985:
                o = (RELINK, rng.randrange(4))
            elif style != "full":
                o = (SET, slot + 1, b"")                                                         # release the slot: it joins the free slots (the empty id's chain)
            else:
                continue
            o = by(o)
            r.apply(o); ops.append(o)
        return ops

    cases = []
    # fixed scenarios: fill a chain, remove head / middle / tail, re-add, rename inside the same bucket and across buckets
    if fams:
        f = fams[0][:5]
        base = start([b""] * maxu)
        cases.append(base + [(SET, u + 1, i) for u, i in enumerate(f)] + [(REMOVE, 0), (REMOVE, 2), (REMOVE, len(f) - 1), (ADD, 2, f[2]), (ADD, 0, f[0].upper()), (ADD, len(f) - 1, f[-1]),
                             (SET, 2, f[0]), (SET, 1, b"alice"), (SET, 2, f[1].swapcase()), (WRITE, [b""] * maxu), (LOAD,), (ATTACH,)])
        cases.append(start(list(full)) + [(REMOVE, s) for s in range(0, maxu, 3)] + [(ADD, s, full[s].upper()) for s in range(0, maxu, 3)] + [(ATTACH,), (WRITE, [x.upper() for x in full]), (LOAD,)])
    for u in range(1, maxu + 1):                               # every slot once
        cases.append(narrow(start([b""] * maxu) + [(SET, u, pool[u % len(pool)]), (SEARCH, pool[u % len(pool)].swapcase()), (REMOVE, u - 1), (SEARCH, pool[u % len(pool)]), (ADD, u - 1, b"alice"), (SET, u, b"ALICE")],
                            [pool[u % len(pool)], pool[(u + 1) % len(pool)], b"alice"]))
    # prefix-related ids on one chain, every order of arrival: the longer first / the shorter first, through SetUserID and through a cold load; each id looked up
    # (battery: 4 letter cases, near misses) while only the other ones are present, while all are, and after each is removed again; DoSearchUserRaw too (rightID)
    n_before_prefix = len(cases)
    for ch in prefix_chains:
        for order in (list(reversed(ch)), list(ch)):
            live = [i for i in order if i]
            ops = start([b""] * maxu)
            looks = lambda: [(DOSEARCH, i.swapcase()) for i in ch] + [(SEARCH, ch[-1][:-1])]
            for u, i in enumerate(live):
                ops += [(SET, u + 3, i)] + looks()
            ops += [(ATTACH,), second((DOSEARCH, ch[0]), 0)]
            for u, i in enumerate(live):
                ops += [(REMOVE, u + 2)] + looks()
            cases.append(narrow(ops, ch + [b"guest"]))
            filed = [b"guest"] + order + [b"", b""]              # cold load: records in this order, the empty id (if in the chain) as a free slot between them
            cases.append(narrow(start(filed) + looks() + [(REMOVE, 1)] + looks() + [(SET, 2, order[0] or b"Zz")] + looks() + [(REMOVE, len(order))] + looks() + [agreeing(start(filed) + [(REMOVE, 1), (SET, 2, order[0] or b"Zz"), (REMOVE, len(order))], len(filed)), second((LOAD,), 1)] + looks(), ch + [b"guest", b"Zz"]))
    n_prefix = len(cases) - n_before_prefix
    # ids in buffers with leftovers behind the terminator (a UserID_t / userid field / query buffer that held a longer id and was reused with C-string semantics):
    # every place an id comes from - SetUserID / AddToUHash arguments, .PASSWDS records on a cold load and on a reload, the query - x plain ids, a collision family
    # on one chain, and colliding prefix pairs where the leftover behind the short id is exactly the tail of the long one
    n_before_left = len(cases)
    groups = [[b"bob", b"amy", b"SYSOP"], (fams[0][:3] if fams else [b"Bob2", b"a1"])] + [[i for i in ch if i][:3] for ch in prefix_chains[:3]]
    for g in groups:
        for li, left in enumerate(LEFT[:3] + [None]):
            tail_of = {g[j].lower(): g[j + 1] for j in range(len(g) - 1)}    # for prefix chains: the long id of the pair

            def d(i, left=left, tail_of=tail_of):
                if left is not None:
                    return over(left, i)
                long_ = tail_of.get(i.lower())
                return over(long_, i) if long_ is not None and long_.lower().startswith(i.lower()) else over(LEFT[3], i)
            lookq = lambda: [x for i in g for x in ((SEARCH, i.swapcase()), (DOSEARCH, d(i.upper())), (SEARCH, over(i + b"zz", i)))]
            # (a) arguments of SetUserID / AddToUHash
            ops = start([b""] * maxu)
            for u, i in enumerate(g):
                ops += [(SET, u + 4, d(i))]
            ops += lookq() + [(GETID, 4), (ATTACH,), second((SEARCH, g[0]), 0), (REMOVE, 3)] + lookq() + [(ADD, 3, d(g[0].swapcase()))] + lookq()
            ops += [(SET, 5, d(b"guest")), (SET, 5, d(g[1]))] + lookq()
            ops += [agreeing(ops), second((LOAD,), 1)] + lookq()                                              # reload: the file carries the clean C strings
            cases.append(narrow(ops, g + [b"guest"], dirty=True))
            if li >= 2 and g is not groups[0]:
                continue
            # (b) .PASSWDS records: cold load, reload from a file whose records carry OTHER leftovers (the same C strings), reload from the clean file
            filed = [d(b"guest")] + [d(i) for i in g] + [b"", pad(b"")[:1] + b"\0free4slot"]
            other = [over(LEFT[(li + 1) % 3], cpre(x)) for x in filed]
            ops = start(filed) + lookq() + [(WRITE, other), (LOAD,)] + lookq() + [(REMOVE, 1), (SET, 2, d(g[0]))] + lookq()
            ops += [(UNLOAD,), (WRITE, other), second((LOAD,), 0)] + lookq() + [(DOSEARCH, b""), (DOSEARCH, over(LEFT[0], b""))]
            cases.append(narrow(ops, g + [b"guest"], dirty=True))
    n_left = len(cases) - n_before_left
    # ---- the table behind symbolic links: every shape of the directory entry x who loads x file shape; cold load, lookups, registration, reload from the agreeing
    # table by another process, back to a regular file, cold load of another table through a fresh link
    n_before_link = len(cases)
    peer = lambda k: (lambda o: (PEER, k, o))
    loaders = [lambda o: o, lambda o: second(o, 0), peer(0)]
    famf = fams[0][:4] if fams else [b"Bob2", b"a1"]
    link_files = [[b"SYSOP", b"", famf[0], b"alice", famf[1]], list(full), ([b"guest", b"alice"] + famf + with_empty + [b""] * maxu)[:maxu], [b"guest"], []]
    for mode in (1, 2, 3):
        for li_, f in enumerate(link_files):
            if not thorough and li_ not in (mode - 1, mode + 1, (mode + 3) % 5):     # quick tier: three of the five file shapes per link shape (every file shape is used)
                continue
            act, other = loaders[(mode + li_) % 3], loaders[(mode + li_ + 1) % 3]
            ops = [(BUCKETS, buckets), (BATTERY, battery), (RELINK, mode), (WRITE, f), act((LOAD,))]
            ops += [(SEARCH, (f[-1] or b"nobody").swapcase())] if f else []
            ops += [other((SET, 7, b"Bob2")), (REMOVE, 0), act((ADD, 0, b"twelvechars1")), (ATTACH,)]
            ops += [agreeing(ops), other((LOAD,)), (RELINK, 0), act((LOAD,)), (RELINK, (mode % 3) + 1), other((LOAD,))]
            ops += [(UNLOAD,), (WRITE, (list(reversed(f)) + [b"Zz"])[:maxu]), act((LOAD,)), (ATTACH,)]
            cases.append(narrow(ops, [i for i in f[:3] + f[-3:] + [b"Bob2", b"twelvechars1", b"Zz", b"guest"] if i]))
    n_link = len(cases) - n_before_link
    # ---- long chains handed from process to process. Several LONG-LIVED processes (the creator, the attached processes 0 and 1 of op 34) and a fresh one (op 29)
    # take turns on one long chain: the free slots' chain (the empty id; releasing a slot appends to it, registering takes a slot off it) and a chain of 17+ ids
    # colliding in the 16-bit hash. X appends to the chain, Y takes the chain's LAST slot off (registration / rename to another bucket / release / remove + add),
    # X appends again: whatever a process remembers about a chain (its end, its head, its length) has been changed by somebody else in between.
    n_before_hand = len(cases)
    hand_actors = [("the creator", lambda o: o), ("attached process 0", peer(0)), ("attached process 1", peer(1)), ("a fresh second process", lambda o: second(o, 0))]
    nfam = 17
    HF, HE = pyhash(bigfam[0], bits), empty_bucket
    away = [b"alice", b"Bob2", b"a1", b"Zz", b"guest", b"SYSOP"]
    for xi, (xn, X) in enumerate(hand_actors[:3]):
        for yi, (yn, Y) in enumerate(hand_actors):
            if xi == yi:
                continue
            for kind in range(4):
                if kind >= 2 and not thorough and (xi + yi) % 3 != kind - 2:      # quick tier: every pair of processes on kinds 0 and 1, a rotating third on 2 and 3
                    continue
                # slots 0..16 hold the family (chain order 0..16), 17..49 are free (chain order 17..49)
                ops = start(bigfam[:nfam] + [b""] * (maxu - nfam), hand_actors[(xi + yi + kind) % 3][1]((LOAD,)))
                if kind == 0:      # free chain: X releases two family slots (appends 3, then 5 to the free chain), Y registers on the last one, X releases again
                    ops += [X((SET, 4, b"")), X((SET, 6, b"")), Y((SET, 6, away[0])), X((SET, 9, b"")), (SEARCH, bigfam[8]), Y((SET, 4, away[1])), X((SET, 11, b"")), X((SET, 12, b""))]
                elif kind == 1:    # family chain: X registers two colliding ids on free slots (chain grows past 17), Y renames the last one away, X registers another
                    ops += [X((SET, 20, bigfam[17])), X((SET, 21, bigfam[18])), Y((SET, 21, away[0])), X((SET, 22, bigfam[19])), (SEARCH, bigfam[19].swapcase()),
                            Y((SET, 22, b"")), X((SET, 23, bigfam[20])), (SEARCH, bigfam[20].upper())]
                elif kind == 2:    # remove + add of the last slot by Y (it becomes the last one again, of the same or of another chain), appends by X around it
                    ops += [X((SET, 20, bigfam[17])), Y((REMOVE, 19)), Y((ADD, 19, away[2])), X((SET, 21, bigfam[18])), Y((REMOVE, 20)), X((ADD, 20, bigfam[18].swapcase())),
                            Y((SET, 22, bigfam[19])), X((SET, 23, bigfam[20])), (SEARCH, bigfam[20])]
                else:              # the head and the middle as well: Y takes the first and a middle slot of the chain off between X's appends; then both chains alternately
                    ops += [X((SET, 20, bigfam[17])), Y((SET, 1, away[3])), X((SET, 21, bigfam[18])), Y((SET, 9, b"")), X((SET, 22, bigfam[19])), X((SET, 30, b"")),
                            Y((SET, 30, bigfam[20])), X((SET, 31, bigfam[21])), Y((SET, 22, b"")), X((SET, 5, b""))]
                ops += [agreeing(ops), Y((LOAD,)), X((SET, 40, bigfam[21].lower())), X((SET, 42, b""))]
                cases.append(narrow(ops, bigfam[:2] + bigfam[16:22] + away[:4]))

    def gen_handover(n):
        """a random walk of n operations over the two long chains, every operation by a random one of the four processes, biased towards the chains' last slots"""
        ops = start(bigfam[:nfam] + [b""] * (maxu - nfam), rng.choice(hand_actors)[1]((LOAD,)))
        order = {HF: list(range(nfam)), HE: list(range(nfam, maxu))}
        held = {s_: bigfam[s_] for s_ in range(nfam)}
        r = Ref(maxu); r.hdr = hdr
        for o in ops:
            r.apply(o)

        def pick(h):
            l = order[h]
            return l[-1] if rng.random() < 0.55 else rng.choice(l)

        def move(slot, i):
            for l in order.values():
                if slot in l:
                    l.remove(slot)
            h = pyhash(i, bits)
            if h in order:
                order[h].append(slot)
            held[slot] = i
        while len(ops) < n + 4:
            A = rng.choice(hand_actors)[1]
            x = rng.random()
            unused = [i for i in bigfam if not r.holders(i)]
            if x < 0.3 and unused and len(order[HE]) > 1:                # a free slot gets a colliding id
                slot = pick(HE) if rng.random() < 0.7 else rng.choice(order[HE])
                i = rng.choice(unused); new = [A((SET, slot + 1, recase(i)))]; move(slot, i)
            elif x < 0.55 and len(order[HF]) > 1:                        # a slot of the family is released
                slot = pick(HF); new = [A((SET, slot + 1, b""))]; move(slot, b"")
            elif x < 0.7:                                                 # the last (or some) slot of either chain goes to another bucket
                free_away = [i for i in away if not r.holders(i)]
                h = rng.choice([HF, HE])
                if not free_away or len(order[h]) < 2:
                    continue
                slot = pick(h); i = rng.choice(free_away); new = [A((SET, slot + 1, i))]; move(slot, i)
            elif x < 0.8:                                                 # a slot outside the two chains comes back
                outside = [s_ for s_ in range(maxu) if s_ not in order[HF] and s_ not in order[HE]]
                if not outside:
                    continue
                slot = rng.choice(outside); i = rng.choice(unused + [b""]) if unused else b""
                new = [A((SET, slot + 1, i))]; move(slot, i)
            elif x < 0.9:                                                 # remove + add (two processes): the slot becomes the last one of its chain
                h = rng.choice([HF, HE])
                if len(order[h]) < 2:
                    continue
                slot = pick(h); i = held.get(slot, b"")
                new = [A((REMOVE, slot)), rng.choice(hand_actors)[1]((ADD, slot, i))]; move(slot, i)
            elif x < 0.96:
                new = [A((SEARCH, rng.choice(bigfam + away).swapcase()))]
            else:                                                         # reload from the agreeing table, now and then through a link
                new = [(RELINK, rng.randrange(4)), (WRITE, [cpre(t) for t in r.table[:maxu]]), A((LOAD,))]
            for o in new:
                r.apply(o); ops.append(o)
        return narrow(ops, bigfam[:2] + rng.sample(bigfam[2:], 5) + away[:3])
    for i in range(120 if thorough else 4):
        cases.append(gen_handover(rng.randrange(15, 36)))
    n_hand = len(cases) - n_before_hand
    for ops in cases[n_before_link:]:
        r = Ref(maxu); r.hdr = hdr
        for o in ops:
            r.apply(o)
        if r.off_premise:
            c.broken.append({"kind": "harness", "where": "checks/C04.py link / handover scenarios", "theorem": "the scenarios stay inside the property's premises", "log": str(ops[4:12])})
    # outside the premises (correspondence only): a reload from a file that disagrees, AddToUHash on a slot that is on a chain
    cases.append(start([b"alice", b"Bob2"] + [b""] * (maxu - 2)) + [(WRITE, [b"Bob2", b"alice"] + [b""] * (maxu - 2)), (LOAD,), (SEARCH, b"alice"), (SET, 1, b"guest")])
    cases.append(start([b""] * maxu) + [(SET, 1, b"alice"), (ADD, 0, b"alice"), (ADD, 0, b"Zz"), (REMOVE, 0), (LOAD,)])
    # load / reload in every segment state x by the creator and by a second process (attached without / with the create flag):
    #   zeroed (just created or Shm.Reset: Number = Loaded = 0, every head and link 0), reset after a previous life, unloaded with the old
    #   chains left behind, loaded, loaded then modified; each followed by lookups from a third process, operations by both processes
    #   and a reload by the OTHER process
    actors = [("creator", lambda o: o), ("second process", lambda o: second(o, 0)), ("second process started with the create flag", lambda o: second(o, 1))]
    fam = fams[0][:4] if fams else [b"Bob2", b"a1"]
    files = [("empty .PASSWDS", []), ("short .PASSWDS", [b"SYSOP", b"", fam[0], b"alice", fam[1]]), ("full .PASSWDS", list(full)),
             ("collisions", ([b"SYSOP", b"alice"] + fam + with_empty + [b""] * maxu)[:maxu])]
    matrix = []

    for ai_, (aname, act) in enumerate(actors):
        other = actors[(ai_ + 1) % len(actors)][1]
        for fname, f in files:
            def tail(ops):
                ops = ops + [(ATTACH,), act((SEARCH, (f[0] if f else b"nobody").swapcase())), act((SET, 7, b"Bob2")), other((SET, 8, b"a1")), (REMOVE, 6), act((REMOVE, 0)),
                             other((ADD, 0, b"twelvechars1")), act((GETID, 1))]
                return ops + [agreeing(ops), other((LOAD,)), (ATTACH,)]
            prev = start([b"guest", fam[-1], b"Zz"] + [b""] * 5 + [fam[0].swapcase()]) + [(SET, 3, fam[1]), (REMOVE, 0)]
            for sname, pre in (("zeroed", [(BUCKETS, buckets), (BATTERY, battery)]), ("reset after a previous life", prev + [(RESET,)]), ("unloaded, old chains left behind", prev + [(UNLOAD,)])):
                matrix.append(("cold load by the %s, segment %s, %s" % (aname, sname, fname), tail(pre + [(WRITE, f), act((LOAD,))])))
            ops = start(f, other((LOAD,)))
            oname = actors[(ai_ + 1) % len(actors)][0]
            matrix.append(("first load (zeroed segment) by the %s, reload by the %s, segment loaded, %s" % (oname, aname, fname), tail(ops + [agreeing(ops, len(f)), act((LOAD,))])))
            ops = ops + [other((SET, 9, b"guest")), (REMOVE, 1)]
            matrix.append(("first load (zeroed segment) by the %s, reload by the %s, segment loaded then modified, %s" % (oname, aname, fname), tail(ops + [agreeing(ops), act((LOAD,))])))
    for name, ops in matrix:
        r = Ref(maxu); r.hdr = hdr
        for o in ops:
            r.apply(o)
        if r.off_premise:
            c.broken.append({"kind": "harness", "where": "checks/C04.py matrix", "theorem": "the load matrix stays inside the property's premises", "log": name})
    n_single = len(cases)
    cases += [narrow(ops, [i for i in (full[:2] + full[-1:] + files[1][1] + files[3][1][:8] + [b"guest", b"Bob2", b"a1", b"twelvechars1"]) if i]) for _, ops in matrix]
    n_fixed = len(cases)
    n_hist = 1500 if thorough else 70
    for i in range(n_hist):
        cases.append(gen_history(rng.randrange(5, 61), ["mixed", "mixed", "full", "short", "mixed"][i % 5], p2=[0.1, 0.0, 0.5, 0.15, 0.9, 0.1, 0.3][i % 7], pd=[0.0, 0.6, 0.0, 0.3][i % 4]))

    # ---------------------------------------------------------------- the production configuration: -tags docker, MAX_USERS = 2 000 000 > PRE_ALLOCATED_USERS = 1000
    # The loader files at most PRE_ALLOCATED_USERS records without a valid id (free slots); every record WITH a valid id must be stored and indexed however many
    # free records precede it, at any slot number (also above the 2^16 buckets), on a cold load and on a reload alike.
    impl_d = vf.build_impl(tags="verif docker", name="implrun_docker")
    kd = vf.run_impl(impl_d, "C04", ["3"], deadline_ms=60000)[0].split()
    if model:
        vf.correspond(c, "constants of the -tags docker build (MAX_USERS, 1<<HASH_BITS, USER_ID_SZ, SHM_VERSION, SHM_RAW_SZ, PRE_ALLOCATED_USERS)", ["13 (3 on the docker build)"], [" ".join(kd)], vf.run_model(model, ["13"]))
    maxu_d, hdr_d = int(kd[1]), (int(kd[4]), int(kd[5]))
    if int(kd[6]) != PREALLOC or int(kd[2]) != hashn or maxu_d <= PREALLOC + 65536:
        c.broken.append({"kind": "harness", "where": "checks/C04.py docker constants", "theorem": "the docker build has MAX_USERS > 2^16 + PRE_ALLOCATED_USERS, the same hash and cap", "log": " ".join(kd)})
    c.count(1, "constants")
    dA, dB, dL = b"Alice01", b"bob2", b"LastUser9999"
    dfam = (fams[0][:3] if fams else []) + [b"Bob2", b"a1", b"Zz"]

    def dref():
        r = Ref(maxu_d); r.hdr = hdr_d
        return r

    def dstart(n, users, slots, ids, loader=(LOAD,)):
        qs = [b"", b"nobody", over(LEFT[0], b"")]
        for i in ids:
            i = cpre(pad(i))
            qs += [i, i.upper(), i.lower(), i.swapcase(), i[:-1], (i + b"x")[:IDLEN_MAX], over(LEFT[0], i), over(LEFT[2], i.swapcase())]
        bks = sorted({pyhash(q, bits) for q in ids + [b""]})
        # the watched buckets and the battery are set AFTER the first load: on the zeroed segment every head is the self-loop 0 -> 0, and walking it MAX_USERS = 2 000 000
        # steps per bucket and per query after every step costs the extracted model minutes (the zeroed / reset segment is the default build's load matrix)
        return [(SLOTS, sorted(set(slots))), (WSPARSE, n, dict(users)), loader, (BUCKETS, bks), (BATTERY, sorted(set(pad(q) for q in qs)))]

    def dagreeing(ops, n):
        r = dref()
        for o in ops:
            r.apply(o)
        return (WSPARSE, n, {s_: cpre(v) for s_, v in r.table.d.items() if s_ < n and cpre(v)})

    dcases = []
    dids = [b"SYSOP", b"guest", dA, dB, dL, b"newbie", b"late1", b"zed", b"penult"] + dfam
    # (1) the site with deleted accounts: 5000 records, live users before and far behind the 1000th free record; registration, removal, re-adding, reload by the
    #     other process, a third process attaching, then a cold load of a differently laid out file over the dirty segment
    for aname, act in actors[:2] if not thorough else actors:
        other = (lambda o: second(o, 1)) if aname == "creator" else (lambda o: o)
        users = {0: b"SYSOP", 1: b"guest", 700: dfam[0], 1500: over(LEFT[0], dA), 1501: dB, 1502: dfam[1], 4999: dL}
        ops = dstart(5000, users, [0, 1, 2, 700, 999, 1000, 1001, 1002, 1003, 1200, 1500, 1501, 1502, 4000, 4998, 4999], dids, act((LOAD,)))
        ops += [(SEARCH, dA.swapcase()), (DOSEARCH, dL.upper()), (DOSEARCH, b""), act((SET, 3, b"newbie")), (REMOVE, 1500), (SEARCH, dA), other((ADD, 1500, dfam[2])), (GETID, 1502)]
        ops += [dagreeing(ops, 5000), other((LOAD,)), (ATTACH,), (SEARCH, dB.upper()), (UNLOAD,), (WSPARSE, 5000, {0: b"SYSOP", 1200: dA, 4000: dB, 4999: over(LEFT[1], dL)}), act((LOAD,)), (ATTACH,), (DOSEARCH, dfam[2])]
        dcases.append(("5000 records, users at 0, 1, 700 and behind more than 1000 free records at 1500, 1501, 1502, 4999; first load by the %s" % aname, ops))
    # (2) exactly at the cap: k free records, a user, more free records, users; the (PRE_ALLOCATED_USERS+1)-th free record is the first one left alone
    for kfree in (PREALLOC - 1, PREALLOC, PREALLOC + 1):
        users = {kfree: dA, kfree + 5: dB, kfree + 99: dL}
        ops = dstart(kfree + 100, users, [0, PREALLOC - 2, PREALLOC - 1, PREALLOC, PREALLOC + 1, PREALLOC + 2, PREALLOC + 3, PREALLOC + 4, kfree + 5, kfree + 6, kfree + 99], dids)
        ops.insert(2, (RELINK, 1 + kfree % 3))          # the production table behind a symbolic link (one shape per scenario)
        ops += [(DOSEARCH, b""), (SET, PREALLOC + 4, b"late1"), (SEARCH, b"LATE1"), (REMOVE, kfree)]
        ops += [dagreeing(ops, kfree + 100), second((LOAD,), 0), (SEARCH, dB), (REMOVE, kfree), (ADD, kfree, dA.upper()), (ATTACH,)]
        dcases.append(("%d free records ahead of the first user (cap %d)" % (kfree, PREALLOC), ops))
    # (3) slots above the number of buckets and at the end of the table
    for aname, act in actors[:1] if not thorough else actors[:2]:
        nrec = 70000
        users = {0: b"SYSOP", 65535: dA, 65536: dB, 65537: dfam[0], 69998: dfam[1], 69999: dL}
        ops = dstart(nrec, users, [0, 65535, 65536, 65537, 69998, 69999, 131072, maxu_d - 2, maxu_d - 1], dids, act((LOAD,)))
        ops += [(SEARCH, dB.upper()), (DOSEARCH, dfam[1].swapcase()), (SET, maxu_d, b"zed"), (SET, 131073, dfam[2]), (SET, maxu_d + 1, b"nope"), (GETID, maxu_d), (GETID, maxu_d + 1),
                (ADD, maxu_d - 2, b"penult"), (REMOVE, 65536), (SEARCH, dB), act((SET, 65537, over(LEFT[2], dB)))]
        ops += [dagreeing(ops, nrec), second((LOAD,), 1), (ATTACH,), (REMOVE, maxu_d - 1), (SEARCH, b"ZED")]
        dcases.append(("70000 records, users at slots 65535..65537, 69998, 69999; the last slots of the table; first load by the %s" % aname, ops))
    n_dfixed = len(dcases)

    def gen_dhistory(nops):
        nrec = rng.choice([PREALLOC + 3, 2500, 5000, 70000])
        U = sorted({0, 1, rng.randrange(2, PREALLOC - 1), PREALLOC, PREALLOC + 1, rng.randrange(PREALLOC + 2, nrec), rng.randrange(PREALLOC + 2, nrec), nrec - 1, nrec, rng.randrange(nrec, maxu_d), maxu_d - 1})
        idp = [b"SYSOP", b"guest", dA, dB, dL, b"newbie", b"late1", b"zed"] + dfam
        by = lambda o: second(o) if o[0] in BY2_OPS and rng.random() < 0.3 else o

        def layout():
            sl = rng.sample([u for u in U if u < nrec], rng.randrange(2, 6))
            return {s_: dirt(i, 0.3) for s_, i in zip(sl, rng.sample(idp, len(sl)))}
        ops = dstart(nrec, layout(), U, idp, by((LOAD,)))
        r = dref()
        for o in ops:
            r.apply(o)
        while len(ops) < nops + 5:
            x = rng.random()
            free = [i for i in idp if not r.holders(i)] or idp
            if x < 0.3:
                o = (SET, rng.choice(U) + 1, dirt(rng.choice(free), 0.3))
            elif x < 0.45:
                o = (REMOVE, rng.choice(U))
            elif x < 0.55:
                fs = [u for u in U if u not in r.indexed]
                if not fs:
                    continue
                o = (ADD, rng.choice(fs), rng.choice(free))
            elif x < 0.7:
                q = rng.choice(idp)
                o = (rng.choice([SEARCH, DOSEARCH]), dirt(rng.choice([q, q.upper(), q.swapcase(), b""]), 0.3))
                if not cpre(pad(o[1])):
                    o = (DOSEARCH, b"")
            elif x < 0.85:
                for o in ((WSPARSE, nrec, {s_: cpre(v) for s_, v in r.table.d.items() if s_ < nrec and cpre(v)}), by((LOAD,))):
                    r.apply(o); ops.append(o)
                continue
            elif x < 0.93:
                for o in ((UNLOAD,), (WSPARSE, nrec, layout()), by((LOAD,))):
                    r.apply(o); ops.append(o)
                continue
            else:
                o = (ATTACH,)
            o = by(o)
            r.apply(o); ops.append(o)
        return ops
    for i in range(40 if thorough else 3):
        dcases.append(("generated", gen_dhistory(rng.randrange(8, 30))))
    for name, ops in dcases:
        r = dref()
        for o in ops:
            r.apply(o)
        if r.off_premise:
            c.broken.append({"kind": "harness", "where": "checks/C04.py docker scenarios", "theorem": "the docker scenarios stay inside the property's premises", "log": name})
    dlines = [case_line(ops, "11") for _, ops in dcases]

    def dshow(o):
        if o[0] == BY2:
            return "(%d, %d, %s)" % (o[0], o[1], dshow(o[2]))
        if o[0] in (BATTERY, BUCKETS, SLOTS):
            return "%d <%d>" % (o[0], len(o[1]))
        if o[0] == WSPARSE:
            return "(24, %d records, %s)" % (o[1], {k_: showid(v) for k_, v in sorted(o[2].items())})
        return str(tuple(showid(x) if isinstance(x, bytes) else x for x in o))
    dshown = ["11|" + " | ".join(dshow(o) for o in ops) for _, ops in dcases]
    lap("cases generated")
    import threading
    dio = []
    dthread = threading.Thread(target=lambda: dio.extend(vf.run_impl(impl_d, "C04", dlines, deadline_ms=120000, max_hangs=2, env={"VERIF_C04_PROC2_DEADLINE_MS": "40000"})))
    dthread.start()

    lines = [case_line(ops) for ops in cases]
    shown = ["1|" + " | ".join(str(tuple(cpre(x) if isinstance(x, bytes) else x for x in o)) if o[0] not in (WRITE, BATTERY, BUCKETS) else "%d <%d ids>" % (o[0], len(o[1])) for o in ops) for ops in cases]
    label = "histories (returns, chains of the pool's buckets, all stored ids, lookup battery, operations executed by a second process)"
    case_deadline = int(os.environ.get("VERIF_C04_CASE_DEADLINE_MS", "15000"))     # a history takes well under a second
    io = vf.run_impl(impl, "C04", lines, deadline_ms=case_deadline, max_hangs=2)
    vf.ipc_cleanup()
    SLOW = {"VERIF_C04_PROC2_DEADLINE_MS": "12000"}

    def locate(ops):
        """the whole case ran into the driver's deadline (an operation of the first process does not return): the first load at which a prefix does"""
        for k_, o in enumerate(ops):
            if o[0] in (LOAD, BBS_RELOAD) and vf.run_impl(impl, "C04", [case_line(ops[:k_ + 1])], deadline_ms=8000)[0].split()[:1] == ["2"]:
                vf.ipc_cleanup()
                return ops[:k_ + 1]
        return ops

    # a "did not return" verdict depends on a deadline: the first ones are re-run with more time (second process: 12 s instead of 2.5 s; first process: twice
    # the case deadline) before anything is concluded from them
    confirm, confirm_first, skipped, verdicts = 2, 1, 0, {}
    for ci, (ops, line) in enumerate(zip(cases, io)):
        if line == "7":
            skipped += 1
            continue
        if line.split()[:1] == ["2"]:
            ops = locate(ops)
            line = "2"
        bad = judge(ops, line, maxu, hdr)
        if bad is not None and bad[1] == "hang" and (confirm_first if line == "2" else confirm) > 0:
            if line == "2":
                confirm_first -= 1
            else:
                confirm -= 1
            again = vf.run_impl(impl, "C04", [case_line(ops)], deadline_ms=2 * case_deadline if line == "2" else 60000, env=SLOW)[0]
            vf.ipc_cleanup()
            if judge(ops, again, maxu, hdr) != bad:
                confirm, confirm_first = confirm + 1, 1
                c.cov["slow_steps_rerun"] = c.cov.get("slow_steps_rerun", 0) + 1
                if ops is cases[ci]:
                    io[ci] = again
                bad = judge(ops, again, maxu, hdr)
        verdicts[ci] = (ops, bad)
    if skipped:
        c.cov["histories_not_run_after_two_hangs_of_the_first_process"] = skipped
    if model:
        keep = [i for i in range(len(cases)) if io[i] != "7"]
        vf.correspond(c, label, [shown[i] for i in keep], [io[i] for i in keep], vf.run_model(model, [lines[i] for i in keep]))

    lap("default histories run and compared")
    found = set()
    for ci, ops in enumerate(cases):
        r = Ref(maxu); r.hdr = hdr
        for o in ops:
            r.apply(o)
            if not r.off_premise and o[0] not in (BATTERY, BUCKETS):
                c.nontrivial((o[0], o[1:] if o[0] != WRITE else tuple(o[1]), tuple(sorted(r.indexed)), r.table.key()))
        c.count(len(ops) - 2, "single-slot / chain scenario steps" if ci < n_single else "load-matrix steps (segment state x loading process)" if ci < n_fixed else "generated-history steps")
        c.count((len(ops) - 2) * max(len(o[1]) for o in ops if o[0] == BATTERY), "lookups after a step")
        c.count(sum(1 for o in ops if o[0] == BY2), "operations executed by a second, attached process")
        c.count(sum(1 for o in ops if o[0] == PEER), "operations executed by a long-lived attached process")
        c.count(sum(1 for o in ops if o[0] == LOAD or (o[0] in (BY2, PEER) and o[2][0] == LOAD)) if any(o[0] == RELINK and o[1] for o in ops) else 0, "loads in histories with a symbolically linked .PASSWDS")
        if ci not in verdicts:
            continue
        ops, bad = verdicts[ci]
        if bad is None or bad[1] in found:
            continue
        found.add(bad[1])
        step, key, text = bad
        cur = ops[:step + 1]
        j, trials = 4, 0
        while j < len(cur) - 1 and (key != "hang" or trials < 6):    # shrink: drop earlier operations while the same class still fails at the last step
            trial = cur[:j] + cur[j + 1:]
            trials += 1
            b2 = judge(trial, vf.run_impl(impl, "C04", [case_line(trial)])[0], maxu, hdr)
            if b2 is not None and b2[1] == key and b2[0] == len(trial) - 1:
                cur, text = trial, b2[2]
            else:
                j += 1
        if key == "hang":
            vf.ipc_cleanup()
        rep = {"cases": [case_line(cur)], "history": [str(o) if o[0] not in (BATTERY, BUCKETS) else "%d <%d>" % (o[0], len(o[1])) for o in cur]}
        if n_single <= ci < n_fixed:
            rep["scenario"] = matrix[ci - n_single][0]
        if model:
            ml = vf.run_model(model, [case_line(cur)])[0]
            if key == "hang" or ml != vf.run_impl(impl, "C04", [case_line(cur)])[0]:
                rep["expected"] = ml
        if key == "hang":
            rep["got"] = "status 2 at the last step (the process executing it was killed at the deadline); replay: build/implrun C04 < the case line"
        c.violation(key, text + "  [history: %s]" % rep["history"][2:], rep)
    # ---------------------------------------------------------------- the production configuration: verdicts
    lap("default verdicts")
    dthread.join()
    lap("docker histories run")
    vf.ipc_cleanup()
    if model:
        keep = [i for i in range(len(dcases)) if dio[i] != "7"]
        vf.correspond(c, "histories on the -tags docker build (MAX_USERS %d): sparse .PASSWDS with more than %d free records ahead of users, slots above 2^16 and at the end of the table" % (maxu_d, PREALLOC),
                      [dshown[i] for i in keep], [dio[i] for i in keep], vf.run_model(model, [dlines[i] for i in keep]))
    for di, ((name, ops), line) in enumerate(zip(dcases, dio)):
        r = dref()
        for o in ops:
            r.apply(o)
            if o[0] not in (BATTERY, BUCKETS, SLOTS):
                c.nontrivial(("docker", dshow(o), tuple(sorted(r.indexed))[-40:], r.table.key()))
        c.count(len(ops) - 3, "production-configuration (docker build) steps")
        c.count((len(ops) - 3) * max(len(o[1]) for o in ops if o[0] == BATTERY), "lookups after a step")
        c.count(sum(1 for o in ops if o[0] == BY2), "operations executed by a second, attached process")
        if line == "7":
            continue
        bad = judge(ops, line, maxu_d, hdr_d) if line.split()[:1] != ["2"] else (len(ops) - 1, "hang", "the history does not return within 120 s on the docker build")
        if bad is None or bad[1] in found:
            continue
        found.add(bad[1])
        step, key, text = bad
        cur = ops[:step + 1]
        j = 5
        while j < len(cur) - 1 and key != "hang":
            trial = cur[:j] + cur[j + 1:]
            b2 = judge(trial, vf.run_impl(impl_d, "C04", [case_line(trial, "11")], deadline_ms=120000)[0], maxu_d, hdr_d)
            if b2 is not None and b2[1] == key and b2[0] == len(trial) - 1:
                cur, text = trial, b2[2]
            else:
                j += 1
        rp = {"cases": [case_line(cur, "11")], "history": [dshow(o) for o in cur], "scenario": name, "configuration": "-tags docker (MAX_USERS %d, PRE_ALLOCATED_USERS %d)" % (maxu_d, PREALLOC),
              "how": "the case line starts with 11: build/implrun C04 passes it to build/implrun_docker (go build -tags 'verif docker'); ./check C04 --replay builds both"}
        if model:
            ml = vf.run_model(model, [case_line(cur, "11")])[0]
            if ml != vf.run_impl(impl_d, "C04", [case_line(cur, "11")], deadline_ms=120000)[0]:
                rp["expected"] = ml
        c.violation(key, "docker build (MAX_USERS %d): " % maxu_d + text + "  [history: %s]" % rp["history"][1:], rp)
    lap("docker histories compared and judged")
    c.cov["docker_build"] = {"MAX_USERS": maxu_d, "scenarios": [n_ for n_, _ in dcases[:n_dfixed]], "generated_histories": len(dcases) - n_dfixed}
    c.sample({"docker_history": dshown[0][:1500]})

    # ---------------------------------------------------------------- reload through bbs.ReloadUHash (sysop only): implementation only, differential
    # the same history three ways: reload asked by SYSOP, by a plain user, and issued directly with cache.LoadUHash
    tbl = [b"SYSOP", b"alice"] + (fams[0][:4] if fams else [b"Bob2"]) + [b""] * maxu
    tbl = tbl[:maxu]
    pre = start(tbl) + [(SET, 4, b"Zz"), (REMOVE, 2), (WRITE, [b"SYSOP", b"alice", tbl[2], b"Zz"] + tbl[4:])]
    trio = [pre + [(BBS_RELOAD, b"SYSOP")], pre + [(BBS_RELOAD, b"alice")], pre + [(LOAD,)], pre + [(BBS_RELOAD, b"nobody")], pre + [(BBS_RELOAD, b"sysop")]]
    to = vf.run_impl(impl, "C04", [case_line(t) for t in trio], deadline_ms=case_deadline, max_hangs=1)
    c.count(len(trio), "bbs.ReloadUHash scenarios")
    if any(l.split()[:1] != ["0"] for l in to):                # a history does not come back at all: the first process hangs in a load (located and reported above)
        vf.ipc_cleanup()
        if "hang" not in found:
            bi = [i for i, l in enumerate(to) if l.split()[:1] != ["0"]][0]
            cut = locate(trio[bi])
            c.violation("hang", "%s does not return  [history: %s]" % ("bbs.ReloadUHash" if cut[-1][0] == BBS_RELOAD else "LoadUHash()", [str(o) for o in cut[2:]]), {"cases": [case_line(cut)]})
        c.cov["bbs_reload"] = "not compared: the scenario does not return (status %s)" % [l.split()[0] for l in to]
        trio = []

    def last_step(line, ops):
        ob = parse(line, [o if o[0] != BBS_RELOAD else (LOAD,) for o in ops], maxu)
        return ob[-1], ob[-2]
    if trio:
        (s_sys, s_prev), (s_usr, u_prev), (s_dir, _), (s_nob, n_prev), (s_low, l_prev) = (last_step(l, t) for l, t in zip(to, trio))
        if s_sys[:2] != (0, 0) or s_sys[3:] != s_dir[3:]:
            c.violation("bbs-reload-sysop", "bbs.ReloadUHash(SYSOP) returns %s and leaves an index different from the one cache.LoadUHash builds" % (s_sys[:2],), {"cases": [case_line(trio[0]), case_line(trio[2])]})
        for nm, (a, b) in (("alice", (s_usr, u_prev)), ("nobody", (s_nob, n_prev))):
            if a[0] != 3 or a[3:] != b[3:]:
                c.violation("bbs-reload-non-sysop", "bbs.ReloadUHash(%s) (not a sysop) returns status %d and %s the index" % (nm, a[0], "changes" if a[3:] != b[3:] else "keeps"), {"cases": [case_line(trio[1])]})
        if s_low[3:] != (s_dir[3:] if s_low[0] == 0 else l_prev[3:]):
            c.violation("bbs-reload-case", "bbs.ReloadUHash(sysop) returns status %d and leaves an index that is neither the reloaded nor the previous one" % s_low[0], {"cases": [case_line(trio[4])]})
        if judge(trio[2], to[2], maxu, hdr) is not None:
            c.violation("bbs-reload-baseline", "the direct reload of the scenario is itself judged wrong: %s" % (judge(trio[2], to[2], maxu, hdr),), {"cases": [case_line(trio[2])]})
        c.cov["bbs_reload"] = {"sysop": list(s_sys[:2]), "plain_user": list(s_usr[:2]), "unknown_user": list(s_nob[:2]), "sysop_lower_case": list(s_low[:2])}

    lens = {}
    for ops, line in zip(cases, io):
        ob = parse(line, ops, maxu)
        for o in ob or []:
            for h, (slots, end) in o[6].items():
                lens[len(slots)] = lens.get(len(slots), 0) + 1
    c.cov["chain_length_histogram_over_observed_buckets"] = {str(k_): v for k_, v in sorted(lens.items())}
    c.cov["pool"] = {"collision_families": [[i.decode() for i in f[:5]] for f in fams], "colliding_with_the_empty_id": [i.decode() for i in with_empty],
                     "prefix_chains (colliding ids, each a proper prefix of the next)": [[i.decode() for i in t] for t in prefix_chains], "prefix_scenarios": n_prefix, "leftover_scenarios": n_left,
                     "long_family (ids colliding in one bucket)": [i.decode() for i in bigfam], "link_scenarios": n_link, "handover_scenarios": n_hand, "battery_size": len(battery), "buckets_watched": len(buckets), "ids_tried_for_collisions": tries}
    c.sample({"history": shown[n_fixed][:1500], "result_prefix": " ".join(io[n_fixed].split()[:60])})
    c.sample({"history": shown[0][:1200]})
    c.cov["exhaustive_parts"] = ["every slot 1..%d: set, lookup in swapped case, remove, lookup, add, rename to a case twin" % maxu,
                                 "a %d-id collision family: remove head / middle / tail, re-add, rename within and across buckets" % (len(fams[0][:5]) if fams else 0),
                                 "a full table of %d ids: remove and re-add every third slot, reload from an agreeing file" % maxu,
                                 "%d prefix scenarios over %d chains of colliding ids in which each id is a proper prefix of the next (one extra character; two or three extra characters; triples; "
                                 "the empty id with ids of its own bucket): every order of arrival through SetUserID and through a cold load, every id looked up in 4 letter cases with one character less / more / "
                                 "different while only the others are present, while all are, after each removal; DoSearchUserRaw of the empty id (free-slot search)" % (n_prefix, len(prefix_chains)),
                                 "%d leftover scenarios: ids in buffers that held a longer id before (12 / 11 characters, bytes >= 0x80, the tail of the colliding longer id of a prefix pair) as "
                                 "arguments of SetUserID / AddToUHash, as .PASSWDS records on a cold load, on a reload from records with OTHER leftovers and on a cold load by a second process, and as queries; "
                                 "each id looked up clean and dirty in several letter cases; DoSearchUserRaw of the empty id in a dirty buffer" % n_left,
                                 "docker build (MAX_USERS %d): %d scenarios - 5000 records with users behind more than %d free records; %d / %d / %d free records ahead of the first user; 70000 records with users "
                                 "at slots 65535..65537 and operations on the last two slots of the table" % (maxu_d, n_dfixed, PREALLOC, PREALLOC - 1, PREALLOC, PREALLOC + 1),
                                 "load matrix, %d scenarios: {cold load of a zeroed (just created / Shm.Reset) segment, of a segment reset after a previous life, of an unloaded segment with the old chains "
                                 "left behind; reload of a loaded segment; reload of a loaded-then-modified segment} x {executed by the creator, by a second process attached with NewSHM(isCreate=false), "
                                 "by a second process started with NewSHM(isCreate=true)} x {empty, short, full, colliding .PASSWDS}, each followed by lookups from a third process, set / remove / add by both "
                                 "processes and a reload by the other process" % len(matrix)]
    vf.ipc_cleanup()
    lap("done")
    c.finish(rule="one case = a history on a zeroed segment: write .PASSWDS, LoadUHash, then up to 60 of SetUserID / RemoveFromUHash / AddToUHash (only on a slot that is on no chain) / SearchUserRaw / "
                  "reload from an agreeing .PASSWDS / cold load over the dirty or reset segment / attach by a second process; every operation, the first load included, is executed either by the process "
                  "that created the segment or (0 to 90 percent of the operations of a history) by a second process that attached to the existing segment with or without the create flag (IsNew false) "
                  "and is killed when it does not answer within 2.5 s (status 2 = does not terminate; the first two such verdicts are re-run with 12 s); ids from a pool of 16-bit collision families (one with the empty id's bucket), colliding prefix chains (an id, the id plus one character, plus two or three, "
                  "the empty id and ids of its bucket), case twins, a 12-byte id, junk after the NUL, full 50-id tables; after every step the chains of all watched buckets, the count of non-empty heads, all stored ids and a battery of lookups (scenarios: every id they use in 4 letter cases plus near misses; generated histories: a random 96 of the pool's %d) "
                  "are compared with the extracted model and judged against the check's reference dict; a step is distinct by (operation, arguments, "
                  "reference state after it). Half of the generated histories draw 30 or 60 percent of their ids (set / add arguments, .PASSWDS records, queries) in buffers with leftovers of a longer id behind the NUL. "
                  "The same on a second driver built with -tags docker (MAX_USERS 2 000 000): sparse .PASSWDS files of 1 000 to 70 000 records in which more than PRE_ALLOCATED_USERS free records precede live users, "
                  "watched slots instead of the whole table, compared with the extracted model instantiated at the docker constants and judged by the same reference (a record with a valid id is always stored and indexed; "
                  "free records only while at most PRE_ALLOCATED_USERS have been seen)" % len(battery),
             assumptions=["types.Cstrcmp/Cstrcasecmp == 0 are re-specified as equality of the (case-folded) NUL-terminated prefixes (C18 is about those functions)",
                          "docker build: files of at most 70 000 records are loaded (a full 2 000 000-record .PASSWDS is 1 GB); the last slots of the table are reached through SetUserID / AddToUHash; the zeroed / reset segment "
                          "(2 000 000-step self-loops) is exercised on the default build only; a record with a non-empty invalid id behind more than PRE_ALLOCATED_USERS free records is outside the premises",
                          "one writer at a time (concurrent registrations are C15): the second process runs its operation while the first one waits, so two LoadUHash calls racing each other are not driven",
                          "an operation of a second process that has not returned after 2.5 s (12 s on the re-run; LoadUHash over 2^16 buckets and 50 records takes milliseconds; 40 s on the docker build, whose "
                          "second process reloads up to 70 000 records while other jobs load the machine; 20 s for a long-lived attached process of op 34) never returns",
                          "symbolic links: the model resolves the directory entry before loading by definition (C04_load_through_links); that cache.LoadUHash sizes and reads the TABLE is validated on real "
                          "links (absolute, relative, link to a link) in the scratch tree; hard links, bind mounts and a table replaced during a load are not driven",
                          "process-private state: the model has none (C04_operation_is_function_of_segment); the long-lived processes take turns, one operation at a time - true concurrency is not driven - "
                          "on chains of 17 to about 35 slots (the default build has 50 slots); the docker build runs no long-lived peers", "SysV shmget/shmat give every attached process the same bytes",
                          "killUser does not release the slot in the index (C03's finding, row 19 of DESIGN section 6); this check drives cache.* only"])


if __name__ == "__main__":
    main()
