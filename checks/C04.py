#!/usr/bin/env python3
"""C04 — the user-ID index: proofs in coq/Props/C04.v; histories of add / set / remove / cold load / reload / attach on a
real SysV segment through cache.*; after every step the chains walked in the attached memory and a battery of lookups are
compared with the extracted model and judged against a reference dict kept by the check."""
import os, sys
sys.path.insert(0, os.path.join(os.path.dirname(os.path.abspath(__file__)), "..", "lib"))
import vf

IDSZ = 13
FNV_INIT, FNV_PRIME = 33554467, 0x01000193
ALNUM = b"abcdefghijklmnopqrstuvwxyzABCDEFGHIJKLMNOPQRSTUVWXYZ0123456789"
ALPHA = ALNUM[:52]
ADD, REMOVE, SET, SEARCH, DOSEARCH, GETID, WRITE, LOAD, RESET, UNLOAD, ATTACH, ATTACH_HDR, BATTERY, BUCKETS = 10, 11, 12, 13, 14, 15, 20, 21, 22, 23, 25, 26, 30, 31
BBS_RELOAD = 27


def pad(b):
    return (bytes(b) + b"\0" * IDSZ)[:IDSZ]


def cpre(b):
    return bytes(b).split(b"\0")[0]


def fold(b):
    return cpre(b).lower()


def pyhash(b, bits=16):
    """cmsys.StringHashWithHashBits transcribed: case-folded FNV-1a (32 bit), reduced modulo 2^HASH_BITS"""
    h = FNV_INIT
    for ch in bytes(b):
        if ch == 0:
            break
        if 97 <= ch <= 122:
            ch -= 32
        h = ((h ^ ch) * FNV_PRIME) & 0xffffffff
    return h % (1 << bits)


def toks(b):
    return " ".join(str(x) for x in b)


def op_line(o):
    k = o[0]
    if k in (ADD, SET):
        return "%d %d %s" % (k, o[1], toks(pad(o[2])))
    if k in (REMOVE, GETID):
        return "%d %d" % (k, o[1])
    if k in (SEARCH, DOSEARCH, BBS_RELOAD):
        return "%d %s" % (k, toks(pad(o[1])))
    if k in (WRITE, BATTERY):
        return ("%d " % k + " ".join(toks(pad(i)) for i in o[1])).strip()
    if k == BUCKETS:
        return ("%d " % k + toks(o[1])).strip()
    if k == ATTACH_HDR:
        return "%d %d %d" % (k, o[1], o[2])
    return "%d" % k


def case_line(ops):
    return "1|" + "|".join(op_line(o) for o in ops)


class Ref:
    """What the property text prescribes: which slot holds which id, which slots are in the index."""

    def __init__(self, maxu):
        self.maxu = maxu
        self.table = [pad(b"")] * maxu
        self.indexed = set()
        self.file = []
        self.number = self.loaded = 0
        self.wild = True          # after Shm.Reset every head points at slot 0: not a state the property speaks about
        self.off_premise = False  # an operation outside the property's premises was issued; only the correspondence is judged from here on
        self.battery, self.buckets = [], []

    def holders(self, q):
        return {s + 1 for s in self.indexed if fold(self.table[s]) == fold(q)}

    def apply(self, o):
        """-> expected (status, code) or None when the property does not fix it"""
        k = o[0]
        if k == ADD:
            slot = o[1]
            if not 0 <= slot < self.maxu:
                return None
            if slot in self.indexed or self.wild:
                self.off_premise = True       # AddToUHash on a slot that is already on a chain (the code base only adds after removing)
                return None
            self.table[slot] = pad(o[2]); self.indexed.add(slot)
            return (0, 0)
        if k == REMOVE:
            slot = o[1]
            if not 0 <= slot < self.maxu:
                return None
            self.indexed.discard(slot)
            return (0, 0)
        if k == SET:
            uid = o[1]
            if not 1 <= uid <= self.maxu:
                return (3, 3)
            self.table[uid - 1] = pad(o[2]); self.indexed.add(uid - 1)
            return (0, 0)
        if k == WRITE:
            self.file = [pad(i) for i in o[1]]
        elif k == RESET:
            self.table = [pad(b"")] * self.maxu; self.indexed = set(); self.number = self.loaded = 0; self.wild = True
        elif k == UNLOAD:
            self.number = self.loaded = 0
        elif k == LOAD:
            n = len(self.file)
            if self.number == 0 and self.loaded == 0:                 # cold load: from any prior state
                for i in range(n):
                    self.table[i] = self.file[i]
                self.indexed = set(range(n)); self.loaded = 1; self.wild = False
            else:                                                     # reload into a populated segment
                if self.wild or any(cpre(self.file[i]) != cpre(self.table[i]) for i in range(n)):
                    self.off_premise = True                           # .PASSWDS disagrees with the live table
                    return None
                self.indexed |= set(range(n))
            self.number = n
        elif k == BATTERY:
            self.battery = [pad(i) for i in o[1]]
        elif k == BUCKETS:
            self.buckets = list(o[1])
        elif k == ATTACH_HDR:
            return (0, 0) if (o[1], o[2]) == self.hdr else (3, 4) if o[1] != self.hdr[0] else (3, 5)
        return (0, 0)


def parse(line, ops, maxu):
    t = [int(x) for x in line.split()]
    if t[0] != 0:
        return None
    i, out = 1, []
    for o in ops:
        st, code = t[i], t[i + 1]; i += 2
        extra = None
        if o[0] in (SEARCH, DOSEARCH, GETID):
            extra = bytes(t[i:i + IDSZ]); i += IDSZ
        elif o[0] == ATTACH:
            n = t[i]; extra = t[i + 1:i + 1 + n]; i += 1 + n
        number, loaded, nonempty, nb = t[i:i + 4]; i += 4
        chains = {}
        for _ in range(nb):
            h, k = t[i], t[i + 1]
            chains[h] = (t[i + 2:i + 2 + k], t[i + 2 + k]); i += 3 + k
        ids = [bytes(t[i + IDSZ * s:i + IDSZ * (s + 1)]) for s in range(maxu)]; i += IDSZ * maxu
        nl = t[i]; looks = t[i + 1:i + 1 + nl]; i += 1 + nl
        out.append((st, code, extra, number, loaded, nonempty, chains, ids, looks))
    assert i == len(t), (i, len(t))
    return out


def judge(ops, line, maxu, hdr):
    """first step where the implementation's own outputs contradict the property -> None | (step, key, text)"""
    obs = parse(line, ops, maxu)
    if obs is None:
        return (0, "driver", "case status " + line[:20])
    r = Ref(maxu); r.hdr = hdr
    for n, (o, ob) in enumerate(zip(ops, obs)):
        st, code, extra, number, loaded, nonempty, chains, ids, looks = ob
        exp = r.apply(o)
        if r.off_premise:
            return None
        name = {ADD: "AddToUHash", REMOVE: "RemoveFromUHash", SET: "SetUserID", SEARCH: "SearchUserRaw", DOSEARCH: "DoSearchUserRaw", GETID: "GetUserID", LOAD: "LoadUHash",
                ATTACH: "attach by a second process", ATTACH_HDR: "attach with header"}.get(o[0], "op %d" % o[0])
        desc = "%s%s" % (name, tuple(cpre(x) if isinstance(x, (bytes, bytearray)) else x for x in o[1:]) if o[0] not in (WRITE, BATTERY, BUCKETS) else "")
        if st in (1, 2) and exp is not None:
            return (n, "crash" if st == 1 else "hang", "%s %s" % (desc, "panics" if st == 1 else "does not return"))
        if exp is not None and (st, code) != exp and o[0] not in (SEARCH, DOSEARCH, GETID):
            return (n, "result", "%s returns status %d code %d, expected %s" % (desc, st, code, exp))
        if r.wild:
            continue
        if o[0] in (SEARCH, DOSEARCH) and st == 0:
            q = pad(o[1]); hold = r.holders(q)
            if o[0] == SEARCH and q[0] == 0:
                hold = set()
            if (code not in hold) if hold else code != 0:
                return (n, "lookup-miss" if hold else "lookup-ghost", "%s returns %d; slots holding that id (any case): %s" % (desc, code, sorted(hold)))
            want = r.table[code - 1] if code and q[0] else pad(b"")
            if extra != want:
                return (n, "right-id", "%s copies %r into rightID, the slot holds %r" % (desc, extra, want))
        if o[0] == GETID and st == 0 and extra != r.table[o[1] - 1]:
            return (n, "ids", "%s returns %r, the slot holds %r" % (desc, extra, r.table[o[1] - 1]))
        if ids != r.table:
            bad = [s for s in range(maxu) if ids[s] != r.table[s]]
            return (n, "ids", "after %s Userid[%d] = %r, expected %r" % (desc, bad[0], ids[bad[0]], r.table[bad[0]]))
        if (number, loaded) != (r.number, r.loaded):
            return (n, "number", "after %s Number/Loaded = %d/%d, expected %d/%d" % (desc, number, loaded, r.number, r.loaded))
        seen = {}
        for h, (slots, end) in sorted(chains.items()):
            if end != -1:
                return (n, "chain-not-terminated", "after %s the chain of bucket %d %s" % (desc, h, "has a link out of range" if end == -2 else "is longer than MAX_USERS (cycle)"))
            for s in slots:
                if s in seen:
                    return (n, "slot-on-two-chains", "after %s slot %d is on the chains of buckets %d and %d (or twice on one)" % (desc, s, seen[s], h))
                seen[s] = h
                if pyhash(ids[s]) != h:
                    return (n, "slot-on-wrong-chain", "after %s slot %d (id %r, hash %d) is on the chain of bucket %d" % (desc, s, cpre(ids[s]), pyhash(ids[s]), h))
        if set(seen) != r.indexed:
            miss, extra_s = sorted(r.indexed - set(seen)), sorted(set(seen) - r.indexed)
            if miss:
                return (n, "occupied-slot-on-no-chain", "after %s slot(s) %s (id %r) are on no chain" % (desc, miss[:5], cpre(r.table[miss[0]])))
            return (n, "removed-slot-still-on-chain", "after %s slot(s) %s were removed but are still on a chain" % (desc, extra_s[:5]))
        if nonempty != sum(1 for h, (s, e) in chains.items() if s):
            return (n, "stray-bucket", "after %s %d buckets are non-empty, the ids in use account for %d" % (desc, nonempty, sum(1 for h, (s, e) in chains.items() if s)))
        for q, got in zip(r.battery, looks):
            hold = r.holders(q) if q[0] else set()
            if got < 0:
                return (n, "crash", "after %s SearchUserRaw(%r) panics" % (desc, cpre(q)))
            if (got not in hold) if hold else got != 0:
                return (n, "lookup-miss" if hold else "lookup-ghost", "after %s SearchUserRaw(%r) returns %d; slots holding that id (any case): %s" % (desc, cpre(q), got, sorted(hold)))
        if o[0] == ATTACH and (st != 0 or list(extra) != list(looks)):
            return (n, "attach-differs", "the attaching process answers %s, the first process %s" % (extra, looks))
    return None


def main():
    c = vf.Check("C04")
    rng = c.rng
    thorough = c.tier == "thorough"
    c.prove()
    model_ok = c.model_ok()
    impl = vf.build_impl()
    model = vf.build_model("C04") if model_ok else None
    vf.ipc_cleanup()

    def both(lines, label, shown=None):
        io = vf.run_impl(impl, "C04", lines, deadline_ms=60000)
        if model:
            vf.correspond(c, label, shown or lines, io, vf.run_model(model, lines))
        return io

    k = both(["3"], "constants (MAX_USERS, 1<<HASH_BITS, USER_ID_SZ, SHM_VERSION, SHM_RAW_SZ, PRE_ALLOCATED_USERS)")[0].split()
    maxu, hashn, idsz, shmver, shmsz = (int(x) for x in k[1:6])
    bits = hashn.bit_length() - 1
    hdr = (shmver, shmsz)
    c.count(1, "constants")

    # ---------------------------------------------------------------- ID pool: 16-bit collision families, case twins
    def rand_id(lo=2, hi=12):
        n = rng.randrange(lo, hi + 1)
        return bytes([rng.choice(ALPHA)] + [rng.choice(ALNUM) for _ in range(n - 1)])

    by_bucket, empty_bucket = {}, pyhash(b"", bits)
    seen_fold = set()
    tries = 0
    while tries < 600000:
        tries += 1
        i = rand_id(2, 6)
        if i.lower() in seen_fold:
            continue
        seen_fold.add(i.lower())
        by_bucket.setdefault(pyhash(i, bits), []).append(i)
        if tries >= 150000 and len(by_bucket.get(empty_bucket, [])) >= 2:
            break
    fams = sorted((v for v in by_bucket.values() if len(v) >= 3), key=lambda v: (-len(v), v))[:3]
    with_empty = by_bucket.get(empty_bucket, [])[:2]
    plain = [b"SYSOP", b"guest", b"alice", b"Bob2", b"a1", b"Zz", b"twelvechars1"]
    pool = [i for f in fams for i in f[:5]] + with_empty + plain
    full = []                                                # 50 pairwise distinct ids for full tables: whole families first
    for f in sorted(by_bucket.values(), key=lambda v: (-len(v), v)):
        for i in f:
            if len(full) < maxu and i.lower() not in {x.lower() for x in pool}:
                full.append(i)
    spare = [rand_id() for _ in range(25)]                    # used when every pool id is taken
    junk = b"bob\0XYZ"                                        # bytes after the NUL are stored but must not matter
    queries = []
    for i in pool + full[:6]:
        queries += [i, i.upper(), i.lower(), i.swapcase()]
    queries += [b"", junk, b"nobody", b"ALICEx", b"alic", b"\0alice", b"al\0ice"] + [rand_id() for _ in range(6)]
    battery = sorted(set(pad(q) for q in queries))
    buckets = sorted({pyhash(i, bits) for i in pool + full + spare + [b"", junk, b"bob"] + [cpre(q) for q in battery]})

    # the check's transcription of the hash against the implementation (and the model)
    hl = [pad(i) for i in pool + full] + battery + [bytes(rng.randrange(256) for _ in range(IDSZ)) for _ in range(1500)] + [bytes([rng.randrange(1, 256)] * 13)]
    ho = both(["2|" + toks(i) for i in hl], "StringHashWithHashBits")
    c.count(len(hl), "hash")
    for i, o in zip(hl, ho):
        if o.split() != ["0", str(pyhash(i, bits))]:
            c.broken.append({"kind": "harness", "where": "checks/C04.py pyhash", "theorem": "the check's FNV transcription equals cmsys.StringHashWithHashBits", "log": "%r -> %s, python %d" % (i, o, pyhash(i, bits))})
            break

    # ---------------------------------------------------------------- histories
    def start(file_ids):
        return [(BUCKETS, buckets), (BATTERY, battery), (WRITE, file_ids), (LOAD,)]

    def gen_history(n, style):
        r = Ref(maxu); r.hdr = hdr
        if style == "full":
            file_ids = list(full)
        elif style == "short":
            file_ids = [rng.choice(pool) if rng.random() < 0.5 else b"" for _ in range(rng.randrange(0, maxu))]
        else:
            some = rng.sample(pool, rng.randrange(0, min(len(pool), 12)))
            file_ids = (some + [b""] * maxu)[:maxu]
            rng.shuffle(file_ids)
        ops = start(file_ids)
        for o in ops:
            r.apply(o)
        free_ids = lambda: [i for i in pool + ([junk] if style != "full" else []) if not r.holders(i)] or [i for i in spare if not r.holders(i)] or pool
        while len(ops) < n + 4:
            x = rng.random()
            slot = rng.choice([0, 1, maxu - 1, rng.randrange(maxu), rng.randrange(maxu)])
            if x < 0.40:
                i = rng.choice(free_ids()) if rng.random() < 0.85 else rng.choice(pool)           # sometimes a duplicate up to case
                if rng.random() < 0.3:
                    i = rng.choice([i.upper(), i.lower(), i.swapcase()])
                    if r.holders(i) and rng.random() < 0.8:
                        continue
                o = (SET, slot + 1, i)
            elif x < 0.45:
                o = (SET, rng.choice([0, -1, maxu + 1, 2**31 - 1, -2**31]), rng.choice(pool))
            elif x < 0.57:
                o = (REMOVE, slot if rng.random() < 0.5 or not r.indexed else rng.choice(sorted(r.indexed)))
            elif x < 0.67:
                freeslots = sorted(set(range(maxu)) - r.indexed)
                if not freeslots:
                    continue
                o = (ADD, rng.choice(freeslots), rng.choice(free_ids()))
            elif x < 0.75:
                q = rng.choice(battery + [r.table[s] for s in r.indexed][:10])
                o = (rng.choice([SEARCH, SEARCH, DOSEARCH]), rng.choice([q, q.upper(), q.lower()]))
            elif x < 0.78:
                o = (GETID, rng.choice([1, maxu, slot + 1, 0, maxu + 1]))
            elif x < 0.86:                                                                       # reload into the populated segment from an agreeing file
                nrec = maxu if rng.random() < 0.7 else rng.randrange(0, maxu + 1)
                for o in ((WRITE, [cpre(t) if rng.random() < 0.8 else t for t in r.table[:nrec]]), (LOAD,)):
                    r.apply(o); ops.append(o)
                continue
            elif x < 0.91:                                                                       # cold load over whatever the segment holds
                newfile = [rng.choice(pool + [b""] * 6) for _ in range(maxu)] if rng.random() < 0.6 else list(full)
                if rng.random() < 0.5:
                    seenf, nf = set(), []
                    for i in newfile:
                        nf.append(b"" if i.lower() in seenf else i); seenf.add(i.lower())
                    newfile = nf
                for o in ((UNLOAD,) if rng.random() < 0.6 else (RESET,), (WRITE, newfile), (LOAD,)):
                    r.apply(o); ops.append(o)
                continue
            elif x < 0.955:
                o = (ATTACH,)
            elif x < 0.97:
                o = (ATTACH_HDR, rng.choice([shmver, shmver + 1, 0]), rng.choice([shmsz, shmsz, shmsz - 4]))
            else:
                continue
            r.apply(o); ops.append(o)
        return ops

    cases = []
    # fixed scenarios: fill a chain, remove head / middle / tail, re-add, rename inside the same bucket and across buckets
    if fams:
        f = fams[0][:5]
        base = start([b""] * maxu)
        cases.append(base + [(SET, u + 1, i) for u, i in enumerate(f)] + [(REMOVE, 0), (REMOVE, 2), (REMOVE, len(f) - 1), (ADD, 2, f[2]), (ADD, 0, f[0].upper()), (ADD, len(f) - 1, f[-1]),
                             (SET, 2, f[0]), (SET, 1, b"alice"), (SET, 2, f[1].swapcase()), (WRITE, [b""] * maxu), (LOAD,), (ATTACH,)])
        cases.append(start(list(full)) + [(REMOVE, s) for s in range(0, maxu, 3)] + [(ADD, s, full[s].upper()) for s in range(0, maxu, 3)] + [(ATTACH,), (WRITE, [x.upper() for x in full]), (LOAD,)])
    for u in range(1, maxu + 1):                               # every slot once
        cases.append(start([b""] * maxu) + [(SET, u, pool[u % len(pool)]), (SEARCH, pool[u % len(pool)].swapcase()), (REMOVE, u - 1), (SEARCH, pool[u % len(pool)]), (ADD, u - 1, b"alice"), (SET, u, b"ALICE")])
    # outside the premises (correspondence only): a reload from a file that disagrees, AddToUHash on a slot that is on a chain
    cases.append(start([b"alice", b"Bob2"] + [b""] * (maxu - 2)) + [(WRITE, [b"Bob2", b"alice"] + [b""] * (maxu - 2)), (LOAD,), (SEARCH, b"alice"), (SET, 1, b"guest")])
    cases.append(start([b""] * maxu) + [(SET, 1, b"alice"), (ADD, 0, b"alice"), (ADD, 0, b"Zz"), (REMOVE, 0), (LOAD,)])
    n_fixed = len(cases)
    n_hist = 1500 if thorough else 70
    for i in range(n_hist):
        cases.append(gen_history(rng.randrange(5, 61), ["mixed", "mixed", "full", "short", "mixed"][i % 5]))

    lines = [case_line(ops) for ops in cases]
    shown = ["1|" + " | ".join(str(tuple(cpre(x) if isinstance(x, bytes) else x for x in o)) if o[0] not in (WRITE, BATTERY, BUCKETS) else "%d <%d ids>" % (o[0], len(o[1])) for o in ops) for ops in cases]
    io = both(lines, "histories (returns, chains of the pool's buckets, all stored ids, lookup battery, second process)", shown)

    found = set()
    for ci, (ops, line) in enumerate(zip(cases, io)):
        r = Ref(maxu); r.hdr = hdr
        for o in ops:
            r.apply(o)
            if not r.off_premise and o[0] not in (BATTERY, BUCKETS):
                c.nontrivial((o[0], o[1:] if o[0] != WRITE else tuple(o[1]), tuple(sorted(r.indexed)), tuple(r.table)))
        c.count(len(ops) - 2, "fixed-scenario steps" if ci < n_fixed else "generated-history steps")
        c.count((len(ops) - 2) * len(battery), "lookups after a step")
        bad = judge(ops, line, maxu, hdr)
        if bad is None or bad[1] in found:
            continue
        found.add(bad[1])
        step, key, text = bad
        cur = ops[:step + 1]
        j = 4
        while j < len(cur) - 1:                                   # shrink: drop earlier operations while the same class still fails at the last step
            trial = cur[:j] + cur[j + 1:]
            b2 = judge(trial, vf.run_impl(impl, "C04", [case_line(trial)])[0], maxu, hdr)
            if b2 is not None and b2[1] == key and b2[0] == len(trial) - 1:
                cur, text = trial, b2[2]
            else:
                j += 1
        rep = {"cases": [case_line(cur)], "history": [str(o) if o[0] not in (BATTERY, BUCKETS) else "%d <%d>" % (o[0], len(o[1])) for o in cur]}
        if model:
            ml = vf.run_model(model, [case_line(cur)])[0]
            if ml != vf.run_impl(impl, "C04", [case_line(cur)])[0]:
                rep["expected"] = ml
        c.violation(key, text + "  [history: %s]" % rep["history"][2:], rep)
    # ---------------------------------------------------------------- reload through bbs.ReloadUHash (sysop only): implementation only, differential
    # the same history three ways: reload asked by SYSOP, by a plain user, and issued directly with cache.LoadUHash
    tbl = [b"SYSOP", b"alice"] + (fams[0][:4] if fams else [b"Bob2"]) + [b""] * maxu
    tbl = tbl[:maxu]
    pre = start(tbl) + [(SET, 4, b"Zz"), (REMOVE, 2), (WRITE, [b"SYSOP", b"alice", tbl[2], b"Zz"] + tbl[4:])]
    trio = [pre + [(BBS_RELOAD, b"SYSOP")], pre + [(BBS_RELOAD, b"alice")], pre + [(LOAD,)], pre + [(BBS_RELOAD, b"nobody")], pre + [(BBS_RELOAD, b"sysop")]]
    to = vf.run_impl(impl, "C04", [case_line(t) for t in trio])
    c.count(len(trio), "bbs.ReloadUHash scenarios")

    def last_step(line, ops):
        ob = parse(line, [o if o[0] != BBS_RELOAD else (LOAD,) for o in ops], maxu)
        return ob[-1], ob[-2]
    (s_sys, s_prev), (s_usr, u_prev), (s_dir, _), (s_nob, n_prev), (s_low, l_prev) = (last_step(l, t) for l, t in zip(to, trio))
    if s_sys[:2] != (0, 0) or s_sys[3:] != s_dir[3:]:
        c.violation("bbs-reload-sysop", "bbs.ReloadUHash(SYSOP) returns %s and leaves an index different from the one cache.LoadUHash builds" % (s_sys[:2],), {"cases": [case_line(trio[0]), case_line(trio[2])]})
    for nm, (a, b) in (("alice", (s_usr, u_prev)), ("nobody", (s_nob, n_prev))):
        if a[0] != 3 or a[3:] != b[3:]:
            c.violation("bbs-reload-non-sysop", "bbs.ReloadUHash(%s) (not a sysop) returns status %d and %s the index" % (nm, a[0], "changes" if a[3:] != b[3:] else "keeps"), {"cases": [case_line(trio[1])]})
    if s_low[3:] != (s_dir[3:] if s_low[0] == 0 else l_prev[3:]):
        c.violation("bbs-reload-case", "bbs.ReloadUHash(sysop) returns status %d and leaves an index that is neither the reloaded nor the previous one" % s_low[0], {"cases": [case_line(trio[4])]})
    if judge(trio[2], to[2], maxu, hdr) is not None:
        c.violation("bbs-reload-baseline", "the direct reload of the scenario is itself judged wrong: %s" % (judge(trio[2], to[2], maxu, hdr),), {"cases": [case_line(trio[2])]})
    c.cov["bbs_reload"] = {"sysop": list(s_sys[:2]), "plain_user": list(s_usr[:2]), "unknown_user": list(s_nob[:2]), "sysop_lower_case": list(s_low[:2])}

    lens = {}
    for ops, line in zip(cases, io):
        ob = parse(line, ops, maxu)
        for o in ob or []:
            for h, (slots, end) in o[6].items():
                lens[len(slots)] = lens.get(len(slots), 0) + 1
    c.cov["chain_length_histogram_over_observed_buckets"] = {str(k_): v for k_, v in sorted(lens.items())}
    c.cov["pool"] = {"collision_families": [[i.decode() for i in f[:5]] for f in fams], "colliding_with_the_empty_id": [i.decode() for i in with_empty],
                     "battery_size": len(battery), "buckets_watched": len(buckets), "ids_tried_for_collisions": tries}
    c.sample({"history": shown[n_fixed][:1500], "result_prefix": " ".join(io[n_fixed].split()[:60])})
    c.sample({"history": shown[0][:1200]})
    c.cov["exhaustive_parts"] = ["every slot 1..%d: set, lookup in swapped case, remove, lookup, add, rename to a case twin" % maxu,
                                 "a %d-id collision family: remove head / middle / tail, re-add, rename within and across buckets" % (len(fams[0][:5]) if fams else 0),
                                 "a full table of %d ids: remove and re-add every third slot, reload from an agreeing file" % maxu]
    vf.ipc_cleanup()
    c.finish(rule="one case = a history on a zeroed segment: write .PASSWDS, LoadUHash, then up to 60 of SetUserID / RemoveFromUHash / AddToUHash (only on a slot that is on no chain) / SearchUserRaw / "
                  "reload from an agreeing .PASSWDS / cold load over the dirty or reset segment / attach by a second process; ids from a pool of 16-bit collision families (one with the empty id's bucket), "
                  "case twins, a 12-byte id, junk after the NUL, full 50-id tables; after every step the chains of all watched buckets, the count of non-empty heads, all stored ids and %d lookups "
                  "(every pool id in 4 letter cases, near misses) are compared with the extracted model and judged against the check's reference dict; a step is distinct by (operation, arguments, "
                  "reference state after it)" % len(battery),
             assumptions=["types.Cstrcmp/Cstrcasecmp == 0 are re-specified as equality of the (case-folded) NUL-terminated prefixes (C18 is about those functions)",
                          "one writer at a time (concurrent registrations are C15)", "SysV shmget/shmat give every attached process the same bytes",
                          "killUser does not release the slot in the index (C03's finding, row 19 of DESIGN section 6); this check drives cache.* only"])


if __name__ == "__main__":
    main()
