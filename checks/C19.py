#!/usr/bin/env python3
"""C19 — favourites survive save/load; a crash never leaves a torn file.
Proofs in coq/Props/C19.v; correspondence of the extracted model with ptt/fav driven through
NewFavRaw/Add*/Save/Load; direct predicates on the implementation's own outputs: round trip against the
tree that was in memory, file bytes against a reference writer written here, counter consistency,
"never crashes / hangs", .fav on disk after a process death at every crash point of a save, trees near the
limits (MAX_FAV entries, files up to 57350 bytes), and histories of saves of several users in one process
in which some saves are refused half-way (every later .fav must be exactly its own image)."""
import os, shutil, sys, tempfile
from functools import lru_cache
sys.path.insert(0, os.path.join(os.path.dirname(os.path.abspath(__file__)), "..", "lib"))
import vf

T_BOARD, T_FOLDER, T_LINE = 1, 2, 3
VERSION = [35, 13]          # 3363 little endian
TITLE = 49


# ---------------------------------------------------------------- tree shapes and constructor scripts
@lru_cache(None)
def forests(n, d):
    """all forests with exactly n entries, nesting depth <= d; entries: 'B', 'L', ('F', sub-forest)"""
    if n == 0:
        return [()]
    out = []
    for rest_n in range(n):
        k = n - rest_n
        firsts = []
        if k == 1:
            firsts += ["B", "L"]
        if d >= 2:
            firsts += [("F", sub) for sub in forests(k - 1, d - 1)]
        elif k == 1:
            firsts.append(("F", ()))
        for f in firsts:
            for r in forests(rest_n, d):
                out.append((f,) + r)
    return out


class Script:
    """turns a forest into Add* calls: entries of a level in order, then the sub-levels"""
    def __init__(self, rng=None):
        self.ops = []
        self.bid = 0
        self.rng = rng

    def title(self):
        if self.rng is None:
            return [65 + self.bid % 26]
        n = self.rng.choice([0, 1, 8, 30, 48, 49])
        return [self.rng.choice([0xA4, 0x40, 0x41, 0x7E, 0xFF, 0x80, 0x20, 0x0A]) if self.rng.random() < 0.5 else self.rng.randrange(1, 256) for _ in range(n)]

    def level(self, path, forest):
        p = [len(path)] + path
        for it in forest:
            if it == "B":
                self.bid = self.bid % 100 + 1
                self.ops.append([1] + p + [self.bid])
            elif it == "L":
                self.ops.append([2] + p)
            else:
                self.ops.append([3] + p + self.title())
        for i, it in enumerate(forest):
            if isinstance(it, tuple):
                self.level(path + [i], it[1])

    def text(self):
        return "|".join(" ".join(str(x) for x in g) for g in self.ops)


def script_of(forest, rng=None, decorate=0.0):
    s = Script(rng)
    s.level([], forest)
    if rng is not None and decorate > 0:
        # set attrs (drop the FAVH_FAV bit here and there) and board payload fields through the exported fields
        def walk(path, forest):
            p = [len(path)] + path
            for i, it in enumerate(forest):
                if rng.random() < decorate:
                    s.ops.append([4] + p + [i, rng.choice([0, 2, 3, 5, -1, -2, 127, -128, 1, 9])])
                if it == "B" and rng.random() < decorate:
                    s.ops.append([5] + p + [i, rng.choice([0, 1, -1, 2**31 - 1, -2**31, rng.randrange(-2**31, 2**31)]), rng.choice([0, 1, -1, 127, -128, 8])])
                if isinstance(it, tuple):
                    walk(path + [i], it[1])
        walk([], forest)
    return s.text()


def random_forest(rng, n, d):
    """a random forest with about n entries"""
    out = []
    while n > 0:
        r = rng.random()
        if r < 0.4:
            out.append("B"); n -= 1
        elif r < 0.6:
            out.append("L"); n -= 1
        elif d >= 2:
            k = rng.randrange(0, n)
            out.append(("F", random_forest(rng, k, d - 1))); n -= 1 + k
        else:
            out.append(("F", ())); n -= 1
    return tuple(out)


# ---------------------------------------------------------------- dumps, reference writer, expectations
def parse_fav(t, pos):
    nb, nl, nf, lid, fid, favnum, n = (int(x) for x in t[pos:pos + 7])
    pos += 7
    items = []
    for _ in range(n):
        ty, attr = int(t[pos]), int(t[pos + 1])
        pos += 2
        if ty == T_BOARD:
            items.append(("B", attr, int(t[pos]), int(t[pos + 1]), int(t[pos + 2]))); pos += 3
        elif ty == T_LINE:
            items.append(("L", attr, int(t[pos]))); pos += 1
        elif ty == T_FOLDER:
            f = int(t[pos]); title = [int(x) for x in t[pos + 1:pos + 1 + TITLE]]
            pos += 1 + TITLE
            sub, pos = parse_fav(t, pos)
            items.append(("F", attr, f, title, sub))
        else:
            raise ValueError("dump: type %d" % ty)
    return {"nb": nb, "nl": nl, "nf": nf, "lid": lid, "fid": fid, "favnum": favnum, "items": items}, pos


def parse_saved(line):
    """result of ops 1/3 -> (status, code, nerr, pre tree, file bytes or None, returned tree or None)"""
    t = line.split()
    st = int(t[0])
    if st not in (0, 3):
        return st, None, None, None, None, None
    pos = 1
    code = None
    if st == 3:
        code = int(t[1]); pos = 2
    nerr = int(t[pos]); pos += 1
    npre = int(t[pos]); pos += 1
    pre, end = parse_fav(t, pos)
    assert end == pos + npre, "pre dump length"
    pos = end
    fl = int(t[pos]); pos += 1
    if fl < 0:
        fbytes = None
    else:
        fbytes = [int(x) for x in t[pos:pos + fl]]; pos += fl
    ret = None
    if st == 0:
        ret, pos = parse_fav(t, pos)
    assert pos == len(t), "trailing tokens"
    return st, code, nerr, pre, fbytes, ret


def le(v, n):
    v &= (1 << (8 * n)) - 1
    return [(v >> (8 * i)) & 255 for i in range(n)]


def ref_write(tr):
    """the pttbbs .fav format: counts, entries (12-byte boards, 1-byte lines, fid + 49-byte title), folders depth-first"""
    out = le(tr["nb"], 2) + le(tr["nl"], 1) + le(tr["nf"], 1)
    for it in tr["items"]:
        if it[0] == "B":
            out += [T_BOARD] + le(it[1], 1) + le(it[2], 4) + le(it[3], 4) + le(it[4], 1) + [0, 0, 0]
        elif it[0] == "L":
            out += [T_LINE] + le(it[1], 1) + le(it[2], 1)
        else:
            out += [T_FOLDER] + le(it[1], 1) + le(it[2], 1) + list(it[3])
    for it in tr["items"]:
        if it[0] == "F":
            out += ref_write(it[4])
    return out


def expected_after_save(tr):
    """what saving and loading must give back: the valid entries in order, ids renumbered, counters = entry counts"""
    items, nb, nl, nf, total = [], 0, 0, 0, 0
    for it in tr["items"]:
        if it[1] & 1 == 0:
            continue
        if it[0] == "B":
            nb += 1; items.append(it)
        elif it[0] == "L":
            nl += 1; items.append(("L", it[1], nl))
        else:
            nf += 1
            sub = expected_after_save(it[4])
            total += sub["favnum"]
            items.append(("F", it[1], nf, it[3], sub))
    n = nb + nl + nf
    return {"nb": nb, "nl": nl, "nf": nf, "lid": nl, "fid": nf, "favnum": n + total, "items": items}


def all_valid(tr):
    return all(it[1] & 1 and (it[0] != "F" or all_valid(it[4])) for it in tr["items"])


def strip_sub_favnum(tr, root=True):
    """sub-folder FavNum is a cache filled by the reader only; ids and the other counters must already agree in memory"""
    return {**tr, "favnum": tr["favnum"] if root else 0,
            "items": [it if it[0] != "F" else it[:4] + (strip_sub_favnum(it[4], False),) for it in tr["items"]]}


def size_of(tr):
    return len(tr["items"]) + sum(size_of(it[4]) for it in tr["items"] if it[0] == "F")


def depth_of(tr):
    return 1 + max([depth_of(it[4]) for it in tr["items"] if it[0] == "F"] or [0])


def toks(bs):
    return " ".join(str(b) for b in bs)


# ---------------------------------------------------------------- the sweep over initial directory states (op 7)
F_FAV, F_TMP, F_FAV4, F_STALE, F_BAK = 0, 1, 2, 3, 4


def bl_tree(rng, n, decorate):
    """a boards-and-lines tree both as a constructor script and as the .fav4 file that fav.Load converts to it
    (.fav4: counts int16/int8/int8, per entry type, attr, then 12-byte board (bid, lastvisit, attr, 3 pad) | 1-byte line)"""
    ops, ents, nb, nl = [], [], 0, 0
    for i in range(n):
        attr = 1
        if rng.random() < decorate:
            attr = rng.choice([0, 2, 3, 5, -1, -2, 127, -128, 1, 9])
        if rng.random() < 0.6:
            nb += 1
            bid = nb
            lv, ba = 0, 0
            ops.append([1, 0, bid])
            if rng.random() < decorate:
                lv, ba = rng.choice([0, 1, -1, 2**31 - 1, -2**31]), rng.choice([0, 1, -1, 127, -128, 8])
                ops.append([5, 0, i, lv, ba])
            ents.append([T_BOARD] + le(attr, 1) + le(bid, 4) + le(lv, 4) + le(ba, 1) + [0, 0, 0])
        else:
            nl += 1
            ops.append([2, 0])
            ents.append([T_LINE] + le(attr, 1) + [nl])
        if attr != 1:
            ops.append([4, 0, i, attr])
    fav4 = le(nb, 2) + le(nl, 1) + [0] + [b for e in ents for b in e]
    return "|".join(" ".join(str(x) for x in g) for g in ops), fav4


def bl_tree_of(shape):
    """the same for a fixed shape (a string over B and L), plain entries"""
    ops, ents, nb, nl = [], [], 0, 0
    for ch in shape:
        if ch == "B":
            nb += 1
            ops.append("1 0 %d" % nb)
            ents.append([T_BOARD, 1] + le(nb, 4) + le(0, 4) + [0, 0, 0, 0])
        else:
            nl += 1
            ops.append("2 0")
            ents.append([T_LINE, 1, nl])
    return "|".join(ops), le(nb, 2) + le(nl, 1) + [0] + [b for e in ents for b in e]


def sweep_line(hasfav, mode, rel, fav4, stale, old, new):
    g = ["7", "%d %d %d" % (hasfav, mode, rel),
         "77 0" if fav4 is None else ("77 1 " + toks(fav4)).strip(),
         "78 0" if stale is None else ("78 1 " + toks(stale)).strip()]
    if old:
        g.append(old)
    g.append("99")
    if new:
        g.append(new)
    return "|".join(g)


def showf(b):
    return "absent" if b is None else "(%d bytes) %s" % (len(b), toks(b)[:300])


def parse_sweep(res):
    """result of op 7 -> (pre old tree, pre new tree, K, [ (files {code: bytes or list of bytes}, load) ] )"""
    t = res.split()
    pos = 1
    n = int(t[pos]); pre_old, end = parse_fav(t, pos + 1); assert end == pos + 1 + n; pos = end
    n = int(t[pos]); pre_new, end = parse_fav(t, pos + 1); assert end == pos + 1 + n; pos = end
    K = int(t[pos]); pos += 1
    states = []
    for _ in range(K + 1):
        nf = int(t[pos]); pos += 1
        files = {}
        for _ in range(nf):
            code, ln = int(t[pos]), int(t[pos + 1])
            files.setdefault(code, []).append([int(x) for x in t[pos + 2:pos + 2 + ln]])
            pos += 2 + ln
        ls = int(t[pos])
        if ls == 0:
            m = int(t[pos + 1])
            if m < 0:
                load = ("nil",) if m == -1 else ("converted",)
                pos += 2
            else:
                tr, end = parse_fav(t, pos + 2); assert end == pos + 2 + m
                load = ("tree", tr); pos = end
        elif ls == 3:
            load = ("error", int(t[pos + 1])); pos += 2
        else:
            load = ("crash" if ls == 1 else "hang",); pos += 1
        states.append((files, load))
    assert pos == len(t), "trailing tokens"
    return pre_old, pre_new, K, states


# ---------------------------------------------------------------- trees near the limits (MAX_FAV entries, files of 14 KiB - 56 KiB)
def grid_script(nroot_folders, sub_folders, sub_boards, sub_lines=0, root_boards=0, root_lines=0, extra=0):
    """root: nroot_folders folders (+ boards, lines); every root folder: sub_folders folders, sub_boards boards, sub_lines lines;
    extra: further AddLine calls on the root afterwards (refused once Root.FavNum = MAX_FAV)"""
    ops = ["3 0 %d %d" % (70 + i % 20, 48 + i % 10) for i in range(nroot_folders)]
    ops += ["1 0 %d" % (i + 1) for i in range(root_boards)] + ["2 0"] * root_lines
    for i in range(nroot_folders):
        ops += ["3 1 %d %d" % (i, 97 + j % 26) for j in range(sub_folders)]
        ops += ["1 1 %d %d" % (i, j + 1) for j in range(sub_boards)] + ["2 1 %d" % i] * sub_lines
    return "|".join(ops + ["2 0"] * extra)


def random_big_forest(rng, n, d):
    """about n entries (never more), every level within what the API accepts (<= 100 distinct boards, 64 lines, 64 folders)"""
    if n <= 0:
        return ()
    w = min(n, rng.choice([20, 60, 150, 228]))
    nf = min(64, rng.randrange(1, w // 2 + 2)) if d >= 2 else 0
    nl = min(64, rng.randrange(0, w - nf + 1) // 3)
    nb = min(100, w - nf - nl)
    rest = n - (nf + nl + nb)
    kinds = ["B"] * nb + ["L"] * nl + ["F"] * nf
    rng.shuffle(kinds)
    out = []
    left = nf
    for k in kinds:
        if k != "F":
            out.append(k)
            continue
        share = rest if left == 1 else min(rest, rng.randrange(0, 2 * rest // left + 1))
        sub = random_big_forest(rng, share, d - 1)
        rest -= forest_size(sub)
        left -= 1
        out.append(("F", sub))
    return tuple(out)


def forest_size(forest):
    return sum(1 if not isinstance(it, tuple) else 1 + forest_size(it[1]) for it in forest)


# ---------------------------------------------------------------- several saves in one process (op 8)
ESIZE = {"B": 14, "L": 3}


def level_size(forest):
    return 4 + sum(52 if isinstance(it, tuple) else ESIZE[it] for it in forest) + sum(level_size(it[1]) for it in forest if isinstance(it, tuple))


def entry_offset(forest, path, idx, base=2):
    """byte offset, in the image of a tree with no invalid entry, of entry idx of the folder at path"""
    if not path:
        return base + 4 + sum(52 if isinstance(it, tuple) else ESIZE[it] for it in forest[:idx])
    off = base + 4 + sum(52 if isinstance(it, tuple) else ESIZE[it] for it in forest)
    off += sum(level_size(it[1]) for it in forest[:path[0]] if isinstance(it, tuple))
    return entry_offset(forest[path[0]][1], path[1:], idx, off)


def leaf_positions(forest, path=()):
    """(path, idx, kind) of every board / line entry"""
    out = []
    for i, it in enumerate(forest):
        if isinstance(it, tuple):
            out += leaf_positions(it[1], path + (i,))
        else:
            out.append((list(path), i, it))
    return out


def seq_step(u, kind, forest, rng=None, pos=None, k=0, decorate=0.0):
    """one step of an op-8 case: header group(s) + script"""
    e = 9
    path, idx = [], 0
    if kind == 1:
        path, idx, what = pos
        k = entry_offset(forest, path, idx) + 2                 # everything before the entry, its type and attr bytes
        e = 4 if what == "B" else 5                             # ErrInvalidFavBoard / ErrInvalidFavLine
    hdr = "81 %d %d %d %d %d %d %s" % (u, kind, k, e, idx, len(path), " ".join(str(x) for x in path))
    sc = script_of(forest, rng, decorate)
    return hdr.strip() + ("|" + sc if sc else "")


def parse_seq(res):
    """result of op 8 -> ([(pre, status, code, ret, tmp, [fav of every user])], [load of every user])"""
    t = res.split()
    n = int(t[1])
    pos = 2

    def rd_file(pos):
        ln = int(t[pos])
        if ln < 0:
            return (None if ln == -1 else "several"), pos + 1
        return [int(x) for x in t[pos + 1:pos + 1 + ln]], pos + 1 + ln
    steps = []
    for _ in range(n):
        m = int(t[pos]); pre, end = parse_fav(t, pos + 1); assert end == pos + 1 + m; pos = end
        st = int(t[pos])
        code, ret = None, None
        if st == 0:
            m = int(t[pos + 1]); ret, end = parse_fav(t, pos + 2); assert end == pos + 2 + m; pos = end
        else:
            code = int(t[pos + 1]); pos += 2
        tmp, pos = rd_file(pos)
        favs = []
        for _ in range(4):
            f, pos = rd_file(pos)
            favs.append(f)
        steps.append((pre, st, code, ret, tmp, favs))
    loads = []
    for _ in range(4):
        ls = int(t[pos])
        if ls == 0:
            m = int(t[pos + 1])
            if m < 0:
                loads.append(("nil",)); pos += 2
            else:
                tr, end = parse_fav(t, pos + 2); assert end == pos + 2 + m
                loads.append(("tree", tr)); pos = end
        elif ls == 3:
            loads.append(("error", int(t[pos + 1]))); pos += 2
        else:
            loads.append(("crash" if ls == 1 else "hang",)); pos += 1
    assert pos == len(t), "trailing tokens"
    return steps, loads


# ---------------------------------------------------------------- the check
def main():
    c = vf.Check("C19")
    rng = c.rng
    thorough = c.tier == "thorough"
    c.prove()
    model_ok = c.model_ok()
    impl = vf.build_impl()
    model = vf.build_model("C19") if model_ok else None
    scratch = tempfile.mkdtemp(prefix="verifc19-")
    try:
        run(c, rng, thorough, impl, model, scratch)
    finally:
        shutil.rmtree(scratch, ignore_errors=True)
    c.finish(rule="trees: every forest of <= N entries and depth <= 3 (N = 6 quick and thorough) + PRNG(seed) larger forests with random titles, "
                  "attrs (FAVH_FAV dropped here and there) and board payloads, and trees near the limits (MAX_FAV = 1024 entries: 16 x 62 and 64 x 15 boards in folders, 1024 folders = the largest .fav of 57350 bytes, "
                  "250 folders, wide roots, PRNG(seed) forests of 700-1023 entries; levels of 255 / 256 / 257 / 800 / 1024 boards through the -tags docker build), through NewFavRaw/Add*/Save/Load; "
                  "histories: several Saves of several users in ONE process (GOMAXPROCS 1, collector off), a Save refused at every board / line entry of every forest of <= 3 entries (payload of the other kind), "
                  "a write of the temporary file failing at byte k (RLIMIT_FSIZE), a missing home, each followed by ordinary Saves of the same and other users + PRNG(seed) histories of 3-8 steps: "
                  "after every step .fav of every user must be exactly the reference image of that user's last ordinary Save, Load at the end returns that tree; "
                  "loader: every byte string of length <= L over {00,01,02,03,7F,80,FF} after the version word and as the whole file + mutated valid images; "
                  "crash: a child process dies at EVERY crash point of a save, for every forest of <= 3 entries and random larger ones, over an existing .fav and "
                  "over every other initial state of the home (no .fav, .fav4 lying around or being converted by Load, .fav older / same mtime / newer / same content, stale temporary file); "
                  "after each death the whole directory is compared with the model's file system and fav.Load is run; "
                  "kill at system-call granularity: the saving child runs under ptrace(2) and is killed (SIGKILL) at the entry of EVERY file-system call of the save as the kernel sees it "
                  "(open for writing, write, rename, unlink, truncate, link, mkdir, chmod ...; all forests of <= 2 entries over an older / same-mtime / newer .fav, as first save, with .fav4 and stale temporary file, + PRNG(seed) larger ones), "
                  "the recorded call list is compared with save_calls of the model and the directory + fav.Load after each kill with the model's prefix. "
                  "A case is non-trivial if it is a distinct saved tree / distinct loader input reaching a distinct result class / distinct (tree, crash point)",
             assumptions=["concurrent requests (op 10): that Save shares no state between goroutines of one process is validated by a parallel run of four users' saves (every image read back must be the sequential one), not proved; on code without shared state no schedule can produce a differing image, so the clean verdict cannot flip", "rename(2) replaces the target atomically and data written before the process dies survives it (no power loss): Base/Fs.v",
                          "the process death is simulated by os.Exit at verif-tagged crash points (before every types.BinaryWrite of the save and before the rename) in sweeps 5 and 6, "
                          "and is a real SIGKILL at the entry of every file-system call (ptrace syscall-entry stop: the kernel does not execute the call) in sweep 8; the window of sweep 8 is the call of FavRaw.Save in the child "
                          "(two marker access(2) calls around it), calls are recognised by their x86-64 system-call number (a change of the directory through io_uring or a memory-mapped file would not be seen as a call; its effect on the "
                          "directory at the other kill points still would)",
                          "what a SECOND process or goroutine reading .fav concurrently sees is not driven as a race: it is covered by the kill sweep in so far as a reader sees a directory state that exists between two file-system calls of the saver "
                          "(every such state is produced and fav.Load is run on it) - theorem for the call list of the model (C19_save_calls_any_disk), validation for the tie of that list to the kernel's view (ptrace)",
                          "the mtime comparison of Save is driven through the exported MTime field (newer / equal / older than the file)",
                          "the .fav4 files of the conversion sweep are written by the check (boards and lines only: fav4ReadFavrec rejects every .fav4 that contains a folder)",
                          "a stale temporary file is planted under a fixed name .fav.tmp.stale-left-by-a-crash; a collision with the 22 random characters of the save's own temporary name is covered by the theorem (any directory) only",
                          "a refused Save is provoked by giving one board / line entry the payload of the other kind (FavType.Fp is an exported interface field), a failing write by RLIMIT_FSIZE with SIGXFSZ ignored, "
                          "a failing creation of the temporary file by moving the home away (the driver runs as root: directory permissions do not stop it); a write error other than EFBIG is not provoked",
                          "process-wide state is observed through its effect on later Saves in the same process under GOMAXPROCS(1) with the collector off (sync.Pool then returns what was put back); "
                          "the model has no such state by construction (C19_save_history), so any carried-over byte shows as a difference to the reference image",
                          "boards of one level are limited to MAX_BOARD = 100 distinct ids in the default build, which is the build the model mirrors: the trees near MAX_FAV compared with the model get their size from folders; "
                          "levels wider than 228 entries (up to 1024 boards in the root) are driven through the -tags docker build (MAX_BOARD = 20000) with the direct predicates only (round trip, reference writer), no model",
                          "encoding/binary little-endian fixed-size reads and writes are re-specified in Model/C19.v and exercised, not verified"])


def run(c, rng, thorough, impl, model, scratch):
    env = {"VERIF_C19_DIR": scratch}
    import time as _time
    t_last = [_time.time()]

    def lap(what):
        if os.environ.get("VERIF_C19_TIMING"):
            print("C19 timing: %-40s %.1fs" % (what, _time.time() - t_last[0]))
        t_last[0] = _time.time()

    def par_impl(lines, npar=4):
        """child-process sweeps of different cases are independent: parallel slices, each in its own scratch home"""
        from concurrent.futures import ThreadPoolExecutor

        def slice_run(j):
            d = os.path.join(scratch, "par%d" % j)
            os.makedirs(d, exist_ok=True)
            return vf.run_impl(impl, "C19", lines[j::npar], env={"VERIF_C19_DIR": d}, deadline_ms=120000)
        with ThreadPoolExecutor(npar) as ex:
            parts = list(ex.map(slice_run, range(npar)))
        out = [None] * len(lines)
        for j in range(npar):
            out[j::npar] = parts[j]
        return out

    last_model = [None]

    def both(lines, label, use_model=True):
        io = vf.run_impl(impl, "C19", lines, env=env, deadline_ms=120000)
        last_model[0] = None
        if model and use_model:
            mo = vf.run_model(model, lines)
            vf.correspond(c, label, lines, io, mo)
            last_model[0] = mo          # the lines a correct implementation prints: "expected" of the replay files
        return io

    def judge_saved(line, res, label, must_write=True, old_image=None, mline=None):
        """direct predicates on one Save result; returns the parsed result"""
        st, code, nerr, pre, fbytes, ret = parse_saved(res)
        if st in (1, 2):
            c.violation("save-crash" if st == 1 else "save-hang", "%s: Save/Load %s on a tree built by the API" % (label, "panics" if st == 1 else "hangs"),
                        {"cases": [line], "got": res[:300]})
            return None
        if st == 9:
            raise SystemExit("C19: generator produced a bad case: " + line)
        if st == 3:
            want = expected_after_save(pre)
            c.violation("save-error", "%s: Save of a tree built by NewFavRaw/Add* fails with error %s (%d entries in memory, its .fav image has %d bytes; .fav on disk afterwards: %s)"
                        % (label, code, size_of(pre), 2 + len(ref_write(want)), "absent" if fbytes is None else "%d bytes" % len(fbytes)),
                        dict({"cases": [line], "got": res[:300], "expected_fav": toks(VERSION + ref_write(want))[:300]}, **({"expected": mline} if mline else {})))
            return None
        if not must_write:
            return st, code, nerr, pre, fbytes, ret
        want = expected_after_save(pre)
        if ret != want:
            c.violation("roundtrip", "%s: the tree returned by Save/Load differs from the valid entries of the tree in memory (%d entries, depth %d)" % (label, size_of(pre), depth_of(pre)),
                        {"cases": [line], "expected": repr(want)[:600], "got": repr(ret)[:600]})
        elif all_valid(pre) and strip_sub_favnum(pre) != strip_sub_favnum(ret):
            c.violation("api-ids", "%s: ids/counters of the tree built by Add* change on reload" % label,
                        {"cases": [line], "expected": repr(strip_sub_favnum(pre))[:600], "got": repr(strip_sub_favnum(ret))[:600]})
        if fbytes != VERSION + ref_write(want):
            c.violation("format", "%s: .fav bytes differ from the pttbbs format of the saved tree" % label,
                        {"cases": [line], "expected": toks(VERSION + ref_write(want))[:600], "got": toks(fbytes or [])[:600]})
        return st, code, nerr, pre, fbytes, ret

    # ---------------------------------------------------------------- 1. every small tree through Add*/Save/Load
    N = 6
    shapes = [f for n in range(N + 1) for f in forests(n, 3)]
    l1 = ["1|" + script_of(f) if f else "1" for f in shapes]
    o1 = both(l1, "Save/Load(all forests <= %d entries, depth <= 3)" % N)
    c.count(len(l1), "save/load enumerated forests")
    for f, line, res in zip(shapes, l1, o1):
        r = judge_saved(line, res, "enumerated forest")
        if r:
            c.nontrivial(("tree", tuple(r[4])))
    c.cov["exhaustive_parts"].append("all %d forests of <= %d entries (board / line / folder) with nesting depth <= 3" % (len(shapes), N))
    c.sample({"op": "Save/Load", "script": l1[100], "result": o1[100][:200]})

    lap("1 enumerated forests")
    # ---------------------------------------------------------------- 2. random larger trees, decorated
    l2 = []
    for _ in range(3000 if thorough else 400):
        f = random_forest(rng, rng.choice([3, 8, 15, 30, 60]), rng.choice([2, 3, 4, 5]))
        l2.append("1|" + script_of(f, rng, decorate=rng.choice([0.0, 0.1, 0.4])))
    # wide levels: the per-folder limits of lines and folders, many boards
    for nl, nf, nb in [(64, 0, 0), (70, 0, 3), (0, 64, 0), (0, 70, 2), (0, 127, 0), (0, 128, 0), (0, 130, 5), (3, 200, 90), (64, 64, 100)]:
        ops = ["2 0"] * nl + ["3 0 %d" % (65 + i % 26) for i in range(nf)] + ["1 0 %d" % (i + 1) for i in range(nb)]
        rng.shuffle(ops)
        l2.append("1|" + "|".join(ops))
        l2.append("1|3 0 87|" + "|".join(o.replace(" 0", " 1 0", 1) for o in ops))      # the same inside a folder
    deep = []
    for d in range(1, 12):                                                                  # a chain of nested folders
        deep.append("3 %d %s 68" % (d - 1, " ".join(["0"] * (d - 1))) if d > 1 else "3 0 68")
        l2.append("1|" + "|".join(deep + ["1 %d %s 7" % (d, " ".join(["0"] * d))]))
    big = ["3 0 70"] * 40                                                                   # Root.FavNum reaches MAX_FAV
    for i in range(40):
        big += ["2 1 %d" % i] * 30
    l2.append("1|" + "|".join(big))
    # trees near the limits: MAX_FAV entries with many folders, files of 14 KiB - 56 KiB (a folder costs 52 + 4 bytes, a
    # board 14): they are legal favourites and must survive save/load like every small tree
    nbig0 = len(l2)
    for g in [dict(nroot_folders=16, sub_folders=0, sub_boards=62),                       # 1008 entries, 14790 bytes
              dict(nroot_folders=64, sub_folders=0, sub_boards=15),                       # 1024 entries, 17030 bytes
              dict(nroot_folders=64, sub_folders=15, sub_boards=0),                       # 1024 folders: the largest .fav, 57350 bytes
              dict(nroot_folders=64, sub_folders=3, sub_boards=12),                       # 256 folders + 768 boards
              dict(nroot_folders=50, sub_folders=4, sub_boards=0),                        # 250 folders only: 14006 bytes
              dict(nroot_folders=20, sub_folders=0, sub_boards=42, root_boards=100, root_lines=64),   # 1024 entries, wide root
              dict(nroot_folders=10, sub_folders=0, sub_boards=91, root_boards=100),      # mostly boards: 1020 entries, 14886 bytes
              dict(nroot_folders=64, sub_folders=0, sub_boards=13, sub_lines=2, extra=5)]:  # MAX_FAV reached, 5 calls refused
        l2.append("1|" + grid_script(**g))
    for _ in range(40 if thorough else 3):
        l2.append("1|" + script_of(random_big_forest(rng, rng.choice([700, 900, 1000, 1023]), rng.choice([2, 3, 4])), rng, decorate=rng.choice([0.0, 0.02])))
    nbig1 = len(l2)
    o2 = both(l2, "Save/Load(random and wide forests, trees near MAX_FAV)")
    # (sizes by the reference writer from the tree that was in memory: independent of what the code wrote)
    bigsizes = sorted(2 + len(ref_write(expected_after_save(parse_saved(r)[3]))) for r in o2[nbig0:nbig1] if r.split()[0] in ("0", "3"))
    c.cov["distribution"]["bytes of .fav of the trees near the limits"] = bigsizes
    if not bigsizes or bigsizes[-1] < 50000 or len([b for b in bigsizes if b > 14342]) < 6:
        raise SystemExit("C19: the generator of large trees no longer produces large files: %r" % bigsizes)
    c.count(len(l2), "save/load random forests")
    for i2, (line, res) in enumerate(zip(l2, o2)):
        r = judge_saved(line, res, "tree near the limits (MAX_FAV entries, many folders)" if nbig0 <= i2 < nbig1 else "random forest",
                        mline=last_model[0][i2] if last_model[0] else None)
        if r:
            c.nontrivial(("tree", tuple(r[4])))
            c.count(0, None)
    c.sample({"op": "Save/Load", "script": l2[3][:300], "result": o2[3][:200]})

    # the same through the -tags docker build (MAX_BOARD = 20000: what production runs), where ONE level can hold hundreds of
    # boards: levels wider than 228 entries, 1024 boards in the root (14342 bytes), the 255 / 256 / 257 boundary of a level.
    # No model here (Model/C19.v takes MAX_BOARD from the default build): only the direct predicates.
    impl_docker = vf.build_impl(tags="verif docker", name="implrun_docker")
    l2d = []
    for nroot, nfold, per, nlines in [(1024, 0, 0, 0), (1030, 0, 0, 0), (800, 20, 10, 0), (255, 3, 255, 0), (256, 3, 255, 0), (257, 2, 256, 64),
                                      (300, 64, 9, 64), (1, 1, 1022, 0), (500, 1, 500, 20)]:
        ops = ["1 0 %d" % (20000 - i) for i in range(nroot)] + ["3 0 %d" % (65 + i % 26) for i in range(nfold)] + ["2 0"] * nlines
        rng.shuffle(ops)
        fpos = [i for i, o in enumerate(ops) if o.startswith("3 ")]
        for j, p_ in enumerate(fpos):
            ops += ["1 1 %d %d" % (p_, 1 + j + 7 * b) for b in range(per)]
        l2d.append("1|" + "|".join(ops))
    o2d = vf.run_impl(impl_docker, "C19", l2d, env=env, deadline_ms=120000)
    c.count(len(l2d), "save/load wide levels (-tags docker build, no model)")
    for line, res in zip(l2d, o2d):
        r = judge_saved(line, res, "wide level (-tags docker build: MAX_BOARD = 20000)")
        if r:
            c.nontrivial(("tree", tuple(r[4])))
    lap("2 random/wide/big forests")
    # ---------------------------------------------------------------- 3. the mtime gate of Save
    l3 = []
    small = [f for n in range(1, 4) for f in forests(n, 3)]
    for _ in range(600 if thorough else 120):
        fo, fn = rng.choice(small), random_forest(rng, rng.choice([1, 4, 9]), 3)
        for rel in (1, 0, -1):
            l3.append("3|%d|%s|99|%s" % (rel, script_of(fo), script_of(fn, rng, decorate=rng.choice([0.0, 0.3]))))
    o3 = both(l3, "Save over an existing file (newer / equal / older MTime)")
    c.count(len(l3), "save over existing file")
    for line, res in zip(l3, o3):
        rel = int(line.split("|")[1])
        r = judge_saved(line, res, "save with MTime %+d" % rel, must_write=(rel > 0))
        if r and rel <= 0:
            # nothing may be written: .fav is still the old image (recomputed from the rel = 1 twin's old script by the reference writer)
            old_line = "1|" + line.split("|99|")[0].split("|", 2)[2]
            c.nontrivial(("gate", rel, tuple(r[4] or [])))
        elif r:
            c.nontrivial(("tree", tuple(r[4])))
    olds = both(["1|" + l.split("|99|")[0].split("|", 2)[2] for l in l3], "Save(old tree)")
    for line, res, oldres in zip(l3, o3, olds):
        rel = int(line.split("|")[1])
        if rel <= 0 and res.split()[0] == "0":
            fb, ob_ = parse_saved(res)[4], parse_saved(oldres)[4]
            if fb != ob_:
                c.violation("gate-writes", "Save with MTime %+d relative to the file changed .fav" % rel, {"cases": [line], "expected": toks(ob_ or []), "got": toks(fb or [])})

    lap("3 mtime gate")
    # ---------------------------------------------------------------- 4. arbitrary bytes as file content
    ALPHA = [0x00, 0x01, 0x02, 0x03, 0x7F, 0x80, 0xFF]
    L = 6 if thorough else 5
    strings = [[]]
    layer = [[]]
    for _ in range(L):
        layer = [s + [a] for s in layer for a in ALPHA]
        strings += layer
    contents = [s for s in strings] + [VERSION + s for s in strings]
    c.cov["exhaustive_parts"].append("all %d byte strings of length <= %d over {00,01,02,03,7F,80,FF}, as the whole file and after the version word" % (len(strings), L))
    if not thorough:
        contents += [VERSION + [rng.choice(ALPHA) for _ in range(6)] for _ in range(6000)]
    # valid images, mutated
    images = [parse_saved(r)[4] for r in (o1[::37] + o2[:200]) if r.split()[0] == "0"]
    images = [im for im in images if im]
    for _ in range(20000 if thorough else 3000):
        im = list(rng.choice(images))
        k = rng.random()
        if k < 0.3 and len(im) >= 6:       # corrupted counts of the root
            im[rng.choice([2, 3, 4, 5])] = rng.choice([0xFF, 0x80, 0x7F, 0x81, 0xFE, 0, 1])
        elif k < 0.5:
            im = im[:rng.randrange(len(im) + 1)]
        elif k < 0.8:
            for _ in range(rng.randrange(1, 4)):
                im[rng.randrange(len(im))] = rng.choice(ALPHA + [rng.randrange(256)])
        else:
            im += [rng.choice(ALPHA) for _ in range(rng.randrange(1, 9))]
        contents.append(im)
    # a count of FFFF at every nesting level
    for d in range(0, 4):
        body = []
        for _ in range(d):
            body += [0, 0, 0, 1, T_FOLDER, 1, 1] + [65] + [0] * 48
        contents.append(VERSION + body + [0xFF, 0xFF, 0, 0])
        contents.append(VERSION + body + [0, 0, 0x80, 0])
        contents.append(VERSION + body + [0xFF, 0x7F, 0, 0])
    l4 = ["2|" + toks(s) for s in contents]
    o4 = both(l4, "Load(arbitrary bytes)")
    c.count(len(l4), "load arbitrary bytes")
    classes = {}
    for s, line, res in zip(contents, l4, o4):
        st = res.split()[0]
        classes[res[:3]] = classes.get(res[:3], 0) + 1
        if st in ("1", "2"):
            neg = len(s) >= 6 and ((s[2] | s[3] << 8) ^ 0x8000) - 0x8000 + ((s[4] ^ 0x80) - 0x80) + ((s[5] ^ 0x80) - 0x80)
            c.violation("load-crash" if st == "1" else "load-hang", "fav.Load %s on a .fav of %d bytes: %s" % ("panics" if st == "1" else "hangs", len(s), toks(s[:24])),
                        {"cases": [line], "got": res, "expected": "a tree or an error"})
        elif st not in ("0", "3"):
            raise SystemExit("C19: unexpected loader status: " + res)
        c.nontrivial(("load", res[:40], len(s)))
    c.cov["distribution"]["loader result classes (status code)"] = classes
    c.sample({"op": "Load", "bytes": toks(contents[-3]), "result": o4[-3]})
    # .fav4 (converted on Load when there is no .fav): only "does not crash"
    c4 = [s for s in strings if len(s) <= 4] + [[0xFF, 0xFF, 0, 0], [0, 0, 0x80, 0], [1, 0, 0, 0, 1, 1] + [0] * 12]
    l6 = ["6|" + toks(s) for s in c4]
    o6 = both(l6, "Load(.fav4)", use_model=False)
    c.count(len(l6), "load arbitrary .fav4 bytes (no model)")
    for s, line, res in zip(c4, l6, o6):
        if res.split()[0] in ("1", "2"):
            c.violation("fav4-crash", "fav.Load crashes converting a .fav4 of %d bytes: %s" % (len(s), toks(s)), {"cases": [line], "got": res})

    lap("4 loader")
    # ---------------------------------------------------------------- 5. process death at every crash point of a save
    pairs = []
    base_old = script_of(forests(3, 3)[20])
    for f in [f for n in range(0, 4) for f in forests(n, 3)]:
        pairs.append((base_old, script_of(f)))
    for _ in range(40 if thorough else 6):
        pairs.append((script_of(random_forest(rng, rng.choice([2, 6]), 3), rng, 0.2), script_of(random_forest(rng, rng.choice([5, 9, 14]), 4), rng, 0.2)))
    pairs.append(("", script_of(forests(2, 3)[5])))                     # old image: the empty tree
    l5 = ["|".join(x for x in ("4", o, "99", n) if x) for o, n in pairs]
    o5 = par_impl(l5)
    if model:
        vf.correspond(c, "crash sweep of Save", l5, o5, vf.run_model(model, l5))
    npoints = 0
    for line, res in zip(l5, o5):
        t = res.split()
        if t[0] != "0":
            c.violation("crash-sweep-failed", "the crash sweep could not be run (status %s)" % t[0], {"cases": [line], "got": res[:200]})
            continue
        K = int(t[1])
        flags = [int(x) for x in t[2:2 + K + 1]]
        pos = 2 + K + 1
        lo = int(t[pos]); old = [int(x) for x in t[pos + 1:pos + 1 + lo]]; pos += 1 + lo
        ln = int(t[pos]); new = [int(x) for x in t[pos + 1:pos + 1 + max(ln, 0)]]
        npoints += K
        for k, fl in enumerate(flags[:-1], 1):
            c.nontrivial(("crash", line, k))
            if fl == 2:
                c.violation("torn-file", "process death at crash point %d of %d of a save leaves a .fav that is neither the old nor the new image" % (k, K),
                            {"cases": [line], "crash_point": k, "got": res[:300]})
        if flags[-1] == 2 or ln < 0:
            c.violation("save-incomplete", "a completed save left neither image", {"cases": [line], "got": res[:300]})
        if K < 5:
            c.violation("crash-points-missing", "a save passed only %d crash points: the hooks are not in place" % K, {"cases": [line], "got": res[:100]})
    # the new image of the sweep is the image an uninterrupted save of the same script writes
    n5 = both(["|".join(x for x in ("1", n) if x) for o, n in pairs], "Save(new tree of the sweep)")
    for line, res, r1 in zip(l5, o5, n5):
        t = res.split()
        if t[0] == "0" and r1.split()[0] == "0":
            K = int(t[1]); pos = 3 + K; lo = int(t[pos]); pos += 1 + lo
            ln = int(t[pos]); new = [int(x) for x in t[pos + 1:pos + 1 + max(ln, 0)]]
            if new != parse_saved(r1)[4]:
                c.violation("sweep-image", "the completed save of the sweep wrote a different image than an uninterrupted save", {"cases": [line], "got": toks(new)[:300]})
    c.count(npoints + len(l5), "crash points (one child process each)")
    c.cov["exhaustive_parts"].append("every crash point (each types.BinaryWrite + before the rename) of every save in the sweep: %d child processes" % (npoints + len(l5)))
    c.sample({"op": "crash sweep", "case": l5[30], "result": o5[30][:120]})

    lap("5 crash sweep")
    # ---------------------------------------------------------------- 6. the same sweep over EVERY initial state of the home directory
    # no .fav (first save of a user) / no .fav but a .fav4 (lying around, or being converted: the save inside fav.Load) /
    # an existing .fav (older, same mtime, newer; same content) / a temporary file left by an earlier crash.
    # The child dies at every crash point; the whole directory and fav.Load afterwards are observed each time.
    small2 = [f for n in range(0, 3) for f in forests(n, 3)]
    small3 = [f for n in range(0, 4) for f in forests(n, 3)]
    fav4_other = bl_tree_of("BLB")[1]
    stale_imgs = [[], VERSION, VERSION + [1, 0, 0, 0, T_BOARD, 1, 7, 0], [0xFF] * 40]
    cases7 = []          # (label, hasfav, mode, rel, fav4, stale, old script, new script)
    demo = ("B", "L", ("F", ("B", "B")), "B", "B")                                   # reported first if the first save is not atomic
    cases7.append(("first save", 0, 0, 1, None, None, "", script_of(demo)))
    for i, f in enumerate(small3):                                                   # first save, nothing else in the home
        cases7.append(("first save", 0, 0, (1, 0, -1)[i % 3], None, None, "", script_of(f)))
    for _ in range(30 if thorough else 4):
        cases7.append(("first save", 0, 0, rng.choice([1, 0, -1]), None, None, "", script_of(random_forest(rng, rng.choice([5, 9, 14]), 4), rng, 0.2)))
    for i, f in enumerate(small2):                                                   # first save, a stale temp file / a .fav4 lying around
        cases7.append(("first save + stale temp file", 0, 0, 1, None, stale_imgs[i % 4], "", script_of(f)))
        cases7.append(("first save + .fav4 + stale temp file", 0, 0, (0, -1, 1)[i % 3], fav4_other, stale_imgs[(i + 1) % 4], "", script_of(f)))
    shapes_bl = [""] + [a for n in range(1, 4) for a in map("".join, __import__("itertools").product("BL", repeat=n))]
    for i, sh in enumerate(shapes_bl):                                               # the .fav4 conversion (Load -> TryFav4Load -> Save)
        sc, f4 = bl_tree_of(sh)
        cases7.append((".fav4 conversion", 0, 1, 0, f4, None, "", sc))
        cases7.append((".fav4 conversion + stale temp file", 0, 1, 0, f4, stale_imgs[i % 4], "", sc))
    for _ in range(20 if thorough else 3):
        sc, f4 = bl_tree(rng, rng.choice([4, 7, 12]), 0.3)
        cases7.append((".fav4 conversion", 0, 1, 0, f4, rng.choice([None] + stale_imgs), "", sc))
    for i, f in enumerate(small2):                                                   # over an existing .fav
        sc = script_of(f)
        cases7.append(("older .fav + .fav4 + stale temp file", 1, 0, 1, fav4_other, stale_imgs[i % 4], base_old, sc))
        cases7.append(("older .fav, same content", 1, 0, 1, None, None, sc, sc))
        cases7.append((".fav with the same mtime", 1, 0, 0, None, stale_imgs[(i + 2) % 4] if i % 2 else None, base_old, sc))
        cases7.append(("newer .fav", 1, 0, -1, None, stale_imgs[(i + 3) % 4] if i % 2 else None, base_old, sc))
    for _ in range(20 if thorough else 2):
        cases7.append(("older .fav + stale temp file", 1, 0, 1, None, rng.choice(stale_imgs),
                       script_of(random_forest(rng, rng.choice([2, 6]), 3), rng, 0.2), script_of(random_forest(rng, rng.choice([5, 9]), 4), rng, 0.2)))
    l7 = [sweep_line(*cs[1:]) for cs in cases7]
    t7 = __import__("time").time()
    o7 = par_impl(l7)
    m7 = vf.run_model(model, l7) if model else None
    if model:
        vf.correspond(c, "crash sweep over every initial directory state (all files of the home, Load afterwards)", l7, o7, m7)
    if os.environ.get("VERIF_C19_TIMING"):
        print("C19 timing: directory-state sweep %.1fs" % (__import__("time").time() - t7))
    npoints7 = 0
    dist7 = {}
    for i7, (cs, line, res) in enumerate(zip(cases7, l7, o7)):
        label, hasfav, mode, rel, fav4, stale, old_sc, new_sc = cs
        rp = {"cases": [line]}
        if m7:
            rp["expected"] = m7[i7]          # the line a save through the temporary file prints (the model's)
        if res.split()[0] != "0":
            c.violation("crash-sweep-failed", "%s: the crash sweep could not be run (status %s)" % (label, res.split()[0]), dict(rp, got=res[:200]))
            continue
        pre_old, pre_new, K, states = parse_sweep(res)
        npoints7 += K + 1
        dist7[label] = dist7.get(label, 0) + K + 1
        want_old, want_new = expected_after_save(pre_old), expected_after_save(pre_new)
        OLD = VERSION + ref_write(want_old) if hasfav else None          # reference images, not what the code wrote
        NEW = VERSION + ref_write(want_new)
        gate_open = (not hasfav) or rel > 0
        before = "no .fav" if OLD is None else "the old .fav"
        for k, (files, load) in enumerate(states, 1):
            c.nontrivial(("crash7", line, k))
            at = "crash point %d of %d" % (k, K) if k <= K else "the completed save"
            cur = files.get(F_FAV, [None])[0]
            ok_states = [OLD, NEW] if gate_open else [OLD]
            if k == K + 1:
                ok_states = [NEW] if gate_open else [OLD]
            if cur not in ok_states:
                if k == K + 1:
                    c.violation("save-incomplete", "%s: a completed save left neither image" % label, dict(rp, got=".fav = " + showf(cur), expected_fav=showf(ok_states[0])))
                elif not gate_open:
                    c.violation("gate-writes", "%s: Save changed .fav although the file is not older than the tree in memory" % label,
                                dict(rp, crash_point=k, got=".fav = " + showf(cur), expected_fav=showf(OLD)))
                else:
                    c.violation("torn-file" if hasfav else "torn-first-save",
                                "%s: process death at %s leaves a .fav of %s bytes that is neither %s nor the complete new image (%d bytes)"
                                % (label, at, len(cur) if cur is not None else "no", before, len(NEW)),
                                dict(rp, crash_point=k, got=".fav = " + showf(cur), expected_fav="%s, or %s" % (showf(OLD), showf(NEW))))
            # Load afterwards
            if cur is None:
                want_load = [("converted",)] if fav4 is not None else [("nil",)]
            else:
                want_load = [("tree", w) for w, img in ((want_old, OLD), (want_new, NEW)) if img == cur]
            if load not in want_load:
                c.violation("load-after-crash", "%s: after a process death at %s fav.Load %s" % (label, at,
                            "fails with error %s" % load[1] if load[0] == "error" else load[0] if load[0] in ("crash", "hang") else "does not return the old or the new tree"),
                            dict(rp, crash_point=k, got=repr(load)[:400], expected_load=repr(want_load)[:400], fav=showf(cur)))
            # frame: nothing but .fav and the save's own temporary file is touched
            if files.get(F_FAV4, [None]) != [fav4] or files.get(F_STALE, [None]) != [stale] or 9 in files:
                c.violation("save-touches-other-file", "%s: at %s .fav4 / a stale temporary file / another file of the home changed" % (label, at),
                            dict(rp, crash_point=k, got=repr({k_: v for k_, v in files.items() if k_ in (F_FAV4, F_STALE, 9)})[:400]))
        if gate_open and K < 5:
            c.violation("crash-points-missing", "%s: a save passed only %d crash points: the hooks are not in place" % (label, K), dict(rp, got=res[:100]))
        if not gate_open and K != 0:
            c.violation("gate-writes", "%s: a save that must not write passed %d crash points (types.BinaryWrite was called)" % (label, K), dict(rp, got=res[:100]))
    c.count(npoints7, "crash points over every initial directory state (one child process each)")
    c.cov["distribution"]["child processes per initial directory state"] = dist7
    c.cov["exhaustive_parts"].append("every crash point of the first save (no .fav) of all %d forests of <= 3 entries, of the .fav4 conversion of all %d board/line lists of <= 3 entries, "
                                     "and of saves over an existing .fav (older / same mtime / newer / same content), with and without a stale temporary file and a .fav4: %d child processes"
                                     % (len(small3), len(shapes_bl), npoints7))
    c.sample({"op": "crash sweep, first save", "case": l7[5], "result": o7[5][:160]})

    lap("6 directory-state sweep")
    # ---------------------------------------------------------------- 7. several saves of several users in ONE process
    # A Save that is refused after the serialisation has started (an entry whose payload does not match its type), whose
    # write fails after k bytes (RLIMIT_FSIZE) or whose temporary file cannot be created (home missing) must have no
    # influence on any later Save of anybody: each later .fav is exactly the image of its own tree.
    G1, G2 = ("B", "L"), ("L", ("F", ("B",)), "B")
    l8 = []
    demo8 = ("B", "B")
    l8.append("8|" + "|".join([seq_step(0, 1, demo8, pos=([], 1, "B")), seq_step(1, 0, G1)]))       # the shortest: reported first
    for f in [f for n in range(1, 4) for f in forests(n, 3)]:
        for pos in leaf_positions(f):
            l8.append("8|" + "|".join([seq_step(0, 1, f, pos=pos), seq_step(1, 0, G1), seq_step(0, 0, G2), seq_step(2, 0, f)]))
    for f in [f for n in range(0, 3) for f in forests(n, 3)]:
        for k in sorted({0, 1, 2, 5, level_size(f) // 2 + 1, level_size(f) + 1}):                   # the write that passes byte k fails
            l8.append("8|" + "|".join([seq_step(0, 0, G2), seq_step(0, 3, f, k=k), seq_step(1, 0, G1), seq_step(0, 0, f)]))
        l8.append("8|" + "|".join([seq_step(3, 2, f), seq_step(3, 0, f), seq_step(2, 2, G1), seq_step(1, 0, G2)]))
    for _ in range(1500 if thorough else 150):
        steps, refused = [], False
        for i in range(rng.choice([3, 4, 6, 8])):
            f = random_forest(rng, rng.choice([1, 3, 6, 12]), 3)
            kind = rng.choice([0, 0, 0, 1, 1, 3, 2]) if (refused or i > 0) else rng.choice([1, 3])
            u = rng.randrange(4)
            if kind == 1 and not leaf_positions(f):
                kind = 3
            if kind == 0:
                steps.append(seq_step(u, 0, f, rng, decorate=rng.choice([0.0, 0.0, 0.3])))
            elif kind == 1:
                steps.append(seq_step(u, 1, f, rng, pos=rng.choice(leaf_positions(f))))
            elif kind == 3:
                steps.append(seq_step(u, 3, f, rng, k=rng.randrange(0, level_size(f) + 2)))
            else:
                steps.append(seq_step(u, 2, f, rng))
            refused = refused or kind != 0
        l8.append("8|" + "|".join(steps))
    o8 = both(l8, "several saves of several users in one process, some refused half-way")
    c.count(len(l8), "histories of saves in one process (refused / failing saves in between)")
    nsteps8 = {"ordinary": 0, "payload mismatch": 0, "failing write": 0, "home missing": 0}
    m8 = last_model[0]
    for i8, (line, res) in enumerate(zip(l8, o8)):
        st0 = res.split()[0]
        rp = {"cases": [line]}
        if m8:
            rp["expected"] = m8[i8]          # the line an implementation without carried-over state prints (the model's)
        if st0 in ("1", "2"):
            c.violation("save-crash" if st0 == "1" else "save-hang", "a history of saves in one process: Save/Load %s" % ("panics" if st0 == "1" else "hangs"), dict(rp, got=res[:300]))
            continue
        if st0 != "0":
            raise SystemExit("C19: generator produced a bad history: " + line[:300] + " -> " + res[:100])
        hdrs = [[int(x) for x in g.split()[1:]] for g in line.split("|") if g.split()[0] == "81"]
        steps, loads = parse_seq(res)
        cur = [None] * 4            # reference image of every user's .fav
        tree = [None] * 4
        last_refused = None
        ok_hist = True
        for i, (hdr, (pre, st, code, ret, tmp, favs)) in enumerate(zip(hdrs, steps)):
            u, kind = hdr[0], hdr[1]
            nsteps8[("ordinary", "payload mismatch", "home missing", "failing write")[kind]] += 1
            what = "step %d (user %d, %s)" % (i + 1, u, ("ordinary Save", "Save refused: payload mismatch", "Save fails: home missing", "Save fails: write error")[kind])
            after = "" if last_refused is None else " after the refused / failed Save of step %d" % (last_refused + 1)
            if kind != 0:
                if st == 0:
                    ok_hist = False       # the injection did not make Save fail: the correspondence reports it, nothing to judge here
                    break
                last_refused = i
            else:
                if st != 0:
                    c.violation("seq-save-error", "%s%s fails with error %s" % (what, after, code), dict(rp, step=i + 1, got="error %s" % code))
                    ok_hist = False
                    break
                want = expected_after_save(pre)
                cur[u], tree[u] = VERSION + ref_write(want), want
                if ret != want:
                    c.violation("seq-roundtrip", "%s%s: the tree returned by Save/Load differs from the valid entries of the tree in memory" % (what, after),
                                dict(rp, step=i + 1, expected_tree=repr(want)[:600], got=repr(ret)[:600]))
            for v in range(4):
                if favs[v] != cur[v]:
                    if v == u and kind == 0:
                        c.violation("seq-format", "%s%s: .fav is not the image of the saved tree (%s bytes instead of %d)"
                                    % (what, after, "no" if favs[v] is None else len(favs[v]), len(cur[v])),
                                    dict(rp, step=i + 1, expected_fav=showf(cur[v]), got=showf(favs[v])))
                    else:
                        c.violation("seq-frame", "%s changed .fav of user %d" % (what, v), dict(rp, step=i + 1, expected_fav=showf(cur[v]), got=showf(favs[v])))
                    ok_hist = False
            if not ok_hist:
                break
        if ok_hist:
            for v in range(4):
                wl = ("nil",) if tree[v] is None else ("tree", tree[v])
                if loads[v] != wl:
                    c.violation("seq-load", "after a history of saves in one process fav.Load of user %d does not return the tree of its last Save" % v,
                                dict(rp, expected_load=repr(wl)[:600], got=repr(loads[v])[:600]))
        c.nontrivial(("seq", line))
    c.cov["distribution"]["steps of the histories"] = nsteps8
    c.cov["exhaustive_parts"].append("a Save refused at EVERY board / line entry (payload of the other kind) of every forest of <= 3 entries, and a write error at "
                                     "several byte positions of every forest of <= 2 entries, each followed by ordinary Saves of the same and of other users in the same process")
    c.sample({"op": "history of saves", "case": l8[0], "result": o8[0][:200]})
    lap("7 histories")

    # ---------------------------------------------------------------- 7b. saves of DIFFERENT users by several goroutines at once (op 10; validation only)
    # Concurrent requests of different users run Save in goroutines of one process. The driver first saves each user's tree alone
    # (the sequential image), then lets one goroutine per user save it again and again, all at once: each .fav must be the
    # sequential image every time. (A serialiser that stages its bytes in package-level state passes every sequential history.)
    l10 = []
    for _ in range(24 if thorough else 6):
        us = list(range(4)); rng.shuffle(us)
        l10.append("10 %d|" % (400 if thorough else 150) + "|".join(seq_step(u, 0, random_forest(rng, rng.choice([3, 6, 12, 40]), 3), rng, decorate=rng.choice([0.0, 0.3])) for u in us))
    o10 = both(l10, "concurrent saves of different users", use_model=False)
    c.count(len(l10), "concurrent-save batches (4 goroutines)")
    for line, res in zip(l10, o10):
        f = res.split()
        if f[:1] == ["7"]:
            continue
        if f[:1] != ["0"]:
            c.violation("concurrent-save-status", "saves of four users by four goroutines of one process: the driver ends with status %s" % " ".join(f[:2]), {"cases": [line], "expected": "0 0 -1 -1 -1", "got": res[:300]})
        elif f[1] != "0":
            c.violation("concurrent-save-differs", "saves of four different users by four goroutines of one process at once: %s of the .fav files read back after a Save are not the image the same Save "
                        "produces alone (first: user %s, round %s, %s bytes)" % (f[1], f[2], f[3], f[4]), {"cases": [line], "expected": "0 0 -1 -1 -1", "got": res[:300]})
        else:
            c.nontrivial(("conc-save", line[:60]))
    lap("7b concurrent saves")

    # ---------------------------------------------------------------- 8. kill points at SYSTEM-CALL granularity (op 9)
    # The crash points of 5. and 6. are calls placed in the source: whatever one step of the source does inside (a helper
    # that unlinks the target before it renames, a copy instead of a rename) lies between two of them. Here the saving
    # child runs under ptrace(2): every file-system call of the save is recorded as the kernel sees it and the child is
    # killed (SIGKILL) at the entry of the k-th one, for every k; the whole directory and fav.Load afterwards are observed.
    CALLK = {1: "open-for-writing", 2: "write", 3: "rename", 4: "unlink", 5: "truncate", 6: "link", 7: "mkdir", 8: "other-change"}
    NAMEK = {-1: "", 0: ".fav", 1: ".fav.tmp.*", 2: ".fav4", 3: "the stale temporary file", 4: ".fav.bak", 8: "the home", 9: "another path"}

    def show_call(cl):
        kd, a, b, nb = cl
        return "%s(%s%s%s)" % (CALLK.get(kd, "?"), NAMEK.get(a, "?"), ", " + NAMEK.get(b, "?") if b != -1 else "", ", %d bytes" % nb if kd == 2 else "")
    cases9 = []          # (label, hasfav, rel, fav4, stale, old script, new script)
    demo_old, demo_new = script_of(("B", "B", "B")), script_of(("B", "L"))
    cases9.append(("save over an older .fav", 1, 1, None, None, demo_old, demo_new))
    for i, f in enumerate(small2):
        sc = script_of(f)
        cases9.append(("save over an older .fav", 1, 1, None, None, base_old, sc))
        if i % 4 == 0:
            cases9.append(("save over an older .fav + .fav4 + stale temp file", 1, 1, fav4_other, stale_imgs[i % 4], sc, base_old))
        elif i % 4 == 1:
            cases9.append(("first save", 0, (1, 0, -1)[i % 3], None, None, "", sc))
        elif i % 4 == 2:
            cases9.append(("save over a .fav with the same mtime", 1, 0, None, None, base_old, sc))
            cases9.append(("first save + .fav4 + stale temp file", 0, 1, fav4_other, stale_imgs[(i + 1) % 4], "", sc))
        else:
            cases9.append(("save over a newer .fav", 1, -1, None, None, base_old, sc))
    for f in (small3 if thorough else small3[len(small2)::16]):
        cases9.append(("save over an older .fav", 1, 1, None, None, script_of(f), base_old))
    for _ in range(40 if thorough else 2):
        cases9.append(("save over an older .fav + stale temp file", 1, 1, None, rng.choice(stale_imgs),
                       script_of(random_forest(rng, rng.choice([2, 6]), 3), rng, 0.2), script_of(random_forest(rng, rng.choice([5, 9]), 4), rng, 0.2)))

    def trace_line(hasfav, rel, fav4, stale, old, new):
        return "9|%d %d|%s" % (hasfav, rel, sweep_line(hasfav, 0, rel, fav4, stale, old, new).split("|", 2)[2])
    l9 = [trace_line(*cs[1:]) for cs in cases9]
    o9 = par_impl(l9)
    m9 = vf.run_model(model, l9) if model else None
    if any(r.split()[:2] == ["3", "20"] for r in o9):
        raise SystemExit("C19: ptrace(2) is not available to the implementation driver: the system-call kill sweep cannot run here")
    if model:
        vf.correspond(c, "system-call list of a save (ptrace) and the directory + Load after a kill at the entry of every call", l9, o9, m9)
    ncalls9 = 0
    dist9 = {}
    for i9, (cs, line, res) in enumerate(zip(cases9, l9, o9)):
        label, hasfav, rel, fav4, stale, old_sc, new_sc = cs
        rp = {"cases": [line]}
        if m9:
            rp["expected"] = m9[i9][:4000]
        if res.split()[0] != "0":
            c.violation("syscall-sweep-failed", "%s: the system-call kill sweep could not be run (status %s)" % (label, res.split()[0]), dict(rp, got=res[:200]))
            continue
        # header as op 7, then the call list, then the states
        t = res.split()
        pos = 1
        pos += 1 + int(t[pos]); pos += 1 + int(t[pos])
        N = int(t[pos])
        calls = [tuple(int(x) for x in t[pos + 1 + 4 * j:pos + 5 + 4 * j]) for j in range(N)]
        pre_old, pre_new, K, states = parse_sweep(" ".join(t[:pos] + [str(N)] + t[pos + 1 + 4 * N:]))
        rp["calls"] = [show_call(cl) for cl in calls]
        ncalls9 += K + 1
        dist9[label] = dist9.get(label, 0) + K + 1
        want_old, want_new = expected_after_save(pre_old), expected_after_save(pre_new)
        OLD = VERSION + ref_write(want_old) if hasfav else None
        NEW = VERSION + ref_write(want_new)
        gate_open = (not hasfav) or rel > 0
        before = "no .fav" if OLD is None else "the old .fav"
        for k, (files, load) in enumerate(states, 1):
            c.nontrivial(("kill9", line, k))
            if k <= K:
                at = "the entry of file-system call %d of %d, %s" % (k, K, show_call(calls[k - 1]))
                if k > 1:
                    at += ", i.e. right after " + show_call(calls[k - 2])
            else:
                at = "the end of the save"
            cur = files.get(F_FAV, [None])[0]
            ok_states = [OLD, NEW] if gate_open else [OLD]
            if k == K + 1:
                ok_states = [NEW] if gate_open else [OLD]
            if cur not in ok_states:
                if k == K + 1:
                    c.violation("save-incomplete", "%s: a completed save left neither image" % label, dict(rp, got=".fav = " + showf(cur), expected_fav=showf(ok_states[0])))
                elif not gate_open:
                    c.violation("gate-writes", "%s: Save changed .fav although the file is not older than the tree in memory" % label,
                                dict(rp, kill_at_call=k, got=".fav = " + showf(cur), expected_fav=showf(OLD)))
                else:
                    c.violation("torn-file-between-syscalls" if hasfav else "torn-first-save-between-syscalls",
                                "%s: a process killed at %s leaves %s: neither %s nor the complete new image (%d bytes)"
                                % (label, at, "no .fav at all" if cur is None else "a .fav of %d bytes" % len(cur), before, len(NEW)),
                                dict(rp, kill_at_call=k, got=".fav = " + showf(cur), expected_fav="%s, or %s" % (showf(OLD), showf(NEW)),
                                     replay="run the case line through build/implrun C19 (the child is re-executed under ptrace and killed at call k)"))
            if cur is None:
                want_load = [("converted",)] if fav4 is not None else [("nil",)]
            else:
                want_load = [("tree", w) for w, img in ((want_old, OLD), (want_new, NEW)) if img == cur]
            if hasfav and cur is None:
                want_load = []           # the favourites are gone: whatever Load answers is not the old or the new tree
            if load not in want_load:
                c.violation("load-after-kill", "%s: after a kill at %s fav.Load %s" % (label, at,
                            "fails with error %s" % load[1] if load[0] == "error" else load[0] if load[0] in ("crash", "hang") else
                            "finds no favourites" if load[0] == "nil" else "re-runs the .fav4 conversion over the save in progress" if load[0] == "converted" else "does not return the old or the new tree"),
                            dict(rp, kill_at_call=k, got=repr(load)[:400], expected_load=repr([("tree", want_old), ("tree", want_new)])[:400], fav=showf(cur)))
            if files.get(F_FAV4, [None]) != [fav4] or files.get(F_STALE, [None]) != [stale] or 9 in files:
                c.violation("save-touches-other-file", "%s: at %s .fav4 / a stale temporary file / another file of the home changed" % (label, at),
                            dict(rp, kill_at_call=k, got=repr({k_: v for k_, v in files.items() if k_ in (F_FAV4, F_STALE, 9)})[:400]))
        if gate_open and K < 3:
            c.violation("syscalls-not-seen", "%s: ptrace saw only %d file-system calls of a save" % (label, K), dict(rp, got=res[:100]))
        if not gate_open and K != 0:
            c.violation("gate-writes", "%s: a save that must not write issued %d file-system calls" % (label, K), dict(rp, got=res[:100]))
    c.count(ncalls9, "kills at the entry of a file-system call of a save (one ptrace-d child process each)")
    c.cov["distribution"]["killed children per kind of save (system-call granularity)"] = dist9
    c.cov["exhaustive_parts"].append("every file-system call (as seen by ptrace: open for writing, write, rename, unlink, truncate, link, mkdir, chmod ...) of the saves of all %d forests of <= 2 entries "
                                     "over an older .fav, over a .fav of the same / a newer mtime, as first save, with and without .fav4 and a stale temporary file: %d killed children"
                                     % (len(small2), ncalls9))
    c.sample({"op": "system-call kill sweep", "case": l9[0], "result": o9[0][:200]})
    lap("8 system-call kill sweep")


if __name__ == "__main__":
    main()
