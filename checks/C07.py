#!/usr/bin/env python3
"""C07 — board read access: proofs in coq/Props/C07.v; the decision table (2^16 rows, inconsistent rows pruned)
is materialised in a scratch BBS environment and pushed through every read entry point of ptt and a subset of
the bbs wrappers; allow / deny / mask must equal the extracted model and the specification. A sample of rows that holds every
(deciding clause x administers x named moderator) class is run again on every degenerate board content (no article at all,
nothing pinned, pinned only, both; files / counters there or not): the verdict of an entry point — read from the error value,
never from an empty payload — must be the rule's on every content; and the listings on empty / singleton candidate lists. The two class listings (ptt / bbs LoadClassBoards,
LoadFullClassBoards) run on class trees planted into the scratch environment (root and nested class; children: the row's board, unrestricted /
hidden / level / over-18 class, link, ordinary board, vacated slot, the fixture's classes; chain resolved by the code or planted, both sort
orders): they must return, with exactly the children the caller may list, in sibling order, each with its title.
Build configurations: the repository compiles in two configurations (default; -tags docker = production). A second driver is built
with `-tags "verif docker"` and the whole decision table (every entry point, summaries included), the degenerate listings and a
sample of the content / class-listing cases run there too, under the same predicates; the compile-time options a summary depends
on are read from both binaries and compared with what gosync translated for that build (Gen/Consts_default.v, Gen/Consts_docker.v).
Board life cycle (op 11): the moderator cache is kept per board slot; histories of ptt.NewBoard / removal (blank record + reload) / reload
run in one driver process on both builds with every pool user asking the entry points in between: each answer must be the rule applied
to the header the board has now (slot used before or not), and equal the extracted history model (theorem C07_life_cycle)."""
import json, os, re, sys
from concurrent.futures import ThreadPoolExecutor
sys.path.insert(0, os.path.join(os.path.dirname(os.path.abspath(__file__)), "..", "lib"))
import vf

FIELDS = ["sysop", "police", "policeman", "basic", "verified", "inbm", "friend", "uover18", "haslevel", "permboard", "namedbm",
          "hidden", "postmask", "bover18", "level0", "levelbm"]
P = dict(BASIC=0o1, CHAT=0o2, PAGE=0o4, POST=0o10, LOGINOK=0o20, BM=0o2000, BOARD=0o20000, SYSOP=0o40000, NOCITIZEN=0o20000000,
         POLICE_MAN=0o2000000000, POLICE=0o20000000000)
B = dict(GROUPBOARD=0x8, HIDE=0x10, POSTMASK=0x20, SYMBOLIC=0x8000, OVER18=0x01000000)
USER_RELEVANT = P["SYSOP"] | P["POLICE"] | P["POLICE_MAN"] | P["BASIC"] | P["LOGINOK"] | P["BOARD"] | P["BM"]
FREE_PERM = [1 << k for k in range(32) if not (1 << k) & USER_RELEVANT]
FREE_ATTR = [1 << k for k in range(29) if not (1 << k) & (B["HIDE"] | B["POSTMASK"] | B["OVER18"] | B["GROUPBOARD"] | B["SYMBOLIC"])]

# the entry points of the property, in the order the driver prints them (after status, perm_stat, groupOp)
ARTICLE_EPS = ["ptt.IsBoardValidUser", "ptt.LoadGeneralArticles", "ptt.LoadBottomArticles", "ptt.FindArticleStartIdx", "ptt.ReadPost", "ptt.ReadPostTemplate"]
LISTING_EPS = ["ptt.LoadGeneralBoards", "ptt.LoadAutoCompleteBoards", "ptt.LoadBoardsByBids", "ptt.LoadHotBoards"]
BBS_EPS = ["bbs.IsBoardValidUser", "bbs.LoadGeneralArticles", "bbs.LoadBottomArticles", "bbs.GetArticle"]
MODELLED = {"IsBoardValidUser", "LoadGeneralArticles", "LoadBottomArticles", "FindArticleStartIdx", "ReadPost", "ReadPostTemplate",
            "LoadGeneralBoards", "LoadAutoCompleteBoards", "LoadBoardsByBids", "LoadHotBoards", "LoadBoardSummary",
            "LoadClassBoards", "LoadFullClassBoards"}
# reachable from exported ptt functions but not read entry points of this property; each with the reason
ELSEWHERE = {
    "NewPost": "write path (C08): starts with the same read guard, returns the new index entry",
    "DoPostArticle": "write path (C08)",
    "EditPost": "write path (C08): read guard first, returns the edited content",
    "CrossPost": "write path (C08): read guard on the source board",
    "Recommend": "write path (C08/C10): read guard first",
    "NewBoard": "board creation (C12): returns the summary of the board just created by a board administrator",
    "LoadGeneralArticlesSameCreateTime": "exported helper without a caller argument: probed by op 4 (known finding)",
    "DeleteArticles": "write path: moderator/owner checks of its own",
}


def spec_may_read(r):
    """written from the property text, independently of the Coq definitions"""
    if r["sysop"]:
        return True
    if (r["police"] or r["policeman"]) and r["levelbm"]:
        return True
    if r["basic"] and r["verified"] and r["inbm"]:          # moderator of that board
        return True
    if r["hidden"]:
        return r["friend"] or not r["postmask"]
    if r["bover18"] and not r["uover18"]:
        return False
    if not r["level0"] and not r["postmask"] and not r["haslevel"]:
        return False
    return True


def spec_may_list(r):
    return spec_may_read(r) or r["permboard"] or r["namedbm"]


def consistent(r):
    return not (r["level0"] and (r["levelbm"] or r["haslevel"]))


def subset(rng, pool, p=0.3):
    v = 0
    for b in pool:
        if rng.random() < p:
            v |= b
    return v


def materialise(r, rng, group=False):
    ul = 0
    for name, bit in (("sysop", "SYSOP"), ("police", "POLICE"), ("policeman", "POLICE_MAN"), ("basic", "BASIC"), ("verified", "LOGINOK"), ("permboard", "BOARD")):
        if r[name]:
            ul |= P[bit]
    bl = 0
    if not r["level0"]:
        extra_u = subset(rng, FREE_PERM)
        lvl = subset(rng, FREE_PERM, 0.15)
        if r["levelbm"]:
            lvl |= P["BM"]
        if r["haslevel"]:
            if r["levelbm"] and rng.random() < 0.3:
                extra_u |= P["BM"]                       # the common bit may be the BM bit itself
            if not (extra_u | (ul & 0)) & lvl:
                common = rng.choice(FREE_PERM)
                extra_u |= common
                lvl |= common
        else:
            lvl &= ~extra_u
            if lvl == 0:
                free = [b for b in FREE_PERM if not b & extra_u]
                if not free:
                    extra_u &= ~FREE_PERM[0]
                    free = [FREE_PERM[0]]
                lvl = rng.choice(free)
                if r["levelbm"]:
                    lvl |= P["BM"]
        ul |= extra_u
        bl = lvl
    else:
        ul |= subset(rng, FREE_PERM) | (P["BM"] if rng.random() < 0.3 else 0)
    ba = subset(rng, FREE_ATTR)
    for name, bit in (("hidden", "HIDE"), ("postmask", "POSTMASK"), ("bover18", "OVER18")):
        if r[name]:
            ba |= B[bit]
    if group:
        ba |= rng.choice([B["GROUPBOARD"], B["SYMBOLIC"], B["GROUPBOARD"] | B["SYMBOLIC"]])
    return "%d %d %d %d %d|%d %d" % (ul, r["uover18"], r["inbm"], r["friend"], r["namedbm"], ba, bl), ba


# content bits of op 5 (the driver's c07Has*): what the target board holds when the entry points are called
C_INDEX, C_PINNED, C_BODY, C_TEMPLATE, C_LOADED = 1, 2, 4, 8, 16
CONTENT_NAMES = {0: "no article at all", C_INDEX: "articles, nothing pinned", C_PINNED: "pinned articles only", C_INDEX | C_PINNED: "articles and pinned articles"}
CONTENT_EPS = ARTICLE_EPS + BBS_EPS


def describe_content(cb):
    parts = [CONTENT_NAMES[cb & 3],
             "article file " + ("present" if cb & C_BODY else "absent"), "post template " + ("present" if cb & C_TEMPLATE else "absent"),
             "pinned counter of the segment " + ("loaded" if cb & C_LOADED else "not loaded yet (0)")]
    return "; ".join(parts)


def reason_class(r):
    """which clause of the rule decides the row (written from the property text) x the two listing-only categories"""
    if r["sysop"]:
        why = "allow:sysop"
    elif (r["police"] or r["policeman"]) and r["levelbm"]:
        why = "allow:police"
    elif r["basic"] and r["verified"] and r["inbm"]:
        why = "allow:moderator"
    elif r["hidden"]:
        why = "allow:hidden-friend" if r["friend"] else ("deny:hidden-restricted" if r["postmask"] else "allow:hidden-unrestricted")
    elif r["bover18"] and not r["uover18"]:
        why = "deny:over18"
    elif not r["level0"] and not r["postmask"] and not r["haslevel"]:
        why = "deny:level"
    else:
        why = "allow:ordinary"
    return (why, r["permboard"], r["namedbm"])


def reference_content(mr, cb):
    """what the ten article entry points answer on content cb, written from the property text and the documented
    meaning of an empty index / a missing file: (error class, payload size) per entry point"""
    if not mr:
        refuse = [(0, 0)] * 5
        return [(1, 0)] + refuse + [(1, 0)] + [refuse[0], refuse[1], refuse[3]]
    general = (1, 2 if cb & C_INDEX else 0)
    pinned = (1, 1 if (cb & C_PINNED and cb & C_LOADED) else 0)
    find = (1, 1) if cb & C_INDEX else (12, 0)
    body = (1, 196) if cb & C_BODY else (13, 0)
    tmpl = (1, 196) if cb & C_TEMPLATE else (13, 0)
    return [(1, 1), general, pinned, find, body, tmpl, (1, 1), general, pinned, body]


def reachable_entry_points(repo):
    """exported functions of package ptt from which GetRecords / readContent / showBoardList is reachable (name-level call graph)"""
    d = os.path.join(repo, "ptt")
    bodies = {}
    for f in sorted(os.listdir(d)):
        if not f.endswith(".go") or f.endswith("_test.go") or "verif" in f:
            continue
        src = open(os.path.join(d, f), encoding="utf-8", errors="replace").read()
        src = re.sub(r"//[^\n]*", "", src)
        src = re.sub(r"/\*.*?\*/", "", src, flags=re.S)
        parts = re.split(r"(?m)^func\s+(?:\([^)]*\)\s*)?([A-Za-z_][A-Za-z0-9_]*)\s*\(", src)
        for k in range(1, len(parts), 2):
            bodies[parts[k]] = bodies.get(parts[k], "") + parts[k + 1]
    targets = {"GetRecords", "readContent", "showBoardList"}
    calls = {n: set(re.findall(r"\b([A-Za-z_][A-Za-z0-9_]*)\s*\(", b)) for n, b in bodies.items()}
    reach = set()
    changed = True
    while changed:
        changed = False
        for n, cs in calls.items():
            if n not in reach and (cs & targets or cs & reach):
                reach.add(n)
                changed = True
    return sorted(n for n in reach if n[0].isupper())


# ---------------------------------------------------------------- class listings (op 7)
# kinds of children the driver plants under the class (go/impl/cmd/implrun/c07class.go)
K_ROW, K_VISIBLE, K_HIDDEN, K_LEVEL, K_OVER18, K_NONCLASS, K_VACATED, K_FIXTURE, K_LINK = range(9)
KIND_NAMES = {K_ROW: "the row's board", K_VISIBLE: "unrestricted class", K_HIDDEN: "hidden class (restricted mask)", K_LEVEL: "class with a required level",
              K_OVER18: "over-18 class", K_NONCLASS: "ordinary board (not a class)", K_VACATED: "vacated slot", K_FIXTURE: "fixture class as it is", K_LINK: "symbolic link"}
CLASS_EPS = ["ptt.LoadClassBoards", "bbs.LoadClassBoards", "ptt.LoadFullClassBoards", "bbs.LoadFullClassBoards"]
ROW_BID = 10
CLASS_BITS = B["GROUPBOARD"] | B["SYMBOLIC"]


def abs_row(ul, o18, inbm, fr, nbm, ba, bl):
    """the 16 facts of a caller and a board, from the words the code sees (written from the property text)"""
    return {"sysop": int(bool(ul & P["SYSOP"])), "police": int(bool(ul & P["POLICE"])), "policeman": int(bool(ul & P["POLICE_MAN"])),
            "basic": int(bool(ul & P["BASIC"])), "verified": int(bool(ul & P["LOGINOK"])), "inbm": int(inbm), "friend": int(fr), "uover18": int(o18),
            "haslevel": int(bool(ul & bl)), "permboard": int(bool(ul & P["BOARD"])), "namedbm": int(nbm),
            "hidden": int(bool(ba & B["HIDE"])), "postmask": int(bool(ba & B["POSTMASK"])), "bover18": int(bool(ba & B["OVER18"])),
            "level0": int(bl == 0), "levelbm": int(bool(bl & P["BM"]))}


def returned_attr(r, ba):
    """building a listing entry forces the restricted mask onto a hidden board the caller sees only as a board (newBoardStat)"""
    privileged = r["sysop"] or ((r["police"] or r["policeman"]) and r["levelbm"]) or (r["basic"] and r["verified"] and r["inbm"])
    if r["hidden"] and not r["postmask"] and not privileged and not r["friend"]:
        return ba | B["POSTMASK"]
    return ba


def reference_row(r, ba, grp):
    """the whole answer line of ops 1 / 9 as the property text prescribes it (written in the check, no model, no build option):
    status, boardPermStat (0 refused, 2 a hidden board shown as a board only, 1 otherwise), groupOp, six article entry points,
    four listings (code, attr), summary (code, attr), four bbs article entry points, bbs summary (code, attr)"""
    mr, ml = spec_may_read(r), spec_may_list(r)
    attr = returned_attr(r, ba)
    stat = 0 if not mr else (2 if attr != ba else 1)
    art = ["1" if mr else "0"]
    out = ["0", str(stat), str(int(bool(r["permboard"] or r["namedbm"])))] + art * 6
    for name in LISTING_EPS:
        shown = ml and not (grp and name != "ptt.LoadBoardsByBids")
        out += ["1", str(attr)] if shown else ["0", "-1"]
    summary = ["1" if ml else "2", str(attr)]
    return " ".join(out + summary + art * 4 + summary)


def kind_header(kind, bid, ba, bl, lvl, fixture):
    """(named, attr, level) of a planted child"""
    if kind == K_ROW:
        return (True, ba, bl)
    if kind == K_FIXTURE:
        return (True,) + fixture[bid]
    return {K_VISIBLE: (True, B["GROUPBOARD"], 0), K_HIDDEN: (True, B["GROUPBOARD"] | B["HIDE"] | B["POSTMASK"], 0), K_LEVEL: (True, B["GROUPBOARD"], lvl),
            K_OVER18: (True, B["GROUPBOARD"] | B["OVER18"], 0), K_NONCLASS: (True, 0, 0), K_VACATED: (False, B["GROUPBOARD"], 0), K_LINK: (True, B["SYMBOLIC"], 0)}[kind]


def parse_class_listings(f):
    """status, then four listings (code, n, (bid, title, attr) x n), then the stored sibling chain (n, bids)"""
    pos, lists = 1, []
    for _ in range(4):
        code, n = int(f[pos]), int(f[pos + 1])
        ent = [(int(f[pos + 2 + 3 * k]), int(f[pos + 3 + 3 * k]), int(f[pos + 4 + 3 * k])) for k in range(n)]
        lists.append((code, ent))
        pos += 2 + 3 * n
    n = int(f[pos])
    chain = [int(x) for x in f[pos + 1:pos + 1 + n]]
    if pos + 1 + n != len(f):
        raise ValueError("trailing tokens")
    return lists, chain


# ---------------------------------------------------------------- board life cycle (op 11)
LIFE_EPS = ["ptt.IsBoardValidUser", "ptt.LoadGeneralArticles", "ptt.LoadBottomArticles", "ptt.FindArticleStartIdx", "ptt.ReadPost", "ptt.ReadPostTemplate",
            "bbs.IsBoardValidUser", "bbs.LoadGeneralArticles", "ptt.LoadBoardsByBids", "ptt.LoadBoardSummary"]
LIFE_POOL = ["CodingMan", "pichu", "Kahou2", "chhsiao123"]
LIFE_BOARDS = 10
MAX_BMS = 4
LIFE_LEGEND = ("case: 11|step|...; steps: `1 n attr level m...` ptt.NewBoard of board vfb<n> (attribute word, level word, moderators = pool users m...: %s), "
               "`2 n` board n removed (its .BRD record blanked, boards reloaded), `3` cache.ReloadBCache, `4 n u level over18` pool user u (planted with that level word) asks about board n; "
               "answer: status, then per step: create 0 / 3 name exists, remove 0 / 4 no such board, reload 0, query: found, then %s "
               "(article entry points: 1 not refused, 0 refused; listing: 0 absent, 1 with title, 2 without)" % (", ".join("%d=%s" % (k, n) for k, n in enumerate(LIFE_POOL)), ", ".join(LIFE_EPS)))


def life_reference(steps):
    """the answer line of a history, written from the property text: a query about a board is answered by the rule applied to the
    caller and to the header the board has NOW (its own moderators, attributes, level) - whatever was in its slot before.
    Returns (expected tokens, per-token meta)."""
    live, out, meta = {}, ["0"], [None]
    past_mods = set()
    free = 0
    for st in steps:
        if st[0] == 1:
            n, attr, level, ms = st[1], st[2], st[3], list(st[4:])
            if n in live:
                out.append("3")
            else:
                if attr & B["HIDE"]:                  # NewBoard creates a hidden board without restricted mask and level
                    attr, level = attr & ~B["POSTMASK"], 0
                live[n] = (ms, attr, level, free > 0)
                free = max(0, free - 1)
                out.append("0")
            meta.append(("step", st))
        elif st[0] == 2:
            if st[1] in live:
                past_mods |= set(live[st[1]][0][:MAX_BMS])
                del live[st[1]]
                free += 1
                out.append("0")
            else:
                out.append("4")
            meta.append(("step", st))
        elif st[0] == 3:
            out.append("0")
            meta.append(("step", st))
        else:
            n, u, ul, o18 = st[1:]
            if n not in live:
                out += ["0"] + ["-1"] * 10
                meta += [("found", st)] + [("absent", st)] * 10
                continue
            ms, attr, level, reused = live[n]
            r = abs_row(ul, o18, u in ms[:MAX_BMS], False, u in ms, attr, level)
            mr, ml = spec_may_read(r), spec_may_list(r)
            out += ["1"] + ["1" if mr else "0"] * 8 + ["1" if ml else "0", "1" if ml else "2"]
            info = {"board": n, "user": u, "moderators": ms, "attr": attr, "level": level, "slot_reused": reused, "may_read": mr, "may_list": ml,
                    "own_moderator": u in ms[:MAX_BMS], "moderated_a_removed_board": u in past_mods, "row": r}
            meta += [("found", st)] + [(name, st, info) for name in LIFE_EPS]
    return out, meta


def life_line(steps):
    return "11|" + "|".join(" ".join(str(x) for x in st) for st in steps)


def life_histories(rng, n_random):
    """systematic short histories around a slot that is used a second time, then random longer ones"""
    plain = P["BASIC"] | P["CHAT"] | P["PAGE"] | P["POST"] | P["LOGINOK"]
    restr = [(0, P["SYSOP"]), (B["OVER18"], 0), (0, FREE_PERM[3]), (B["OVER18"], P["BM"] | FREE_PERM[5]), (B["HIDE"], 0), (0, 0), (B["POSTMASK"], P["SYSOP"])]
    hs = []

    def ask(n, lvl=None):
        return [[4, n, u, plain if lvl is None else lvl, 0] for u in range(len(LIFE_POOL))]
    # (a) board A (moderators old) removed, board B (moderators new) created next: every restriction x moderator change
    for attr, level in restr:
        for old, new in (([0], [2]), ([0, 1], []), ([], [3]), ([1, 2, 3, 0], [0]), ([2], [2]), ([0], [1, 0])):
            for reload_between in (False, True):
                h = [[1, 0, attr, level] + old] + ask(0) + [[2, 0]] + ([[3]] if reload_between else []) + [[1, 1, attr, level] + new] + ask(1)
                hs.append(h)
    # (b) the same name again, append path only, two free slots, a name that exists
    hs.append([[1, 0, 0, P["SYSOP"], 0], [2, 0], [1, 0, 0, P["SYSOP"], 1]] + ask(0))
    hs.append([[1, 0, 0, P["SYSOP"], 0], [1, 1, 0, P["SYSOP"], 1]] + ask(0) + ask(1))
    hs.append([[1, 0, 0, P["SYSOP"], 0], [1, 1, 0, P["SYSOP"], 1], [1, 2, B["OVER18"], 0, 2], [2, 0], [2, 1], [1, 3, 0, P["SYSOP"], 3], [1, 4, B["OVER18"], 0]] + ask(3) + ask(4) + ask(2))
    hs.append([[1, 0, 0, P["SYSOP"], 0], [1, 0, 0, 0, 1], [2, 5]] + ask(0) + ask(5))
    # (c) random histories
    ulevels = [plain, plain, plain & ~P["LOGINOK"], plain | P["BOARD"], plain | P["BM"], plain | P["POLICE"], plain | P["SYSOP"], P["POST"]]
    for _ in range(n_random):
        h, live, free = [], set(), 0
        for _ in range(rng.randrange(4, 11)):
            x = rng.random()
            if x < 0.45 or not live:
                n = rng.randrange(LIFE_BOARDS) if rng.random() < 0.1 else rng.choice([k for k in range(LIFE_BOARDS) if k not in live] or [0])
                attr, level = rng.choice(restr)
                if rng.random() < 0.3:
                    attr |= subset(rng, FREE_ATTR, 0.1)
                if level and rng.random() < 0.3:
                    level |= rng.choice(FREE_PERM)
                ms = rng.sample(range(len(LIFE_POOL)), rng.choice([0, 1, 1, 2, 3, 4]))
                h.append([1, n, attr, level] + ms)
                if n not in live:
                    live.add(n)
                    free = max(0, free - 1)
                qs = [n]
            elif x < 0.8:
                n = rng.randrange(LIFE_BOARDS) if rng.random() < 0.1 else rng.choice(sorted(live))
                h.append([2, n])
                if n in live:
                    live.discard(n)
                    free += 1
                qs = rng.sample(sorted(live), min(len(live), 1))
            else:
                h.append([3])
                qs = rng.sample(sorted(live), min(len(live), 2))
            for n in qs:
                for u in range(len(LIFE_POOL)):
                    ul = rng.choice(ulevels)
                    if rng.random() < 0.3:
                        ul |= rng.choice(FREE_PERM)
                    h.append([4, n, u, ul, rng.randrange(2)])
        hs.append(h)
    return hs


# build configurations of the repository: (number on the wire, name, go build tags, driver name)
BUILDS = [(0, "default", "verif", "implrun"), (1, "docker", "verif docker", "implrun_docker")]
DOCKER_NOTE = "production build: go build -tags docker (driver build/implrun_docker, built with -tags 'verif docker')"


def replay_other_build(argv):
    """A replay recorded on the production build must run on the driver of that build (the generic replay uses the default one)."""
    if "--replay" not in argv:
        return
    path = argv[argv.index("--replay") + 1]
    obj = json.load(open(path))
    cfg = [b for b in BUILDS if b[1] == obj.get("build")]
    if not cfg or cfg[0][1] == "default" or not obj.get("cases"):
        return
    _, name, tags, drv = cfg[0]
    print("replay of %s on the %s build (-tags '%s'): %s" % (path, name, tags, obj.get("what", "")))
    exe = vf.build_impl(tags=tags, name=drv)
    out = vf.run_impl(exe, "C07", obj["cases"])
    vf.ipc_cleanup()
    bad = False
    for cs, o in zip(obj["cases"], out):
        print("case   %s\nresult %s" % (cs, o))
        bad = bad or o.split()[:1] in (["1"], ["2"])
    if isinstance(obj.get("expected"), str):
        print("expected %s" % obj["expected"])
        bad = bad or out[-1].strip() != obj["expected"].strip()
    print("replay: %s" % ("property still violated on this input" if bad else "input now behaves"))
    sys.exit(1 if bad else 0)


def main():
    replay_other_build(sys.argv[1:])
    c = vf.Check("C07")
    rng = c.rng
    thorough = c.tier == "thorough"
    c.prove()
    model_ok = c.model_ok()
    impl = vf.build_impl()
    impl_docker = vf.build_impl(tags=BUILDS[1][2], name=BUILDS[1][3])       # the production configuration
    model = vf.build_model("C07") if model_ok else None
    vf.ipc_cleanup()

    def run_impl_par(lines, workers=12, exe=None, par_min=2000):
        exe = exe or impl
        if len(lines) < par_min:
            return vf.run_impl(exe, "C07", lines)
        n = (len(lines) + workers - 1) // workers
        chunks = [lines[k:k + n] for k in range(0, len(lines), n)]
        with ThreadPoolExecutor(max_workers=workers) as ex:
            outs = list(ex.map(lambda ch: vf.run_impl(exe, "C07", ch), chunks))
        return [o for ch in outs for o in ch]

    def at(build, key):
        """violation key / replay fields of a case that ran on another build than the default one"""
        return key if build == "default" else key + "@" + build

    def brep(build, d):
        return d if build == "default" else dict(d, build=build, build_note=DOCKER_NOTE,
                                                 replay_with="./check C07 --replay <this file>   (runs the cases on build/implrun_docker)")

    # ---------------------------------------------------------------- the two build configurations
    # each driver says which configuration it was compiled with and what the options a summary depends on are in it;
    # it refuses a case addressed to the other build, so an answer to `9 1|...` can only come from the -tags docker binary
    lb = ["10 0", "10 1"]
    ob = [vf.run_impl(impl, "C07", lb), vf.run_impl(impl_docker, "C07", lb)]
    c.count(4, "build options")
    options = {}
    if [o.split()[:1] for o in ob[0]] != [["0"], ["9"]] or [o.split()[:1] for o in ob[1]] != [["9"], ["0"]] or ob[0][0].split()[2:] == ob[1][1].split()[2:]:
        c.broken.append({"kind": "correspondence", "where": "build configurations", "theorem": "build/implrun is the default build, build/implrun_docker the -tags docker build (MAX_BOARD differs)",
                         "examples": [{"case": " / ".join(lb), "impl": " / ".join(ob[0]), "impl_docker": " / ".join(ob[1])}], "log": ""})
    else:
        options = {"default": ob[0][0], "docker": ob[1][1]}
        if model:
            vf.correspond(c, "compile-time options of each build (binary vs Gen/Consts_<build>.v)", lb, [ob[0][0], ob[1][1]], vf.run_model(model, lb))
    c.cov["build_options"] = {k: {"USE_REAL_DESC_FOR_HIDDEN_BOARD_IN_MYFAV": v.split()[1], "MAX_BOARD": v.split()[2]} for k, v in options.items()}

    # ---------------------------------------------------------------- the decision table
    rows = []
    for n in range(1 << 16):
        r = {f: (n >> k) & 1 for k, f in enumerate(FIELDS)}
        if consistent(r):
            rows.append(r)
    n_consistent = len(rows)
    reps = 3 if thorough else 1                      # thorough: every row with three independent choices of the irrelevant bits
    table = []                                       # (row, line tail, battr, group?)
    for _ in range(reps):
        for r in rows:
            tail, ba = materialise(r, rng)
            table.append((r, tail, ba, False))
    for r in rng.sample(rows, 12000 if thorough else 3000):      # group / symbolic boards: listings filter them out
        tail, ba = materialise(r, rng, group=True)
        table.append((r, tail, ba, True))

    # the materialiser is checked against the model's abstraction and the Coq specification
    if model:
        l2 = ["2|" + t for (_, t, _, _) in table]
        o2 = vf.run_model(model, l2)
        for (r, t, _, _), o in zip(table, o2):
            want = ["0"] + [str(r[f]) for f in FIELDS] + [str(int(spec_may_read(r))), str(int(spec_may_list(r)))]
            if o.split() != want:
                c.broken.append({"kind": "correspondence", "where": "materialiser/specification", "theorem": "abs / may_read (Coq) vs row / reference (check)",
                                 "examples": [{"case": "2|" + t, "model": o, "check": " ".join(want)}], "log": ""})
                break

    l1 = ["1|" + t for (_, t, _, _) in table]
    o1 = run_impl_par(l1)
    c.count(len(l1) * 16, "rows x 16 entry points")
    if model:
        m1 = vf.run_model(model, l1)
        vf.correspond(c, "decision table x entry points", l1, o1, m1)

    outcome_count = {"allow": 0, "deny": 0, "deny-but-listed": 0}

    def judge_rows(build, rows_, lines_, outs_, models_):
        # the predicates of one row through the 16 entry points; the same on every build
        where = "" if build == "default" else " [%s build, -tags docker]" % build
        for k_row, ((r, t, ba, grp), line, o) in enumerate(zip(rows_, lines_, outs_)):
            f = o.split()
            # the whole line the property prescribes (the check's own reference); the model's line (= the code as it is, with the
            # options of that build) goes along for information
            def exp(r=r, ba=ba, grp=grp, k_row=k_row):
                return brep(build, dict({"expected": reference_row(r, ba, grp)}, **({"model": models_[k_row]} if models_ else {})))
            mr, ml = spec_may_read(r), spec_may_list(r)
            if build == "default":
                outcome_count["allow" if mr else ("deny-but-listed" if ml else "deny")] += 1
                c.nontrivial(tuple(r[k] for k in FIELDS) + (grp,))
            else:
                c.nontrivial((build,) + tuple(r[k] for k in FIELDS) + (grp,))
            if f[0] != "0" or len(f) != 25:
                c.violation(at(build, "entry-point-crash"), "a read entry point crashed / stalled on row %s%s: %s" % (t, where, o), brep(build, {"cases": [line], "got": o}))
                continue
            stat, gop = int(f[1]), f[2] == "1"
            if (stat != 0) != mr:
                c.violation(at(build, "rule"), "boardPermStat = %d where the specification says %s on row %s%s" % (stat, "allow" if mr else "deny", {k: r[k] for k in FIELDS}, where),
                            dict({"cases": [line], "got": o}, **exp()))
            want_art = "1" if mr else "0"
            for name, got in zip(ARTICLE_EPS, f[3:9]):
                if got != want_art:
                    c.violation(at(build, "entry:" + name), "%s answered %s where the rule says %s on row %s%s" % (name, got, want_art, t, where), dict({"cases": [line], "got": o}, **exp()))
            for k, name in enumerate(LISTING_EPS):
                got = f[9 + 2 * k]
                shown = ml and not (grp and name != "ptt.LoadBoardsByBids")
                if got != ("1" if shown else "0"):
                    c.violation(at(build, "listing:" + name), "%s: code %s (0 absent, 1 with title, 2 without) where may_list=%s group=%s on row %s%s" % (name, got, ml, grp, t, where),
                                dict({"cases": [line], "got": o}, **exp()))
            if f[17] != ("1" if ml else "2"):
                c.violation(at(build, "summary:ptt.LoadBoardSummary"), summary_text("ptt.LoadBoardSummary", f[17], ml, t, r, build), dict({"cases": [line], "got": o}, **exp()))
            for name, got in zip(BBS_EPS, f[19:23]):
                if got != want_art:
                    c.violation(at(build, "entry:" + name), "%s answered %s where the rule says %s on row %s%s" % (name, got, want_art, t, where), dict({"cases": [line], "got": o}, **exp()))
            if f[23] == "8":
                c.violation(at(build, "bbs-summary-panic"), "bbs.LoadBoardSummary panics (nil title dereferenced) for a caller who may not list the board; row %s%s" % (t, where), dict({"cases": [line], "got": o}, **exp()))
            elif f[23] != ("1" if ml else "2"):
                c.violation(at(build, "summary:bbs.LoadBoardSummary"), summary_text("bbs.LoadBoardSummary", f[23], ml, t, r, build), dict({"cases": [line], "got": o}, **exp()))

    def summary_text(name, code, ml, t, r, build):
        if code == "1" and not ml:
            return ("%s returns the summary WITH the title (real title, class, moderators) of a board the rule refuses the caller (%s), who neither administers boards nor is a named "
                    "moderator of it, in the %s build%s; row %s" % (name, reason_class(r)[0], build,
                    " (compile-time options of that build: USE_REAL_DESC_FOR_HIDDEN_BOARD_IN_MYFAV = %s)" % options[build].split()[1] if build in options else "", t))
        return "%s code %s (1 with title, 2 title withheld, 7 error) where may_list=%s on row %s [%s build]" % (name, code, ml, t, build)

    judge_rows("default", table, l1, o1, m1 if model else None)

    # the same table, every entry point, on the production build (op 9 names the build; only that binary answers it)
    l9 = ["9 1|" + t for (_, t, _, _) in table]
    o9 = run_impl_par(l9, exe=impl_docker)
    c.count(len(l9) * 16, "rows x 16 entry points, -tags docker build")
    m9 = vf.run_model(model, l9) if model else None
    if model:
        vf.correspond(c, "decision table x entry points, -tags docker build", l9, o9, m9)
    judge_rows("docker", table, l9, o9, m9)
    deny9 = next(k for k, (r, _, _, g) in enumerate(table) if not spec_may_list(r) and not g)
    c.sample({"row": l9[deny9], "impl": o9[deny9], "spec": "deny", "build": "docker"})
    c.cov["distribution"].update({"rows " + k: v for k, v in outcome_count.items()})
    c.sample({"row": l1[4242], "impl": o1[4242], "legend": "status perm_stat groupOp | 6 ptt article entry points | 4 listings (code attr) | summary (code attr) | 4 bbs article entry points | bbs summary"})
    deny = next(k for k, (r, _, _, g) in enumerate(table) if not spec_may_list(r) and not g)
    c.sample({"row": l1[deny], "impl": o1[deny], "spec": "deny"})

    # ---------------------------------------------------------------- the entry points on degenerate board content
    # Every article entry point on boards holding (i) nothing, (ii) articles but nothing pinned, (iii) pinned articles
    # only, (iv) both — crossed with article file / template present or not and the pinned counter loaded or not —
    # for a sample of rows that contains every (deciding clause x administers x named moderator) class. Allowed vs
    # refused is read from the error value (ErrNotPermitted vs anything else), never from an empty payload.
    base_rows = [(r, t) for (r, t, _, g) in table[:n_consistent]]
    by_class = {}
    for k in rng.sample(range(n_consistent), n_consistent):
        by_class.setdefault(reason_class(base_rows[k][0]), []).append(k)
    per_class = 60 if thorough else 25
    picked = sorted(set(k for ks in by_class.values() for k in ks[:per_class]) | set(rng.sample(range(n_consistent), 3000 if thorough else 600)))
    all_contents = list(range(32))
    main_contents = [C_LOADED | C_BODY | C_TEMPLATE | m for m in (0, C_INDEX, C_PINNED, C_INDEX | C_PINNED)] + [0, C_INDEX, C_LOADED, C_LOADED | C_INDEX]
    l5 = ["5 %d|%s" % (cb, base_rows[k][1]) for cb in all_contents for k in picked]
    meta5 = [(cb, base_rows[k][0]) for cb in all_contents for k in picked]
    if thorough:                                     # thorough: every consistent row on the four contents (and the bare ones)
        picked_set = set(picked)
        rest = [k for k in range(n_consistent) if k not in picked_set]
        l5 += ["5 %d|%s" % (cb, base_rows[k][1]) for cb in main_contents for k in rest]
        meta5 += [(cb, base_rows[k][0]) for cb in main_contents for k in rest]
    o5 = run_impl_par(l5)
    c.count(len(l5) * 10, "degenerate content: rows x contents x 10 article entry points")
    if model:
        m5 = vf.run_model(model, l5)
        vf.correspond(c, "entry points x board content", l5, o5, m5, describe=lambda ln: describe_content(int(ln.split("|")[0].split()[1])))
    def judge_content(build, meta5, l5, o5, content_cov):
        where = "" if build == "default" else " [%s build, -tags docker]" % build
        bkey = () if build == "default" else (build,)

        def viol(key, desc, replay, **kw):
            c.violation(at(build, key), desc + where, brep(build, replay), **kw)
        wrong_verdict = {}                               # entry point -> [(content, case, got, class, payload, rule, expected)]
        for k5, ((cb, r), line, o) in enumerate(zip(meta5, l5, o5)):
            f = o.split()
            mr = spec_may_read(r)
            want = reference_content(mr, cb)
            exp = {"expected": " ".join(["0"] + ["%d %d" % w for w in want])}
            content_cov[(reason_class(r)[0], cb & 3)] = content_cov.get((reason_class(r)[0], cb & 3), 0) + 1
            c.nontrivial(bkey + ("content", cb) + tuple(r[k] for k in FIELDS))
            if f[0] != "0" or len(f) != 21:
                viol("entry-point-crash", "an article entry point crashed / stalled on a board with %s; row %s: %s" % (describe_content(cb), line, o),
                            dict({"cases": [line], "got": o, "content": describe_content(cb)}, **exp))
                continue
            for j, name in enumerate(CONTENT_EPS):
                cls, n = int(f[1 + 2 * j]), int(f[2 + 2 * j])
                if name.endswith("IsBoardValidUser"):
                    refused, leak = (cls == 1 and n == 0), False
                    if cls != 1:
                        viol("entry-content:" + name, "%s returned an error (class %d) instead of a verdict on a board with %s; row %s" % (name, cls, describe_content(cb), line),
                                    dict({"cases": [line], "got": o, "content": describe_content(cb)}, **exp))
                        continue
                else:
                    refused, leak = cls == 0, (cls == 0 and n != 0)
                if refused != (not mr):
                    wrong_verdict.setdefault(name, []).append((cb, line, o, cls, n, mr, exp["expected"]))
                elif leak:
                    viol("entry-content-leak:" + name, "%s refuses and still returns a payload of %d on a board with %s; row %s" % (name, n, describe_content(cb), line),
                                dict({"cases": [line], "got": o, "content": describe_content(cb)}, **exp))
                elif (cls, n) != want[j]:
                    # allowed and answered, but not with the content the board holds
                    viol("entry-content-data:" + name, "%s answered (error class %d, payload %d) where the content (%s) prescribes %s; row %s" % (name, cls, n, describe_content(cb), want[j], line),
                                dict({"cases": [line], "got": o, "content": describe_content(cb)}, **exp))
        for name, bad in sorted(wrong_verdict.items()):
            # one violation per entry point; the replay names every content on which the verdict is wrong, the example is the most ordinary one
            bad_contents = sorted(set(b[0] for b in bad))
            shown = []
            for b in sorted(bad, key=lambda b: (-b[0], b[1])):
                if b[0] not in [x[0] for x in shown]:
                    shown.append(b)
            cb, line, o, cls, n, mr, expected = shown[0]
            viol("entry-content:" + name,
                        "%s %s (error class %d, payload %d) where the rule says %s, on a board with %s; row %s. The verdict must not depend on what the board "
                        "holds; it is wrong on %d of the %d contents tried (%d cases), right on the others"
                        % (name, "refuses" if cls == 0 or (name.endswith("IsBoardValidUser") and n == 0) else "does not refuse", cls, n, "allow" if mr else "refuse",
                           describe_content(cb), line, len(bad_contents), len(all_contents), len(bad)),
                        {"cases": [b[1] for b in shown[:8]], "got": o, "expected": expected, "entry_point": name, "rule": "allow" if mr else "refuse",
                         "content": describe_content(cb),
                         "contents_with_wrong_verdict": {str(k): describe_content(k) for k in bad_contents},
                         "contents_with_right_verdict": [k for k in all_contents if k not in bad_contents],
                         "legend": "case: 5 <content bits: 1 index, 2 pinned index, 4 article file, 8 template, 16 pinned counter loaded>|<user level> <over18> <in moderator cache> <friend> <named moderator>|<board attr> <board level>; "
                                   "answer: status, then (error class, payload) for " + ", ".join(CONTENT_EPS) + "; class 0 = ErrNotPermitted, 1 = nil, 12 = no record, 13 = no such file"})
    content_cov = {}
    judge_content("default", meta5, l5, o5, content_cov)
    # a sample on the production build: every sampled row on the four index / pinned contents and the bare ones
    idx5 = [k for k, (cb, _) in enumerate(meta5) if cb in main_contents]
    l5d, meta5d = [l5[k] for k in idx5], [meta5[k] for k in idx5]
    o5d = run_impl_par(l5d, exe=impl_docker)
    c.count(len(l5d) * 10, "degenerate content, -tags docker build")
    if model:
        vf.correspond(c, "entry points x board content, -tags docker build", l5d, o5d, [m5[k] for k in idx5])
    judge_content("docker", meta5d, l5d, o5d, {})
    c.cov["distribution"].update({"content %s / %s" % (why, CONTENT_NAMES[m]): v for (why, m), v in sorted(content_cov.items())})
    c.cov["content_classes"] = {"reason classes": len(by_class), "rows sampled": len(picked), "contents": len(all_contents)}
    k_s = next(k for k, (cb, r) in enumerate(meta5) if cb == C_LOADED | C_INDEX and not spec_may_read(r))
    c.sample({"row": l5[k_s], "impl": o5[k_s], "content": describe_content(meta5[k_s][0]), "spec": "deny",
              "legend": "status | (error class, payload) x 6 ptt + 4 bbs article entry points; class 0 = not permitted, 1 = nil, 12 = no record, 13 = no such file"})

    # ---------------------------------------------------------------- listings where there is nothing (else) to list
    l6 = ["6 %d|%s" % (v, base_rows[k][1]) for v in (0, 1) for k in picked]
    meta6 = [(v, base_rows[k][0]) for v in (0, 1) for k in picked]
    o6 = run_impl_par(l6)
    c.count(len(l6) * 5, "degenerate listings: rows x {empty, singleton} x 4 listings + empty class")
    if model:
        vf.correspond(c, "listings on empty / singleton candidate lists", l6, o6, vf.run_model(model, l6))
    def judge_listings(build, o6):
        where = "" if build == "default" else " [%s build, -tags docker]" % build
        bkey = () if build == "default" else (build,)

        def viol(key, desc, replay, **kw):
            c.violation(at(build, key), desc + where, brep(build, replay), **kw)
        for (v, r), line, o in zip(meta6, l6, o6):
            f = o.split()
            ml = spec_may_list(r)
            c.nontrivial(bkey + ("listing", v) + tuple(r[k] for k in FIELDS))
            if f[0] != "0" or len(f) != 16:
                viol("entry-point-crash", "a listing crashed / stalled on %s; row %s: %s" % ("an empty candidate list" if v == 0 else "a list of one board", line, o), {"cases": [line], "got": o})
                continue
            for j, name in enumerate(LISTING_EPS):
                code, n = f[1 + 3 * j], int(f[3 + 3 * j])
                shown = (v == 1 and ml)
                if code != ("1" if shown else "0") or n != (1 if shown else 0):
                    viol("listing-degenerate:" + name, "%s on %s: code %s (0 absent, 1 with title, 2 without, 7 error), %d entries, where may_list=%s; row %s"
                                % (name, "an empty candidate list" if v == 0 else "a candidate list holding only the board", code, n, ml, line),
                                {"cases": [line], "got": o, "expected": "0 " + " ".join(["1 <attr> 1" if shown else "0 -1 0"] * 4)})
            if f[13:16] != ["0", "-1", "0"]:
                viol("listing-degenerate:ptt.LoadClassBoards", "ptt.LoadClassBoards of a class without children: code %s (0 nothing listed, 7 error, 8 panic), %s entries; row %s" % (f[13], f[15], line),
                            {"cases": [line], "got": o, "expected": "... 0 -1 0"})


    judge_listings("default", o6)
    o6d = run_impl_par(l6, exe=impl_docker)
    c.count(len(l6) * 5, "degenerate listings, -tags docker build")
    if model:
        vf.correspond(c, "listings on empty / singleton candidate lists, -tags docker build", l6, o6d, vf.run_model(model, l6))
    judge_listings("docker", o6d)

    # ---------------------------------------------------------------- the class listings on non-empty classes
    # The class tree of the scratch environment: the fixture's class root (bid 1) or its nested class (bid 5) with planted
    # children — the row's board (as a class / link), an unrestricted class, a hidden class the caller is no friend of, a class
    # with a required level, an over-18 class, a symbolic link, an ordinary board, a vacated slot, the fixture's own classes —
    # chained either by the code's resolver (mode 0) or the way the C daemons sharing the segment leave the chain (mode 1,
    # any order), both sort orders, through ptt.LoadClassBoards / LoadFullClassBoards and their bbs wrappers.
    fx = vf.run_impl(impl, "C07", ["8"])[0].split()
    nb = int(fx[1]) if fx[:1] == ["0"] and len(fx) > 1 else 0
    fixture_hdr = {}
    for k in range(nb):
        bid, named, attr, level, titled = (int(x) for x in fx[2 + 5 * k:7 + 5 * k])
        fixture_hdr[bid] = (bool(named), attr, level)
    sorted_bids = [[int(x) for x in fx[2 + 5 * nb + s_ * nb:2 + 5 * nb + (s_ + 1) * nb]] for s_ in (0, 1)]
    fixture_classes = {bid: (a, l) for bid, (n, a, l) in fixture_hdr.items() if n and a & CLASS_BITS}
    fixture_ok = nb >= 12 and len(fx) == 2 + 7 * nb and set(fixture_classes) == {2, 5} and fixture_hdr[ROW_BID][0] and all(sorted(sb) == list(range(1, nb + 1)) for sb in sorted_bids)
    if not fixture_ok:
        c.broken.append({"kind": "correspondence", "where": "class listings", "theorem": "the fixture no longer has the class tree the class-listing cases are planted on (classes 2 and 5 under root 1, 12 boards)",
                         "examples": [{"case": "8", "impl": " ".join(fx)[:400]}], "log": ""})
    l7, meta7 = [], []

    def class_case(r, mode, cls, sort, rowgroup=True, kinds=None, fixed=None):
        tail, ba = materialise(r, rng, group=rowgroup)
        ul, bl = int(tail.split("|")[0].split()[0]), int(tail.split("|")[1].split()[1])
        pool = [b for b in range(2, nb + 1) if b not in (cls, ROW_BID)]
        rng.shuffle(pool)
        if kinds is None:
            kinds = [K_VISIBLE, K_HIDDEN, K_LEVEL, K_OVER18, K_NONCLASS, K_VACATED, K_LINK]
            if rng.random() < 0.3:
                kinds = rng.sample(kinds, rng.randrange(0, 5))
        chain = [(ROW_BID, K_ROW)]
        for fb in sorted(fixture_classes):
            if fb in pool and (fixed if fixed is not None else rng.random() < 0.5):
                chain.append((fb, K_FIXTURE))
                pool.remove(fb)
        for kd in kinds:
            chain.append((pool.pop(), kd))
        own = [b_ for b_ in FREE_PERM + [P["BM"], P["BOARD"], P["BASIC"], P["LOGINOK"]] if b_ & ul]
        lvl = rng.choice([rng.choice(FREE_PERM), P["SYSOP"], P["BM"] | rng.choice(FREE_PERM), rng.choice(own) if own else P["POST"], P["LOGINOK"]])
        if mode == 1:
            rng.shuffle(chain)
        else:
            eff = 1 if cls == 1 else sort
            chain.sort(key=lambda ch: sorted_bids[eff].index(ch[0]))
        line = "7 %d %d %d|%s|%d|%s|%s" % (mode, cls, sort, tail, lvl, " ".join("%d %d" % ch for ch in chain),
                                          " ".join("%d %d %d" % ((b_,) + fixture_classes[b_]) for b_ in sorted(fixture_classes)))
        l7.append(line)
        meta7.append((r, ul, int(tail.split()[1]), ba, bl, lvl, mode, cls, sort, chain))

    def class_reference(meta):
        """what the four listings must answer, from the property text: the children (all boards, for the full listing) that are
        named classes / links and that the rule allows, or the caller administers boards, or is a named moderator of — in
        sibling (board number) order, each with its title. pttbbs bounds one class listing by ChildCount + 5 entries."""
        r, ul, o18, ba, bl, lvl, mode, cls, sort, chain = meta
        hdr = {bid: h + (None,) for bid, h in fixture_hdr.items()}
        for bid, kd in chain:
            hdr[bid] = kind_header(kd, bid, ba, bl, lvl, fixture_classes) + (kd,)

        def facts(bid):
            named, attr, level, kd = hdr[bid]
            return r if kd == K_ROW else abs_row(ul, o18, False, False, False, attr, level)

        def allowed(bid):
            named, attr, level, kd = hdr[bid]
            return bool(named and attr & CLASS_BITS and spec_may_list(facts(bid)))

        def entry(bid):
            return (bid, 1, returned_attr(facts(bid), hdr[bid][1]))
        stored = [b_ for b_, _ in chain] if mode == 1 else [b_ for b_, _ in chain if hdr[b_][0]]
        cap = (len(chain) if mode == 1 else 0) + 5
        return [entry(b_) for b_ in stored if allowed(b_)][:cap], [entry(b_) for b_ in sorted(hdr) if allowed(b_)], stored, allowed

    def fmt_listing(ent):
        return " ".join(["1", str(len(ent))] + ["%d %d %d" % e for e in ent])

    if fixture_ok:
        plain = {f_: 0 for f_ in FIELDS}
        plain.update(basic=1, verified=1, level0=1)
        sysop = dict(plain, sysop=1)
        for r_ in (plain, sysop):                      # the fixture's own tree first: root with its two classes, then the nested class
            class_case(r_, 0, 1, 0, kinds=[], fixed=True)
            class_case(r_, 0, 5, 0, kinds=[K_VISIBLE, K_HIDDEN], fixed=True)
        combos = [(m_, c_, s_) for m_ in (0, 1) for c_ in (1, 5) for s_ in (0, 1)]
        all_combos = set(k for ks in by_class.values() for k in ks[:(12 if thorough else 4)])
        for n_, k in enumerate(picked):
            r_ = base_rows[k][0]
            for (m_, c_, s_) in (combos if k in all_combos else [combos[n_ % 8]]):
                class_case(r_, m_, c_, s_, rowgroup=rng.random() < 0.9)
    o7 = run_impl_par(l7)
    c.count(len(l7) * 4, "class listings: rows x class trees x 4 entry points")
    if model and l7:
        m7 = vf.run_model(model, l7)
        vf.correspond(c, "class listings on planted class trees", l7, o7, m7)
    def judge_class(build, o7, class_cov):
        where = "" if build == "default" else " [%s build, -tags docker]" % build
        bkey = () if build == "default" else (build,)

        def viol(key, desc, replay, **kw):
            c.violation(at(build, key), desc + where, brep(build, replay), **kw)
        crashes = {}
        for k7, (meta, line, o) in enumerate(zip(meta7, l7, o7)):
            r, ul, o18, ba, bl, lvl, mode, cls, sort, chain = meta
            f = o.split()
            want_cls, want_full, stored, allowed = class_reference(meta)
            expected = " ".join(["0", fmt_listing(want_cls), fmt_listing(want_cls), fmt_listing(want_full), fmt_listing(want_full), str(len(stored))] + [str(b_) for b_ in stored])
            tree = "class %d (%s), chain %s by %s, sort %d: %s" % (cls, "root" if cls == 1 else "nested", "resolved by the code" if mode == 0 else "as planted", "class" if cls == 1 or sort == 1 else "name", sort,
                                                               ", ".join("%d=%s" % (b_, KIND_NAMES[kd]) for b_, kd in chain))
            rep = {"cases": [line], "expected": expected, "got": o, "tree": tree,
                   "legend": "case: 7 <chain: 0 resolved by the code, 1 planted> <class> <sort>|<user level> <over18> <in moderator cache> <friend> <named moderator>|<attr> <level of the row's board>|<level of the class with a required level>|(<bid> <kind>)* in sibling order|fixture classes (<bid> <attr> <level>)*; "
                             "answer: status, then for " + ", ".join(CLASS_EPS) + ": code (1 answered, 7 error, 8 panic), n, (bid, title 1 present / 2 withheld, attr) x n; then the sibling chain the segment holds"}
            c.nontrivial(bkey + ("class", mode, cls, sort, tuple(kd for _, kd in chain)) + tuple(r[k_] for k_ in FIELDS))
            cov_key = "class listing %s / %s" % (reason_class(r)[0], "row board is a class" if ba & CLASS_BITS else "row board is no class")
            class_cov[cov_key] = class_cov.get(cov_key, 0) + 1
            if len(want_cls) == (len(chain) if mode == 1 else 0) + 5:
                class_cov["class listing filling the bound of ChildCount + 5 entries"] = class_cov.get("class listing filling the bound of ChildCount + 5 entries", 0) + 1
            try:
                if f[0] != "0":
                    raise ValueError("status")
                lists, chain_got = parse_class_listings(f)
            except (ValueError, IndexError):
                viol("entry-point-crash", "a class listing crashed / stalled on %s; row %s: %s" % (tree, line, o), rep)
                continue
            if chain_got != stored:
                c.broken.append({"kind": "correspondence", "where": "class listings", "theorem": "the sibling chain the segment holds is the planted one / the children in sort order",
                                 "examples": [{"case": line, "impl": o, "check": expected}], "log": ""})
            for name, (code, ent), want in zip(CLASS_EPS, lists, [want_cls, want_cls, want_full, want_full]):
                got_bids, want_bids = [e[0] for e in ent], [e[0] for e in want]
                if code == 8:
                    crashes.setdefault(name, []).append((k7, line, o, tree, rep))
                elif code != 1:
                    viol("listing-error:" + name, "%s returned an error instead of a listing on %s; row %s" % (name, tree, line), rep)
                elif any(e[1] == 1 and not allowed(e[0]) for e in ent):
                    bad = [e[0] for e in ent if e[1] == 1 and not allowed(e[0])]
                    viol("listing-class-leak:" + name, "%s lists board(s) %s with the title although the rule refuses the caller, who neither administers boards nor is a named moderator; %s; row %s" % (name, bad, tree, line), rep)
                elif got_bids != want_bids:
                    missing, extra = [b_ for b_ in want_bids if b_ not in got_bids], [b_ for b_ in got_bids if b_ not in want_bids]
                    viol("listing-class:" + name, "%s answered boards %s where the children the caller may list are %s in sibling order (omitted %s, not to be listed %s%s); %s; row %s"
                                % (name, got_bids, want_bids, missing, extra, "" if missing or extra else ", order differs", tree, line), rep)
                elif any(e[1] != 1 for e in ent):
                    viol("listing-class-title:" + name, "%s lists board(s) %s without the title for a caller who may list them; %s; row %s" % (name, [e[0] for e in ent if e[1] != 1], tree, line), rep)
        for name in CLASS_EPS:                           # one violation per function (the ptt one stands for its bbs wrapper); the example is the fixture's own tree
            bad = crashes.get(name)
            if not bad:
                continue
            k7, line, o, tree, rep = bad[0]
            viol("listing-crash:" + name.split(".")[1],
                        "%s panics instead of omitting the children the caller may not see (or that are no classes): %d of the %d class trees tried, e.g. %s; row %s"
                        % (name, len(bad), len(l7), tree, line), dict(rep, crashing_cases=len(bad), cases_tried=len(l7)))
    class_cov = {}
    judge_class("default", o7, class_cov)
    o7d = run_impl_par(l7, exe=impl_docker)
    c.count(len(l7) * 4, "class listings, -tags docker build")
    if model and l7:
        vf.correspond(c, "class listings on planted class trees, -tags docker build", l7, o7d, m7)
    judge_class("docker", o7d, {})
    c.cov["distribution"].update(class_cov)
    if l7:
        k_s = next((k for k, m_ in enumerate(meta7) if m_[6] == 1 and len(m_[9]) >= 8 and not spec_may_list(m_[0])), 0)
        c.sample({"row": l7[k_s], "impl": o7[k_s], "legend": "class listing: status | ptt.LoadClassBoards, bbs.LoadClassBoards, ptt.LoadFullClassBoards, bbs.LoadFullClassBoards (code n (bid title attr)*) | stored chain"})

    # ---------------------------------------------------------------- board life cycle: a slot of .BRD used again
    # "Moderator of that board" comes from a cache the segment keeps per board slot. The cases above plant it; here it is
    # what the code's own operations leave behind: histories of ptt.NewBoard (free slot or append), removal (record blanked,
    # boards reloaded), reload, all in one process, with every pool user asking every entry point in between. The answer to
    # a query must be the rule applied to the caller and to the header the board has now (check's own reference), on both builds.
    histories = life_histories(rng, 4000 if thorough else 500)
    l11 = [life_line(h) for h in histories]
    refs11 = [life_reference(h) for h in histories]

    def judge_life(build, o11):
        where = "" if build == "default" else " [%s build, -tags docker]" % build
        bkey = () if build == "default" else (build,)
        worst = {}                                       # key -> (line length, description, replay)
        life_cov = {"queries on a board in a slot used before": 0, "queries on a board in a fresh slot": 0, "queries by a former moderator of a removed board": 0}
        for h, line, o, (want, meta) in zip(histories, l11, o11, refs11):
            f = o.split()
            c.nontrivial(bkey + ("life", line))
            rep = brep(build, {"cases": [line], "expected": " ".join(want), "got": o, "legend": LIFE_LEGEND})
            if f[:1] != ["0"] or len(f) != len(want):
                c.violation(at(build, "entry-point-crash"), "a history of board creations / removals crashed, stalled or was refused%s: %s -> %s" % (where, line, o[:200]), rep)
                continue
            for k, (got, exp, m) in enumerate(zip(f, want, meta)):
                if m and len(m) == 3 and build == "default" and m[0] == LIFE_EPS[0]:
                    life_cov["queries on a board in a slot used before" if m[2]["slot_reused"] else "queries on a board in a fresh slot"] += 1
                    life_cov["queries by a former moderator of a removed board"] += int(m[2]["moderated_a_removed_board"])
                if got == exp:
                    continue
                if m is None or m[0] in ("step", "found", "absent"):
                    key, desc = "life-cycle:step", "step %s of a history answers %s where %s is due (token %d)" % (m[1] if m else "-", got, exp, k)
                else:
                    name, st, info = m
                    who = "pool user %d (%s; level word %d)" % (info["user"], LIFE_POOL[info["user"]], st[3])
                    rel = ("one of its own moderators" if info["own_moderator"] else "not among its moderators") + \
                          ("; moderator of a board removed earlier in the history" if info["moderated_a_removed_board"] else "")
                    key = "life-cycle:" + name
                    desc = ("%s answers %s where the rule, applied to the caller and to the header the board has now, says %s: board vfb%d (moderators %s, attr %d, level %d, in a slot %s) asked by %s - %s"
                            % (name, got, exp, info["board"], [LIFE_POOL[x] for x in info["moderators"]], info["attr"], info["level"],
                               "another board was in before" if info["slot_reused"] else "no board was in before", who, rel))
                if key not in worst or len(line) < worst[key][0]:
                    worst[key] = (len(line), desc, rep)
        for key, (_, desc, rep) in sorted(worst.items()):
            c.violation(at(build, key), desc + where + "; history " + rep["cases"][0], rep)
        return life_cov

    o11 = run_impl_par(l11, workers=8, par_min=40)
    c.count(sum(len(w) - 1 for w, _ in refs11), "board life cycle: steps and (query x 10 entry points) of %d histories" % len(l11))
    if model:
        vf.correspond(c, "board life cycle (histories of NewBoard / removal / reload)", l11, o11, vf.run_model(model, l11))
    c.cov["distribution"].update(judge_life("default", o11))
    o11d = run_impl_par(l11, workers=8, exe=impl_docker, par_min=40)
    c.count(sum(len(w) - 1 for w, _ in refs11), "board life cycle, -tags docker build")
    if model:
        vf.correspond(c, "board life cycle, -tags docker build", l11, o11d, vf.run_model(model, l11))
    judge_life("docker", o11d)
    c.sample({"row": l11[0], "impl": o11[0], "legend": LIFE_LEGEND})

    # ---------------------------------------------------------------- inconsistent (bid, name) pair and the caller-less helper
    probe = [t for (r, t, _, g) in table[:n_consistent] if not g]
    probe = rng.sample(probe, 8000 if thorough else 2000)
    for op, key, what in ((3, "bid-name-mismatch", "ReadPost/GetArticle with the number of another board"),
                          (4, "unguarded-LoadGeneralArticlesSameCreateTime", "ptt.LoadGeneralArticlesSameCreateTime")):
        lp = ["%d|%s" % (op, t) for t in probe]
        op_ = vf.run_impl(impl, "C07", lp)
        c.count(len(lp), "probe op %d" % op)
        if model:
            vf.correspond(c, what, lp, op_, vf.run_model(model, lp))
        for line, o in zip(lp, op_):
            f = o.split()
            if f[0] != "0":
                c.violation("entry-point-crash", "%s crashed on %s: %s" % (what, line, o), {"cases": [line], "got": o})
            elif f[1] == "0" and "1" in f[2:]:
                c.violation(key, "%s returns the board's data to a caller IsBoardValidUser refuses (%s -> %s)" % (what, line, o), {"cases": [line], "expected": " ".join(["0"] * len(f)), "got": o})

    # ---------------------------------------------------------------- are there read paths the model does not list?
    reach = reachable_entry_points(vf.REPO)
    unknown = [n for n in reach if n not in MODELLED and n not in ELSEWHERE]
    missing = [n for n in MODELLED if n not in reach and n != "IsBoardValidUser" and n != "FindArticleStartIdx" and n != "LoadBoardSummary"]
    for n in unknown:
        c.violation("unmodelled-entry-point:" + n, "exported ptt function %s reaches GetRecords/readContent/showBoardList and is not in the model's list of read entry points" % n,
                    {"function": n, "reachable": reach}, no_input=True)
    for n in missing:
        c.broken.append({"kind": "correspondence", "where": "entry point list", "theorem": "modelled entry point %s no longer reaches a reader" % n, "log": ""})
    c.cov["entry_points_reachable"] = reach
    c.cov["entry_points_modelled"] = sorted(MODELLED)
    c.cov["entry_points_unmodelled"] = {n: ELSEWHERE[n] for n in reach if n in ELSEWHERE}
    c.cov["exhaustive_parts"] = ["all %d consistent rows of the 2^16 decision table (%d inconsistent rows pruned: level = 0 with a level bit), each through 11 ptt entry points, "
                                 "5 bbs wrappers, boardPermStat and groupOp" % (n_consistent, (1 << 16) - n_consistent),
                                 "all 32 board contents for every sampled row (the content domain of op 5 is enumerated completely)",
                                 "class listings: all 8 (chain mode x class x sort order) combinations for the first rows of every reason class",
                                 "both build configurations of the repository (default; -tags docker = production): every row of the table through all 16 entry points on each"]
    c.finish(rule="every consistent row of the 16-input table, irrelevant permission/attribute bits drawn from PRNG(seed) (thorough: three draws per row); "
                  "plus group/symbolic variants of sampled rows; plus sampled rows through the inconsistent-pair and caller-less probes; "
                  "plus, for a PRNG(seed) sample of rows holding at least 25 rows of every (deciding clause x administers x named moderator) class, "
                  "the ten article entry points on all 32 board contents (index / pinned index / article file / template present or not, pinned "
                  "counter loaded or not) and the four listings on an empty and on a singleton candidate list (thorough: every row on the "
                  "four index/pinned contents); plus, for every sampled row, the four class listings on a class tree drawn from PRNG(seed) "
                  "(chain resolved by the code / planted in a random order, class root / nested class, sort by name / class — all 8 combinations for 4 rows "
                  "of every class, one in rotation for the others; children: a random subset of the 7 planted kinds and the fixture's classes; the row's board a class or link in 9 of 10); "
                  "the whole table (op 9), the listing cases, the class-listing cases and the content cases on 8 of the 32 contents run a second time on the driver built "
                  "with -tags 'verif docker' (the production configuration) under the same predicates; "
                  "plus board life-cycle histories (op 11) on both builds: 88 systematic ones (board A with moderators removed, board B created next: 7 restrictions x 6 moderator changes x with / without reload; "
                  "same name again; append only; two free slots; existing name) and 500 (thorough 4000) drawn from PRNG(seed) (4-10 operations create / remove / reload over 10 names, 0-4 moderators of a pool of 4, "
                  "4 queries after each operation with user levels drawn from 8 kinds); "
                  "a case is non-trivial if it is a distinct (build) x (row, group flag) / (content, row) / (listing variant, row) / (class tree shape, row) / (history)",
             assumptions=["the caller's uid is a valid logged-in uid (what every API handler derives from the token); uid 0 / -1 are not rows of the table",
                          "decision table, content, listing and class cases: friend list and moderator cache are planted directly (file `visable` reloaded by the code itself; BMCache written into the segment) — how the BM field is parsed is C12",
                          "board life cycle (op 11): the moderator cache is NOT planted, it is what ptt.NewBoard -> cache.ResetBoard and cache.ReloadBCache leave in one process; removal of a board and a reload are reproduced as the C "
                          "administration tools leave the files (blank .BRD record, board directory removed, ReloadBCache) because go-pttbbs has no board removal; every history starts from the fixture's .BRD with the moderator caches of the "
                          "slots behind it zeroed (a fresh segment); moderators are 0-4 ids of 4 fixture users none of which is a substring of another; boards are created by a caller with PERM_BOARD (NewBoard then keeps the level; a hidden "
                          "board is created without restricted mask, so friend lists of reused slots cannot matter); what is THEOREM is the invariant / the answers of the history model (C07_life_cycle), what is VALIDATION is that the code "
                          "behaves like the model's steps (the histories run, both builds); other processes attached to the segment while a board is created are not run",
                          "listing paging (nBoards + 1, next cursor) is C11; here every listing is requested unpaged",
                          "build configurations: the repository has two (ptttype/00-config-default.go, ptttype/01-config-docker.go = -tags docker; the tags dev / production "
                          "select no configuration file at this commit); the docker driver runs on the same small fixture (.PASSWDS / .BRD of ptt/testcase) inside a segment of the "
                          "production size (80 MB, MAX_BOARD 20000), not on a production-size board file; runtime configuration (config.ini variables) is not a build option and is left at the test values",
                          "class listings: the class tree is planted into the board cache (Gid / FirstChild / Next / ChildCount, attributes and levels of fixture boards); "
                          "a chain is acyclic and holds each board once; one class listing is bounded by ChildCount + 5 entries as in pttbbs (go's resolver leaves ChildCount at 0: five entries) — "
                          "the reference applies that bound, listing size is C11's; children that are neither class nor link are not part of a class listing in go-pttbbs (its own filter, like group boards in the general listing)",
                          "board content is varied on the target board by removing / restoring its .DIR, .DIR.bottom, article file and post template; the "
                          "counters of the segment are those the code's own loaders (SetBTotal / SetBottomTotal) compute for that content, or 0 for 'not loaded yet'"])


if __name__ == "__main__":
    main()
