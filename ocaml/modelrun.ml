(* Generic driver for an extracted model: reads case lines, prints one result line per case.
   case line:   tok tok ...|tok tok ...   result: numbers separated by blanks.
   Numbers are converted between decimal text and the extracted binary Z using the extracted
   Z.add / Z.mul / Z.quotrem only (no OCaml-int shortcut beyond single digits). *)
open Model

let rec pos_of_int n = if n = 1 then XH else if n land 1 = 0 then XO (pos_of_int (n lsr 1)) else XI (pos_of_int (n lsr 1))
let z_of_small n = if n = 0 then Z0 else if n > 0 then Zpos (pos_of_int n) else Zneg (pos_of_int (-n))
let ten = z_of_small 10
let z_of_string s =
  let neg = String.length s > 0 && s.[0] = '-' in
  let start = if neg then 1 else 0 in
  let acc = ref Z0 in
  if String.length s - start <= 17 then acc := z_of_small (int_of_string (String.sub s start (String.length s - start)))
  else
    for i = start to String.length s - 1 do
      acc := Z.add (Z.mul !acc ten) (z_of_small (Char.code s.[i] - 48))
    done;
  if neg then Z.opp !acc else !acc
let rec int_of_pos = function XH -> 1 | XO p -> 2 * int_of_pos p | XI p -> 2 * int_of_pos p + 1
let rec pos_bits = function XH -> 1 | XO p | XI p -> 1 + pos_bits p
let string_of_z z =
  match z with
  | Z0 -> "0"
  | Zpos p when pos_bits p <= 60 -> string_of_int (int_of_pos p)
  | Zneg p when pos_bits p <= 60 -> "-" ^ string_of_int (int_of_pos p)
  | _ ->
    let neg = (match z with Zneg _ -> true | _ -> false) in
    let z = if neg then Z.opp z else z in
    let buf = Buffer.create 32 in
    let rec go z acc = match z with
      | Z0 -> acc
      | _ -> let (q, r) = Z.quotrem z ten in
        let d = (match r with Z0 -> 0 | Zpos p -> int_of_pos p | Zneg p -> - (int_of_pos p)) in
        go q (Char.chr (48 + d) :: acc) in
    List.iter (Buffer.add_char buf) (go z []);
    (if neg then "-" else "") ^ Buffer.contents buf

let split_on c s = String.split_on_char c s
let () =
  let out = Buffer.create 65536 in
  (try
    while true do
      let line = input_line stdin in
      let groups = split_on '|' line in
      let args = List.map (fun g -> List.map z_of_string (List.filter (fun t -> t <> "") (split_on ' ' g))) groups in
      let res = (try run_case args with Stack_overflow -> [z_of_small 8]) in
      Buffer.add_string out (String.concat " " (List.map string_of_z res));
      Buffer.add_char out '\n';
      if Buffer.length out > 60000 then (print_string (Buffer.contents out); Buffer.clear out)
    done
  with End_of_file -> ());
  print_string (Buffer.contents out)
