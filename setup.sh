#!/bin/bash
# Builds the whole framework offline from files on disk: translator, Gen/*.v, every .vo (full builds),
# the implementation driver (from /repo's working tree, -tags verif) and the extracted model drivers.
cd "$(dirname "$0")"
export GOFLAGS=-mod=mod GOPROXY=off GOSUMDB=off GOTOOLCHAIN=local
exec python3 lib/setup.py "$@"
