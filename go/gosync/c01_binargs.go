package main

// C01: which types reach encoding/binary? For every call of types.BinaryRead / BinaryWrite (raw, packed),
// types.BinRead / BinWrite (packed + skip/pad to a given size) and cmsys.AppendRecord / SubstituteRecord
// (which hand their `data` to BinaryWrite) in the translated packages, the static type of the data argument
// is classified and emitted as Gen/BinArgs_<cfg>.v:
//   binary_rw_structs : struct types serialised raw          binrw_structs : struct types through BinRead/BinWrite
//   bin_passthrough   : functions that forward an interface{} parameter (expected: the wrappers themselves)
//   bin_other         : anything that is neither a fixed-size scalar, a byte array/slice nor a named struct
//   bin_forwarders    : other functions forwarding a parameter of theirs to one of the above (their call sites are classified too)

import (
	"fmt"
	"go/ast"
	"go/types"
	"path/filepath"
	"sort"
	"strings"

	"golang.org/x/tools/go/packages"
)

func init() { emitters = append(emitters, emitBinArgs) }

var binFuncs = map[string]struct {
	arg int
	raw bool
}{
	modPath + "/types.BinaryRead":       {2, true},
	modPath + "/types.BinaryWrite":      {2, true},
	modPath + "/types.BinRead":          {1, false},
	modPath + "/types.BinWrite":         {1, false},
	modPath + "/cmsys.AppendRecord":     {1, true},
	modPath + "/cmsys.SubstituteRecord": {1, true},
}

func fixedScalar(t types.Type) bool {
	switch u := t.Underlying().(type) {
	case *types.Basic:
		switch u.Kind() {
		case types.Bool, types.Int8, types.Uint8, types.Int16, types.Uint16, types.Int32, types.Uint32,
			types.Int64, types.Uint64, types.Float32, types.Float64:
			return true
		}
	case *types.Array:
		return fixedScalar(u.Elem())
	case *types.Slice:
		return fixedScalar(u.Elem())
	}
	return false
}

func coqStrList(name string, set map[string]bool) string {
	var l []string
	for k := range set {
		l = append(l, k)
	}
	sort.Strings(l)
	var sb strings.Builder
	fmt.Fprintf(&sb, "Definition %s : list string := [", name)
	for i, k := range l {
		if i > 0 {
			sb.WriteString("; ")
		}
		fmt.Fprintf(&sb, "\"%s\"", k)
	}
	sb.WriteString("].\n")
	return sb.String()
}

// paramIndex returns the position of the parameter that identifier e names in fd's signature, or -1.
func paramIndex(p *packages.Package, fd *ast.FuncDecl, e ast.Expr) int {
	for {
		if pe, ok := e.(*ast.ParenExpr); ok {
			e = pe.X
			continue
		}
		break
	}
	id, ok := e.(*ast.Ident)
	if !ok || fd.Recv != nil {
		return -1
	}
	obj := p.TypesInfo.Uses[id]
	if obj == nil {
		return -1
	}
	k := 0
	for _, fld := range fd.Type.Params.List {
		if len(fld.Names) == 0 {
			k++
			continue
		}
		for _, nm := range fld.Names {
			if p.TypesInfo.Defs[nm] == obj {
				return k
			}
			k++
		}
	}
	return -1
}

func emitBinArgs(repo string, pkgs map[string]*packages.Package, cfgName string, outdir string) {
	// A function that hands one of its own interface-typed parameters on to a serialiser is a forwarder: it is
	// treated as a serialiser itself (its call sites are classified) — iterated to a fixpoint. The six functions
	// of binFuncs are the expected wrappers; any other forwarder is listed in bin_forwarders.
	funcs := map[string]struct {
		arg int
		raw bool
	}{}
	for k, v := range binFuncs {
		funcs[k] = v
	}
	var raw, padded, pass, other, fwd map[string]bool
	ncalls := 0
	for changed := true; changed; {
		changed = false
		raw, padded, pass, other, fwd = map[string]bool{}, map[string]bool{}, map[string]bool{}, map[string]bool{}, map[string]bool{}
		ncalls = 0
		for _, p := range pkgs {
			for _, f := range p.Syntax {
				fname := p.Fset.Position(f.Pos()).Filename
				if strings.HasSuffix(fname, "_test.go") {
					continue
				}
				for _, d := range f.Decls {
					fd, ok := d.(*ast.FuncDecl)
					if !ok || fd.Body == nil {
						continue
					}
					ast.Inspect(fd.Body, func(n ast.Node) bool {
						call, ok := n.(*ast.CallExpr)
						if !ok {
							return true
						}
						var id *ast.Ident
						switch fn := call.Fun.(type) {
						case *ast.Ident:
							id = fn
						case *ast.SelectorExpr:
							id = fn.Sel
						}
						if id == nil {
							return true
						}
						obj, ok := p.TypesInfo.Uses[id].(*types.Func)
						if !ok || obj.Pkg() == nil {
							return true
						}
						if sig, ok := obj.Type().(*types.Signature); ok && sig.Recv() != nil {
							return true
						}
						spec, ok := funcs[obj.Pkg().Path()+"."+obj.Name()]
						if !ok || spec.arg >= len(call.Args) {
							return true
						}
						ncalls++
						t := p.TypesInfo.TypeOf(call.Args[spec.arg])
						if ptr, ok := t.Underlying().(*types.Pointer); ok {
							t = ptr.Elem()
						}
						switch {
						case types.IsInterface(t):
							key := p.PkgPath + "." + fd.Name.Name
							if _, wrapper := binFuncs[key]; wrapper || fd.Recv != nil {
								pass[fd.Name.Name] = true
							} else if k := paramIndex(p, fd, call.Args[spec.arg]); k >= 0 {
								fwd[fd.Name.Name] = true
								if _, known := funcs[key]; !known {
									funcs[key] = struct {
										arg int
										raw bool
									}{k, spec.raw}
									changed = true
								}
							} else {
								pass[fd.Name.Name] = true
							}
						case fixedScalar(t):
						default:
							if named, ok := t.(*types.Named); ok {
								if _, ok := named.Underlying().(*types.Struct); ok {
									if spec.raw {
										raw[named.Obj().Name()] = true
									} else {
										padded[named.Obj().Name()] = true
									}
									return true
								}
							}
							other[fd.Name.Name+":"+t.String()] = true
						}
						return true
					})
				}
			}
		}
	}
	var sb strings.Builder
	sb.WriteString("(* GENERATED by gosync from the Go source; do not edit. Configuration: " + cfgName + " *)\n")
	sb.WriteString("From Coq Require Import List String.\nImport ListNotations.\nLocal Open Scope string_scope.\n\n")
	fmt.Fprintf(&sb, "(* %d calls of BinaryRead/BinaryWrite/BinRead/BinWrite/AppendRecord/SubstituteRecord and of the forwarders below *)\n", ncalls)
	sb.WriteString(coqStrList("binary_rw_structs", raw))
	sb.WriteString(coqStrList("binrw_structs", padded))
	sb.WriteString(coqStrList("bin_passthrough", pass))
	sb.WriteString(coqStrList("bin_other", other))
	sb.WriteString("(* functions that hand one of their own parameters on to a serialiser; their call sites are classified above like the serialisers' *)\n")
	sb.WriteString(coqStrList("bin_forwarders", fwd))
	writeIfChanged(filepath.Join(outdir, "BinArgs_"+cfgName+".v"), []byte(sb.String()))
}
