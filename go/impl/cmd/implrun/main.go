// implrun: drives the implementation (github.com/Ptt-official-app/go-pttbbs, built from the
// working tree with -tags verif) on case lines and prints one canonical result line per case.
//
// usage: implrun <property> [-deadline ms] < cases > results
// case line:   tok tok ...|tok tok ...|...      (first group = [op])
// result line: status tok tok ...              status: 0 ok, 1 crash(panic), 2 hang, 3 error, 9 bad case
// On a hang the line "2" is printed and the process exits with status 3; the caller restarts it
// on the remaining cases (a spinning goroutine cannot be killed).
package main

import (
	"bufio"
	"fmt"
	"os"
	"strconv"
	"strings"
	"time"
)

type handler func(args [][]string) []string

type propDriver struct {
	setup    func()
	run      handler
	teardown func()
}

var drivers = map[string]*propDriver{}

func register(id string, d *propDriver) { drivers[id] = d }

func ai(s string) int64 {
	v, err := strconv.ParseInt(s, 10, 64)
	if err != nil {
		panic("badcase:" + s)
	}
	return v
}

func au(s string) uint64 {
	if strings.HasPrefix(s, "-") {
		return uint64(ai(s))
	}
	v, err := strconv.ParseUint(s, 10, 64)
	if err != nil {
		panic("badcase:" + s)
	}
	return v
}

// exact-capacity byte slice (cap == len), so that slicing beyond len panics as it would on a fresh string conversion
func ab(toks []string) []byte {
	b := make([]byte, len(toks))
	for i, t := range toks {
		b[i] = byte(ai(t))
	}
	return b[:len(b):len(b)]
}

func ob(b []byte) []string {
	out := make([]string, len(b))
	for i, c := range b {
		out[i] = strconv.Itoa(int(c))
	}
	return out
}

func oi(v int64) string  { return strconv.FormatInt(v, 10) }
func ou(v uint64) string { return strconv.FormatUint(v, 10) }
func obool(b bool) string {
	if b {
		return "1"
	}
	return "0"
}

func ok(toks ...string) []string { return append([]string{"0"}, toks...) }
func okb(b []byte) []string      { return append([]string{"0"}, ob(b)...) }
func errs(code int) []string     { return []string{"3", strconv.Itoa(code)} }

func parseLine(line string) [][]string {
	groups := strings.Split(line, "|")
	out := make([][]string, len(groups))
	for i, g := range groups {
		out[i] = strings.Fields(g)
	}
	return out
}

func runOne(h handler, args [][]string) (res []string) {
	defer func() {
		if r := recover(); r != nil {
			if s, ok := r.(string); ok && strings.HasPrefix(s, "badcase:") {
				res = []string{"9"}
				return
			}
			if os.Getenv("VERIF_SHOW_PANIC") != "" {
				fmt.Fprintln(os.Stderr, "panic:", r)
			}
			res = []string{"1"}
		}
	}()
	return h(args)
}

func main() {
	if len(os.Args) < 2 {
		fmt.Fprintln(os.Stderr, "usage: implrun <property> [-deadline ms]")
		os.Exit(2)
	}
	d := drivers[os.Args[1]]
	if d == nil {
		fmt.Fprintln(os.Stderr, "implrun: unknown property", os.Args[1])
		os.Exit(2)
	}
	deadline := 10 * time.Second
	for i := 2; i+1 < len(os.Args); i += 2 {
		if os.Args[i] == "-deadline" {
			deadline = time.Duration(ai(os.Args[i+1])) * time.Millisecond
		}
	}
	if d.setup != nil {
		d.setup()
	}
	in := bufio.NewReaderSize(os.Stdin, 1<<20)
	out := bufio.NewWriterSize(os.Stdout, 1<<20)
	exit := 0
	for {
		line, err := in.ReadString('\n')
		if len(line) == 0 && err != nil {
			break
		}
		line = strings.TrimRight(line, "\n")
		args := parseLine(line)
		ch := make(chan []string, 1)
		go func() { ch <- runOne(d.run, args) }()
		var res []string
		select {
		case res = <-ch:
		case <-time.After(deadline):
			res = []string{"2"}
			exit = 3
		}
		out.WriteString(strings.Join(res, " "))
		out.WriteByte('\n')
		if exit != 0 {
			break
		}
		if err != nil {
			break
		}
	}
	out.Flush()
	if d.teardown != nil && exit == 0 {
		d.teardown()
	}
	os.Exit(exit)
}
