package main

// C03 — account operations. One case = one history: the driver rebuilds .PASSWDS from the case's
// initial accounts, reloads shared memory, then runs the operations through bbs.* (layer 0) or the
// gin handlers of package api on an in-process router (layer 1). After every operation it reads
// back, per slot of .PASSWDS, the stored id, which passwords of the pool the stored hash verifies
// and the e-mail, and asks the index for every name of the id pool.

import (
	"bytes"
	"encoding/binary"
	"encoding/json"
	"net/http/httptest"
	"net/url"
	"os"
	"path/filepath"
	"strings"
	"syscall"
	"time"
	"unsafe"

	"github.com/Ptt-official-app/go-pttbbs/api"
	"github.com/Ptt-official-app/go-pttbbs/bbs"
	"github.com/Ptt-official-app/go-pttbbs/cache"
	"github.com/Ptt-official-app/go-pttbbs/cmbbs"
	"github.com/Ptt-official-app/go-pttbbs/ptt"
	"github.com/Ptt-official-app/go-pttbbs/ptttype"
	"github.com/Ptt-official-app/go-pttbbs/types"
	"github.com/gin-gonic/gin"
)

var (
	c03Env    *bbsEnv
	c03Router *gin.Engine
)

func c03ErrCode(err error) int {
	switch err {
	case ptttype.ErrInvalidUserID:
		return 1
	case ptttype.ErrUserIDAlreadyExists:
		return 2
	case cache.ErrInvalidUID:
		return 3
	case bbs.ErrInvalidUUserID:
		return 4
	case bbs.ErrInvalidParams:
		return 5
	case ptt.ErrInvalidParams:
		return 6
	case ptt.ErrNewUtmp:
		return 7
	}
	if e, ok := err.(syscall.Errno); ok {
		return 100 + int(e)
	}
	return 50
}

func c03Strs(toks []string) []string {
	bs := c15Dec(toks)
	out := make([]string, len(bs))
	for i, b := range bs {
		out[i] = string(b)
	}
	return out
}

func c03Ok(payload []byte) []string {
	return append([]string{"0", oi(int64(len(payload)))}, ob(payload)...)
}

// c03Reset writes .PASSWDS from the initial accounts (id, password, e-mail, flags) and reloads shared memory.
func c03Reset(e *bbsEnv, init []string, throttle bool) {
	e.loadFixture("ptt")
	sz := int(ptttype.USEREC_RAW_SZ)
	buf := make([]byte, 0, sz*ptttype.MAX_USERS)
	now := types.NowTS()
	for k := 0; k < ptttype.MAX_USERS; k++ {
		u := &ptttype.UserecRaw{}
		if 4*k+3 < len(init) && init[4*k] != "" {
			id, pw, em, fl := init[4*k], init[4*k+1], init[4*k+2], init[4*k+3]
			u.Version = ptttype.PASSWD_VERSION
			copy(u.UserID[:], id)
			if pw != "" {
				h, err := cmbbs.GenPasswd([]byte(pw))
				must(err)
				copy(u.PasswdHash[:], h[:])
			}
			copy(u.Email[:], em)
			u.UserLevel = ptttype.PERM_DEFAULT
			u.FirstLogin = now - 10*365*86400
			u.LastLogin = now
			if len(fl) > 0 {
				u.LastLogin = now - types.Time4(c03Age(fl[0])) // negative age: the stamp is later than the clock reads now
			}
			if len(fl) > 1 && fl[1] != 0 {
				u.UserLevel |= ptttype.PERM_XEMPT
			}
			u.NumLoginDays = 1
			u.Pager = ptttype.PAGER_ON
		}
		w := &bytes.Buffer{}
		must(binary.Write(w, binary.LittleEndian, u))
		if w.Len() != sz {
			panic("userec size")
		}
		buf = append(buf, w.Bytes()...)
	}
	must(os.WriteFile(filepath.Join(e.home, ".PASSWDS"), buf, 0o600))
	fresh := filepath.Join(e.home, ".fresh")
	os.Remove(fresh)
	if throttle {
		must(os.WriteFile(fresh, []byte(time.Now().String()), 0o600))
	}
	os.MkdirAll(filepath.Join(e.home, "tmp"), 0o755)
	e.reload(true)
}

// c03Observe appends the projection of .PASSWDS and the index answers; slots whose SHM id differs from the id in
// the file are listed after a -7 marker (the model never produces it).
func c03Observe(e *bbsEnv, pwpool, idpool []string) []string {
	fb, err := os.ReadFile(filepath.Join(e.home, ".PASSWDS"))
	must(err)
	sz := int(ptttype.USEREC_RAW_SZ)
	offID := int(unsafe.Offsetof(ptttype.USEREC_RAW.UserID))
	offPw := int(unsafe.Offsetof(ptttype.USEREC_RAW.PasswdHash))
	offEm := int(unsafe.Offsetof(ptttype.USEREC_RAW.Email))
	out := []string{}
	disagree := []string{}
	for k := 0; k < ptttype.MAX_USERS; k++ {
		rec := make([]byte, sz)
		if (k+1)*sz <= len(fb) {
			rec = fb[k*sz : (k+1)*sz]
		}
		id := c15Cstr(rec[offID : offID+ptttype.IDLEN+1])
		hash := rec[offPw : offPw+ptttype.PASSLEN]
		mask := int64(0)
		for i, p := range pwpool {
			okk, err := cmbbs.CheckPasswd(hash, []byte(p))
			if err == nil && okk {
				mask |= 1 << uint(i)
			}
		}
		em := c15Cstr(rec[offEm : offEm+ptttype.EMAILSZ])
		out = append(out, oi(int64(len(id))))
		out = append(out, ob(id)...)
		out = append(out, oi(mask))
		out = append(out, oi(int64(len(em))))
		out = append(out, ob(em)...)
		shmID := cache.Shm.Shm.Userid[k]
		if !bytes.Equal(c15Cstr(shmID[:]), id) {
			disagree = append(disagree, oi(int64(k+1)))
		}
	}
	for _, n := range idpool {
		uid := &ptttype.UserID_t{}
		copy(uid[:], n)
		u, _ := cache.SearchUserRaw(uid, nil)
		out = append(out, oi(int64(u)))
	}
	if len(disagree) > 0 {
		out = append(out, "-7")
		out = append(out, disagree...)
	}
	return out
}

func c03Do(method, path, auth string, body interface{}) (int, map[string]interface{}) {
	b, _ := json.Marshal(body)
	req := httptest.NewRequest(method, path, bytes.NewReader(b))
	req.Header.Set("Content-Type", "application/json")
	req.Header.Set("Host", "localhost")
	req.Header.Set("X-Forwarded-For", "127.0.0.1")
	if auth != "" {
		req.Header.Set("Authorization", "bearer "+auth)
	}
	w := httptest.NewRecorder()
	c03Router.ServeHTTP(w, req)
	out := map[string]interface{}{}
	_ = json.Unmarshal(w.Body.Bytes(), &out)
	return w.Code, out
}

const c03IP = "127.0.0.1"

// c03Age: seconds between the last login of an initial account and the clock at the start of the history, by the
// code in its flags (Model/C03.v age_of is the same table). Negative = the stamp lies AFTER the clock reading (the
// account was used, then the host clock was stepped back; or the stamp was taken by a host whose clock is ahead).
func c03Age(code byte) int64 {
	limit := int64(ptttype.KEEP_DAYS_UNREGGED*24*60+ptttype.CLEAN_USER_EXPIRE_RANGE_MIN) * 60 // PERM_DEFAULT accounts: not LOGINOK
	switch code {
	case 1:
		return 5 * 365 * 86400
	case 2:
		return -5
	case 3:
		return -3600
	case 4:
		return -400 * 86400
	case 5:
		return 14 * 86400
	case 6:
		return limit - 2*86400
	case 7:
		return limit + 2*86400
	}
	return 0
}

// c03ClockBack: the host clock is stepped back by d seconds. The process cannot move the real clock, so every stamp
// the account operations compare with it moves ahead by d instead: LastLogin of every account in .PASSWDS and the
// mtime of .fresh. (now - stamp) is what the code computes, and that is the same number either way.
func c03ClockBack(e *bbsEnv, d int64) {
	fn := filepath.Join(e.home, ".PASSWDS")
	fb, err := os.ReadFile(fn)
	must(err)
	sz := int(ptttype.USEREC_RAW_SZ)
	offID := int(unsafe.Offsetof(ptttype.USEREC_RAW.UserID))
	offLL := int(unsafe.Offsetof(ptttype.USEREC_RAW.LastLogin))
	for k := 0; (k+1)*sz <= len(fb); k++ {
		rec := fb[k*sz : (k+1)*sz]
		if rec[offID] == 0 {
			continue
		}
		v := int32(binary.LittleEndian.Uint32(rec[offLL:offLL+4])) + int32(d)
		binary.LittleEndian.PutUint32(rec[offLL:offLL+4], uint32(v))
	}
	must(os.WriteFile(fn, fb, 0o600))
	fresh := filepath.Join(e.home, ".fresh")
	if st, err := os.Stat(fresh); err == nil {
		t := st.ModTime().Add(time.Duration(d) * time.Second)
		must(os.Chtimes(fresh, t, t))
	}
}

// one operation through bbs.*
func c03Bbs(code int64, a []string) []string {
	switch code {
	case 1:
		u, err := bbs.Register(a[0], a[1], c03IP, a[2], []byte("nick"), []byte("real"), []byte("career"), []byte("address"), true)
		if err != nil {
			return errs(c03ErrCode(err))
		}
		return c03Ok([]byte(u))
	case 2:
		u, err := bbs.Login(a[0], a[1], c03IP)
		if err != nil {
			return errs(c03ErrCode(err))
		}
		return c03Ok([]byte(u))
	case 10: // login from the client address a[2]
		u, err := bbs.Login(a[0], a[1], a[2])
		if err != nil {
			return errs(c03ErrCode(err))
		}
		return c03Ok([]byte(u))
	case 11: // registration from the client address a[3]
		u, err := bbs.Register(a[0], a[1], a[3], a[2], []byte("nick"), []byte("real"), []byte("career"), []byte("address"), true)
		if err != nil {
			return errs(c03ErrCode(err))
		}
		return c03Ok([]byte(u))
	case 3:
		if err := bbs.CheckPasswd(bbs.UUserID(a[0]), a[1], c03IP); err != nil {
			return errs(c03ErrCode(err))
		}
		return c03Ok(nil)
	case 4:
		if err := bbs.ChangePasswd(bbs.UUserID(a[0]), a[1], a[2], c03IP); err != nil {
			return errs(c03ErrCode(err))
		}
		return c03Ok(nil)
	case 5:
		if err := bbs.ChangeEmail(bbs.UUserID(a[0]), a[1]); err != nil {
			return errs(c03ErrCode(err))
		}
		return c03Ok(nil)
	case 6:
		u, err := bbs.CheckExistsUser(a[0])
		if err != nil {
			return errs(c03ErrCode(err))
		}
		return c03Ok([]byte(u))
	case 7:
		u, err := bbs.GetUser(bbs.UUserID(a[0]))
		if err != nil {
			return errs(c03ErrCode(err))
		}
		p := append([]byte{byte(len(u.UUserID))}, []byte(u.UUserID)...)
		p = append(p, byte(len(u.Email)))
		p = append(p, []byte(u.Email)...)
		return c03Ok(p)
	}
	panic("badcase:op")
}

// the same operation through the gin handlers; every refusal is "3 99"; "3 98" = a 200 answer whose token is not
// a valid access token of the answered user
func c03Api(code int64, a []string) []string {
	fail := []string{"3", "99"}
	tokenOf := func(out map[string]interface{}) (string, bool) {
		u, _ := out["user_id"].(string)
		at, _ := out["access_token"].(string)
		tu, _, _, err := api.VerifyJwt(at, true)
		return u, err == nil && string(tu) == u
	}
	switch code {
	case 1:
		st, out := c03Do("POST", api.REGISTER_R, "", map[string]interface{}{"username": a[0], "password": a[1], "email": a[2], "over18": true})
		if st != 200 {
			return fail
		}
		u, good := tokenOf(out)
		if !good {
			return []string{"3", "98"}
		}
		return c03Ok([]byte(u))
	case 2:
		st, out := c03Do("POST", api.LOGIN_R, "", map[string]interface{}{"username": a[0], "password": a[1]})
		if st != 200 {
			return fail
		}
		u, good := tokenOf(out)
		if !good {
			return []string{"3", "98"}
		}
		return c03Ok([]byte(u))
	case 4:
		tok, _, _ := api.CreateToken(bbs.UUserID(a[0]), "")
		st, out := c03Do("POST", strings.Replace(api.CHANGE_PASSWD_R, ":uid", url.PathEscape(a[0]), 1), tok, map[string]interface{}{"orig_password": a[1], "password": a[2]})
		if st != 200 {
			return fail
		}
		if u, good := tokenOf(out); !good || u != a[0] {
			return []string{"3", "98"}
		}
		return c03Ok(nil)
	case 5:
		tok, _, _ := api.CreateToken(bbs.UUserID(a[0]), "")
		etok, _ := api.CreateEmailToken(bbs.UUserID(a[0]), "", a[1], api.CONTEXT_CHANGE_EMAIL)
		st, _ := c03Do("POST", strings.Replace(api.CHANGE_EMAIL_R, ":uid", url.PathEscape(a[0]), 1), tok, map[string]interface{}{"email_token": etok})
		if st != 200 {
			return fail
		}
		return c03Ok(nil)
	case 6:
		st, out := c03Do("POST", api.CHECK_EXISTS_USER_R, "", map[string]interface{}{"username": a[0]})
		if st != 200 {
			return fail
		}
		u, _ := out["user_id"].(string)
		return c03Ok([]byte(u))
	}
	r := c03Bbs(code, a) // no handler in the anchored set: asked at the bbs layer, refusals folded the same way
	if r[0] == "3" {
		return fail
	}
	return r
}

func c03RunOne(layer int64, code int64, a []string) (res []string) {
	defer func() {
		if r := recover(); r != nil {
			if s, ok := r.(string); ok && strings.HasPrefix(s, "badcase:") {
				panic(r)
			}
			if os.Getenv("VERIF_SHOW_PANIC") != "" {
				println("panic in op", code)
			}
			res = []string{"1"}
		}
	}()
	if layer == 0 {
		return c03Bbs(code, a)
	}
	return c03Api(code, a)
}

// case: 1|layer throttle|password pool|id pool|reserved ids (ignored: the loader's list is in force, see op 9)|initial slots|op|op|...
func c03History(args [][]string) []string {
	if len(args) < 6 || len(args[1]) != 2 {
		return []string{"9"}
	}
	layer := ai(args[1][0])
	pwpool := c03Strs(args[2])
	idpool := c03Strs(args[3])
	init := c03Strs(args[5])
	c03Reset(c03Env, init, ai(args[1][1]) != 0)
	out := []string{"0"}
	for _, g := range args[6:] {
		if len(g) == 0 {
			return []string{"9"}
		}
		code := ai(g[0])
		if code == 12 { // the host clock is stepped back by g[1] seconds
			if len(g) != 2 || ai(g[1]) < 0 || ai(g[1]) > 86400 {
				return []string{"9"}
			}
			c03ClockBack(c03Env, ai(g[1]))
			out = append(out, "-1")
			out = append(out, c03Ok(nil)...)
			out = append(out, c03Observe(c03Env, pwpool, idpool)...)
			continue
		}
		a := c03Strs(g[1:])
		want := map[int64]int{1: 3, 2: 2, 3: 2, 4: 3, 5: 2, 6: 1, 7: 1, 8: 0, 10: 3, 11: 4}
		if n, okk := want[code]; !okk || n != len(a) {
			return []string{"9"}
		}
		out = append(out, "-1")
		if code == 8 {
			os.Remove(filepath.Join(c03Env.home, ".fresh")) // an hour passes
			out = append(out, c03Ok(nil)...)
		} else {
			out = append(out, c03RunOne(layer, code, a)...)
		}
		out = append(out, c03Observe(c03Env, pwpool, idpool)...)
	}
	return out
}

func init() {
	register("C03", &propDriver{
		setup: func() {
			c03Env = newBBSEnv("ptt", true)
			gin.SetMode(gin.ReleaseMode)
			c03Router = gin.New()
			c03Router.POST(api.REGISTER_R, api.RegisterWrapper)
			c03Router.POST(api.LOGIN_R, api.LoginWrapper)
			c03Router.POST(api.CHECK_EXISTS_USER_R, api.CheckExistsUserWrapper)
			c03Router.POST(api.CHANGE_PASSWD_R, api.ChangePasswdWrapper)
			c03Router.POST(api.CHANGE_EMAIL_R, api.ChangeEmailWrapper)
		},
		teardown: func() { c03Env.close() },
		run: func(args [][]string) []string {
			switch ai(args[0][0]) {
			case 1:
				return c03History(args)
			case 2: // a table of any size, given sparsely (c03big.go)
				return c03BigHistory(args)
			case 7: // the constants of the on-line table and of account expiry in this build
				return []string{"0", oi(int64(ptttype.USHM_SIZE)), oi(int64(ptttype.KEEP_DAYS_UNREGGED)), oi(int64(ptttype.CLEAN_USER_EXPIRE_RANGE_MIN)), oi(int64(ptttype.PERM_DEFAULT & (ptttype.PERM_LOGINOK | ptttype.PERM_VIOLATELAW)))}
			case 8: // the constants of the loader in this build
				return []string{"0", oi(int64(ptttype.MAX_USERS)), oi(int64(cache.PRE_ALLOCATED_USERS))}
			case 9: // the reserved ids the loader read from etc/reserved.id, and the constants the model takes from Gen/
				out := []string{"0", oi(int64(ptttype.MAX_USERS)), oi(int64(ptttype.IDLEN)), oi(int64(ptttype.EMAILSZ))}
				ids := [][]byte{}
				for _, r := range ptttype.ReservedUserIDs {
					ids = append(ids, []byte(r))
				}
				return append(out, c15Enc(ids)...)
			}
			return []string{"9"}
		}})
}
