package main

// C01 driver: reports the layout of the record types as the COMPILED program sees it (reflect offsets,
// unsafe.Sizeof through reflect.Type.Size, binary.Size), runs encoding/binary through types.BinaryWrite /
// types.BinaryRead on record values, and calls the real partial-update entry points on a scratch .PASSWDS
// / .PASSWD2. Built twice by the check: default constants and -tags docker.

import (
	"bytes"
	"encoding/binary"
	"os"
	"path/filepath"
	"reflect"

	"github.com/Ptt-official-app/go-pttbbs/cache"
	"github.com/Ptt-official-app/go-pttbbs/cmbbs"
	"github.com/Ptt-official-app/go-pttbbs/cmbbs/path"
	"github.com/Ptt-official-app/go-pttbbs/cmsys"
	"github.com/Ptt-official-app/go-pttbbs/ptt"
	"github.com/Ptt-official-app/go-pttbbs/ptt/fav"
	"github.com/Ptt-official-app/go-pttbbs/ptttype"
	"github.com/Ptt-official-app/go-pttbbs/types"
)

var c01Types = map[string]reflect.Type{
	"UserecRaw":      reflect.TypeOf((*ptttype.UserecRaw)(nil)).Elem(),
	"Userec2Raw":     reflect.TypeOf((*ptttype.Userec2Raw)(nil)).Elem(),
	"BoardHeaderRaw": reflect.TypeOf((*ptttype.BoardHeaderRaw)(nil)).Elem(),
	"FileHeaderRaw":  reflect.TypeOf((*ptttype.FileHeaderRaw)(nil)).Elem(),
	"PostLog":        reflect.TypeOf((*ptt.PostLog)(nil)).Elem(),
	"FavBoard":       reflect.TypeOf((*fav.FavBoard)(nil)).Elem(),
	"FavLine":        reflect.TypeOf((*fav.FavLine)(nil)).Elem(),
	"MsgQueueRaw":    reflect.TypeOf((*ptttype.MsgQueueRaw)(nil)).Elem(),
	"UserInfoRaw":    reflect.TypeOf((*ptttype.UserInfoRaw)(nil)).Elem(),
	"SHMRaw":         reflect.TypeOf((*cache.SHMRaw)(nil)).Elem(),
}

// binary.Size of a zero value of t (the value is only allocated, never touched)
func c01BinSize(t reflect.Type) int64 {
	return int64(binary.Size(reflect.New(t).Interface()))
}

// fill v (addressable) from leaves in field order; returns the rest
func c01Fill(v reflect.Value, leaves []string) []string {
	switch v.Kind() {
	case reflect.Bool:
		v.SetBool(ai(leaves[0]) != 0)
		return leaves[1:]
	case reflect.Int8, reflect.Int16, reflect.Int32, reflect.Int64:
		v.SetInt(ai(leaves[0]))
		return leaves[1:]
	case reflect.Uint8, reflect.Uint16, reflect.Uint32, reflect.Uint64:
		v.SetUint(au(leaves[0]))
		return leaves[1:]
	case reflect.Array:
		for i := 0; i < v.Len(); i++ {
			leaves = c01Fill(v.Index(i), leaves)
		}
		return leaves
	case reflect.Struct:
		for i := 0; i < v.NumField(); i++ {
			leaves = c01Fill(v.Field(i), leaves)
		}
		return leaves
	}
	panic("badcase:kind")
}

func c01Leaves(v reflect.Value, out []string) []string {
	switch v.Kind() {
	case reflect.Bool:
		return append(out, obool(v.Bool()))
	case reflect.Int8, reflect.Int16, reflect.Int32, reflect.Int64:
		return append(out, oi(v.Int()))
	case reflect.Uint8, reflect.Uint16, reflect.Uint32, reflect.Uint64:
		return append(out, ou(v.Uint()))
	case reflect.Array:
		for i := 0; i < v.Len(); i++ {
			out = c01Leaves(v.Index(i), out)
		}
		return out
	case reflect.Struct:
		for i := 0; i < v.NumField(); i++ {
			out = c01Leaves(v.Field(i), out)
		}
		return out
	}
	panic("badcase:kind")
}

func c01ErrCode(err error) []string {
	switch err {
	case cache.ErrInvalidUID:
		return errs(1)
	case cmbbs.ErrInvalidPasswd2Size:
		return errs(3)
	}
	if c01Refused(err) {
		return errs(4)
	}
	return errs(99)
}

func init() {
	var env *bbsEnv
	getEnv := func() *bbsEnv {
		if env == nil {
			env = newBBSEnv("ptt", false)
		}
		return env
	}
	register("C01", &propDriver{
		teardown: func() {
			c01FullCleanup()
			if env != nil {
				env.close()
			}
		},
		run: func(args [][]string) []string {
			switch ai(args[0][0]) {
			case 1: // layout of a struct as compiled
				t := c01Types[string(ab(args[2]))]
				if t == nil {
					return errs(0)
				}
				out := []string{"0", oi(int64(t.Size())), oi(c01BinSize(t)), oi(int64(t.Align())), oi(int64(t.NumField()))}
				packed := int64(0)
				for i := 0; i < t.NumField(); i++ {
					f := t.Field(i)
					out = append(out, oi(int64(len(f.Name))))
					out = append(out, ob([]byte(f.Name))...)
					bs := c01BinSize(f.Type)
					out = append(out, oi(int64(f.Offset)), oi(packed), oi(int64(f.Type.Size())), oi(bs))
					packed += bs
				}
				return out
			case 2: // leaves -> types.BinaryWrite
				t := c01Types[string(ab(args[2]))]
				if t == nil {
					return errs(0)
				}
				p := reflect.New(t)
				if rest := c01Fill(p.Elem(), args[3]); len(rest) != 0 {
					return errs(1)
				}
				buf := &bytes.Buffer{}
				if err := types.BinaryWrite(buf, binary.LittleEndian, p.Interface()); err != nil {
					return errs(2)
				}
				return okb(buf.Bytes())
			case 3: // bytes -> types.BinaryRead -> leaves
				t := c01Types[string(ab(args[2]))]
				if t == nil {
					return errs(0)
				}
				p := reflect.New(t)
				if err := types.BinaryRead(bytes.NewReader(ab(args[3])), binary.LittleEndian, p.Interface()); err != nil {
					return errs(1)
				}
				return append([]string{"0"}, c01Leaves(p.Elem(), nil)...)
			case 4: // partial update of .PASSWDS through the real entry points
				getEnv()
				uid := ptttype.UID(ai(args[1][1]))
				fname := string(ab(args[2]))
				must(os.WriteFile(ptttype.FN_PASSWD, ab(args[4]), 0o600))
				var err error
				switch fname {
				case "PasswdHash":
					h := &ptttype.Passwd_t{}
					c01Fill(reflect.ValueOf(h).Elem(), args[3])
					err = cmbbs.PasswdUpdatePasswd(uid, h)
				case "Email":
					e := &ptttype.Email_t{}
					c01Fill(reflect.ValueOf(e).Elem(), args[3])
					err = cmbbs.PasswdUpdateEmail(uid, e)
				case "Money":
					if uid < 1 || uid > ptttype.MAX_USERS { // SetUMoney indexes shared memory before any check (C20)
						_, err = cache.DeUMoney(uid, int32(ai(args[3][0])))
					} else {
						_, err = cache.SetUMoney(uid, int32(ai(args[3][0])))
					}
				default:
					return errs(2)
				}
				b, e2 := os.ReadFile(ptttype.FN_PASSWD)
				must(e2)
				if err != nil {
					r := c01ErrCode(err)
					if !bytes.Equal(b, ab(args[4])) {
						r = append(r, "1") // refused, yet the file changed
					}
					return r
				}
				return okb(b)
			case 5: // level-2 update of a user's .PASSWD2
				getEnv()
				userID := &ptttype.UserID_t{'S', 'Y', 'S', 'O', 'P'}
				fn, err := path.SetHomeFile(userID, ptttype.FN_PASSWD2)
				must(err)
				must(os.MkdirAll(filepath.Dir(fn), 0o755))
				os.Remove(fn)
				if ai(args[1][1]) != 0 {
					must(os.WriteFile(fn, ab(args[2]), 0o600))
				}
				err = cmbbs.PasswdUpdateUserLevel2(userID, ptttype.PERM2(au(args[1][2])), ai(args[1][3]) != 0)
				if err != nil {
					return c01ErrCode(err)
				}
				b, e2 := os.ReadFile(fn)
				must(e2)
				return okb(b)
			case 6: // sentinel probe: where do the bytes of field i land when the record goes through BinaryWrite?
				t := c01Types[string(ab(args[2]))]
				if t == nil {
					return errs(0)
				}
				i := int(ai(args[3][0]))
				p := reflect.New(t)
				c01Sentinel(p.Elem().Field(i))
				buf := &bytes.Buffer{}
				if err := types.BinaryWrite(buf, binary.LittleEndian, p.Interface()); err != nil {
					return errs(2)
				}
				b := buf.Bytes()
				first, last := -1, -1
				for k, c := range b {
					if c != 0 {
						if first < 0 {
							first = k
						}
						last = k
					}
				}
				return ok(oi(int64(first)), oi(int64(last+1-first)), oi(int64(len(b))))
			case 7: // PasswdQueryUserLevel / PasswdQueryPasswd: partial reads at Offsetof
				getEnv()
				uid := ptttype.UID(ai(args[1][1]))
				must(os.WriteFile(ptttype.FN_PASSWD, ab(args[2]), 0o600))
				lv, err := cmbbs.PasswdQueryUserLevel(uid)
				if err != nil {
					return c01ErrCode(err)
				}
				h, err := cmbbs.PasswdQueryPasswd(uid)
				if err != nil {
					return c01ErrCode(err)
				}
				return append(ok(ou(uint64(lv))), ob(h[:])...)
			case 8: // append n PostLog records to a fresh .post through cmsys.AppendRecord: indices ..., final size
				dir, err := os.MkdirTemp("", "verifpost")
				must(err)
				defer os.RemoveAll(dir)
				fn := filepath.Join(dir, ".post")
				out := []string{"0"}
				for k := int64(0); k < ai(args[1][0]); k++ {
					pl := &ptt.PostLog{TheDate: types.Time4(1600000000 + k), Number: int32(k + 1)}
					copy(pl.Author[:], "SYSOP")
					copy(pl.Board[:], "WhoAmI")
					copy(pl.Title[:], "title")
					idx, err := cmsys.AppendRecord(fn, pl, ptt.POSTLOG_SZ)
					if err != nil {
						return errs(99)
					}
					out = append(out, oi(int64(idx)))
				}
				st, err := os.Stat(fn)
				must(err)
				return append(out, oi(st.Size()), oi(int64(cmsys.GetNumRecords(fn, ptt.POSTLOG_SZ))))
			case 9: // the call the legacy v4 favourites reader makes for a folder entry
				buf := make([]byte, fav.SIZE_OF_FAV_FOLDER)
				if err := types.BinRead(bytes.NewReader(buf), &fav.FavFolder{}, fav.SIZE_OF_FAV_FOLDER); err != nil {
					return errs(1)
				}
				return ok()
			case 10, 11, 12: // histories with refused writes (c01seq.go)
				return c01History(getEnv, args)
			case 13: // runs of a server over one shared-memory key: restarts on a left-over segment (c01shm.go)
				return c01Restart(args)
			}
			return []string{"9"}
		},
	})
}

// every byte of the field non-zero
func c01Sentinel(v reflect.Value) {
	switch v.Kind() {
	case reflect.Bool:
		v.SetBool(true)
	case reflect.Int8, reflect.Int16, reflect.Int32, reflect.Int64:
		v.SetInt(0x0101010101010101) // truncated to the field's width
	case reflect.Uint8, reflect.Uint16, reflect.Uint32, reflect.Uint64:
		v.SetUint(0x0101010101010101)
	case reflect.Array:
		for i := 0; i < v.Len(); i++ {
			c01Sentinel(v.Index(i))
		}
	case reflect.Struct:
		for i := 0; i < v.NumField(); i++ {
			c01Sentinel(v.Field(i))
		}
	}
}
