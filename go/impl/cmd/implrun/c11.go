package main

// C11: drives cache.GetBid / FindBoardIdxByName / FindBoardIdxByClass / FindBoardAutoCompleteStartIdx and the
// bbs.LoadGeneralBoards / bbs.LoadAutoCompleteBoards listing walks on real shared memory loaded by
// cache.ReloadBCache from a .BRD file written from the case line.
//
// table = two groups: [names: NUL-terminated byte strings, in file (bid) order] [titles: 5 bytes per board = Title[:5]]
// op 0 table                 -> n, BSorted[by name][0..n), BSorted[by class][0..n)
// op 1 table [q]             -> GetBid
// op 2 table [q] [asc]       -> FindBoardIdxByName
// op 3 table [cls] [q] [asc] -> FindBoardIdxByClass
// op 4 table [kw] [asc]      -> FindBoardAutoCompleteStartIdx
// op 5 table [k asc]         -> by-name listing walk through bbs.LoadGeneralBoards: pages, visited positions of BSorted[by name]
// op 6 table [kw] [k asc]    -> auto-complete listing walk through bbs.LoadAutoCompleteBoards: pages, visited positions
// op 7 table [k asc]         -> by-class listing walk through bbs.LoadGeneralBoards(BSORT_BY_CLASS): pages, visited positions of
//                               BSorted[by class]. A walk (op 5, 6, 7) that is not over after 2n+3 pages is status 2.
// op 6 table [kw] [k asc]    -> (asc = 0: the same walk descending)
// op 8 step step ...         -> a history of reloads / creations / lookups in fresh driver state (c11hist.go)
// op 12 [tail n records] [v G R] obs...
//                            -> lookups with BBusyState left set over a whole table, and by G goroutines at once (c11busy.go)
// op 10 names [ftitles] [mode f...] [k asc by]
//                            -> FILTERED listing walk through bbs.LoadGeneralBoards: ftitles = one NUL-terminated whole title per board
//                               (class, blank, the rest); mode 1 = title filter f, 2 = keyword filter f (title or name); by 0 = name,
//                               1 = class: pages, visited positions of BSorted[by]
// op 11 table [dirstate per board] [k asc by] [kw...]
//                            -> listing walk (by 0 = name, 1 = class, 2 = auto-complete with prefix kw) right after a ReloadBCache
//                               (no article count cached) with the boards' own article indexes in these states: 0 no .DIR, 1 two
//                               records with a 10-digit time-stamp, 2 last record "M.997843374.A.1EA" (9 digits), 3 .DIR is a
//                               directory, 4 one record with an all-NUL filename, 5 one record "garbage" + half a record,
//                               6 last record ".d" (safe-deleted), 7 as 1 + .DIR.bottom is a directory

import (
	"bytes"
	"encoding/binary"
	"os"
	"path/filepath"
	"strings"

	"github.com/Ptt-official-app/go-pttbbs/bbs"
	"github.com/Ptt-official-app/go-pttbbs/cache"
	"github.com/Ptt-official-app/go-pttbbs/ptttype"
	"github.com/Ptt-official-app/go-pttbbs/types"
)

func c11Split0(toks []string) [][]byte {
	out := [][]byte{}
	cur := []byte{}
	for _, t := range toks {
		v := byte(ai(t))
		if v == 0 {
			out = append(out, cur)
			cur = []byte{}
		} else {
			cur = append(cur, v)
		}
	}
	return out
}

func init() {
	var env *bbsEnv
	last := "\x00"
	var nBoards int

	install := func(names, titles [][]byte) {
		buf := &bytes.Buffer{}
		for i, nm := range names {
			b := &ptttype.BoardHeaderRaw{}
			copy(b.Brdname[:], nm)
			if len(nm) > 0 {
				copy(b.Title[:], titles[i])
				b.Gid = 1
			}
			must(binary.Write(buf, binary.LittleEndian, b))
		}
		must(os.WriteFile(filepath.Join(env.home, ".BRD"), buf.Bytes(), 0o644))
		cache.Shm.Shm.BNumber = 0
		cache.ReloadBCache()
		nBoards = len(names)
	}

	load := func(nameToks, titleToks []string) {
		key := strings.Join(nameToks, " ") + "|" + strings.Join(titleToks, " ")
		if key == last {
			return
		}
		names := c11Split0(nameToks)
		titles := ab(titleToks)
		if len(titles) != 5*len(names) {
			panic("badcase:titles")
		}
		full := make([][]byte, len(names))
		for i := range names {
			full[i] = append(append([]byte{}, titles[5*i:5*i+5]...), []byte("\xa1\xb7test board")...)
		}
		install(names, full)
		last = key
	}

	// whole titles, one NUL-terminated string per board (op 10)
	loadFull := func(nameToks, ftitleToks []string) {
		key := "F|" + strings.Join(nameToks, " ") + "|" + strings.Join(ftitleToks, " ")
		if key == last {
			return
		}
		names := c11Split0(nameToks)
		full := c11Split0(ftitleToks)
		if len(full) != len(names) {
			panic("badcase:ftitles")
		}
		install(names, full)
		last = key
	}

	// the boards' own article indexes (op 11); returns the clean-up
	setDirs := func(states []string) func() {
		if len(states) != nBoards {
			panic("badcase:dirstates")
		}
		created := []string{}
		cleanup := func() {
			for _, d := range created {
				_ = os.RemoveAll(d)
			}
		}
		rec := func(fn string) []byte {
			r := make([]byte, ptttype.FILE_HEADER_RAW_SZ)
			copy(r, fn)
			return r
		}
		for i := 0; i < nBoards; i++ {
			st := ai(states[i])
			nm := types.CstrToString(cache.Shm.Shm.BCache[i].Brdname[:])
			if st == 0 || nm == "" {
				continue
			}
			if strings.ContainsAny(nm, "/") || nm == "." || nm == ".." {
				cleanup()
				panic("badcase:boarddir")
			}
			dir := filepath.Join(env.home, "boards", nm[:1], nm)
			if _, err := os.Stat(dir); err == nil {
				cleanup()
				panic("badcase:boarddir exists")
			}
			must(os.MkdirAll(dir, 0o755))
			created = append(created, dir)
			fnDir := filepath.Join(dir, ptttype.FN_DIR)
			modern := append(rec("M.1607202239.A.30D"), rec("M.1607202240.A.30E")...)
			switch st {
			case 1:
				must(os.WriteFile(fnDir, modern, 0o644))
			case 2:
				must(os.WriteFile(fnDir, append(rec("M.1607202239.A.30D"), rec("M.997843374.A.1EA")...), 0o644))
			case 3:
				must(os.MkdirAll(filepath.Join(fnDir, "x", "y"), 0o755))
			case 4:
				must(os.WriteFile(fnDir, rec(""), 0o644))
			case 5:
				must(os.WriteFile(fnDir, append(rec("garbage"), rec("M.1607202239.A.30D")[:len(rec(""))/2]...), 0o644))
			case 6:
				must(os.WriteFile(fnDir, append(rec("M.1607202239.A.30D"), rec(".d")...), 0o644))
			case 7:
				must(os.WriteFile(fnDir, modern, 0o644))
				must(os.MkdirAll(filepath.Join(dir, ptttype.FN_DIR_BOTTOM, "x"), 0o755))
			default:
				cleanup()
				panic("badcase:dirstate")
			}
		}
		return cleanup
	}

	posByName := func(name string) int64 {
		for i := 0; i < nBoards; i++ {
			b := cache.Shm.Shm.BSorted[ptttype.BSORT_BY_NAME][i]
			if types.CstrToString(cache.Shm.Shm.BCache[b].Brdname[:]) == name {
				return int64(i + 1)
			}
		}
		return -99
	}

	// position (1-based) in BSorted[by class] of the board with that name (names are distinct as byte strings)
	posByClass := func(name string) int64 {
		for i := 0; i < nBoards; i++ {
			b := cache.Shm.Shm.BSorted[ptttype.BSORT_BY_CLASS][i]
			if types.CstrToString(cache.Shm.Shm.BCache[b].Brdname[:]) == name {
				return int64(i + 1)
			}
		}
		return -99
	}

	boardID := func(toks []string) *ptttype.BoardID_t {
		id := &ptttype.BoardID_t{}
		copy(id[:], ab(toks))
		return id
	}

	register("C11", &propDriver{
		setup:    func() { env = newBBSEnv("ptt", true) },
		teardown: func() { env.close() },
		run: func(args [][]string) []string {
			op := ai(args[0][0])
			if op == 8 { // a history in fresh driver state: c11hist.go
				last = "\x00"
				return c11Scenario(env, args[1:])
			}
			if op == 12 { // lookups while a writer is stopped inside its critical section, and by several goroutines at once: c11busy.go
				last = "\x00"
				return c11StalledWriter(env, args[1:])
			}
			if op == 10 {
				loadFull(args[1], args[2])
			} else {
				load(args[1], args[2])
			}
			// a listing paged through its own next-cursor: pages, positions of the listed boards in BSorted[by]
			walk := func(by ptttype.BSortBy, fetch func(cursor string) ([]*bbs.BoardSummary, string, error)) []string {
				visited := []string{}
				pages := int64(0)
				cursor := ""
				for iter := 0; iter < 2*nBoards+3; iter++ {
					ss, next, err := fetch(cursor)
					if err != nil {
						return append([]string{"3", "1", oi(pages)}, visited...)
					}
					pages++
					for _, s := range ss {
						if by == ptttype.BSORT_BY_CLASS {
							visited = append(visited, oi(posByClass(s.Brdname)))
						} else {
							visited = append(visited, oi(posByName(s.Brdname)))
						}
					}
					if next == "" {
						return append([]string{"0", oi(pages)}, visited...)
					}
					cursor = next
				}
				return []string{"2"}
			}
			switch op {
			case 10:
				f := ab(args[3][1:])
				var title, keyword []byte
				switch ai(args[3][0]) {
				case 1:
					title = f
				case 2:
					keyword = f
				default:
					panic("badcase:mode")
				}
				k, asc := int(ai(args[4][0])), ai(args[4][1]) != 0
				by := ptttype.BSORT_BY_NAME
				if ai(args[4][2]) != 0 {
					by = ptttype.BSORT_BY_CLASS
				}
				return walk(by, func(cursor string) ([]*bbs.BoardSummary, string, error) {
					return bbs.LoadGeneralBoards(bbs.UUserID("SYSOP"), cursor, k, title, keyword, asc, by)
				})
			case 11:
				cleanup := setDirs(args[3])
				defer cleanup()
				cache.ReloadBCache() // a fresh table: no article count is cached
				k, asc, mode := int(ai(args[4][0])), ai(args[4][1]) != 0, ai(args[4][2])
				switch mode {
				case 0, 1:
					by := ptttype.BSORT_BY_NAME
					if mode == 1 {
						by = ptttype.BSORT_BY_CLASS
					}
					return walk(by, func(cursor string) ([]*bbs.BoardSummary, string, error) {
						return bbs.LoadGeneralBoards(bbs.UUserID("SYSOP"), cursor, k, nil, nil, asc, by)
					})
				case 2:
					kw := string(ab(args[5]))
					return walk(ptttype.BSORT_BY_NAME, func(cursor string) ([]*bbs.BoardSummary, string, error) {
						return bbs.LoadAutoCompleteBoards(bbs.UUserID("SYSOP"), cursor, k, kw, asc)
					})
				}
				panic("badcase:mode")
			case 0:
				n := int(cache.Shm.GetBNumber())
				out := []string{"0", oi(int64(n))}
				for s := 0; s < 2; s++ {
					for i := 0; i < n; i++ {
						out = append(out, oi(int64(cache.Shm.Shm.BSorted[s][i])))
					}
				}
				return out
			case 1:
				bid, err := cache.GetBid(boardID(args[3]))
				if err != nil {
					return errs(1)
				}
				return ok(oi(int64(bid)))
			case 2:
				idx, err := cache.FindBoardIdxByName(boardID(args[3]), ai(args[4][0]) != 0)
				if err != nil {
					return errs(1)
				}
				return ok(oi(int64(idx)))
			case 3:
				idx, err := cache.FindBoardIdxByClass(ab(args[3]), boardID(args[4]), ai(args[5][0]) != 0)
				if err != nil {
					return errs(1)
				}
				return ok(oi(int64(idx)))
			case 4:
				idx, err := cache.FindBoardAutoCompleteStartIdx(ab(args[3]), ai(args[4][0]) != 0)
				if err != nil {
					return errs(1)
				}
				return ok(oi(int64(idx)))
			case 5, 6, 7:
				var kw string
				p := args[3]
				if op == 6 {
					kw = string(ab(args[3]))
					p = args[4]
				}
				k, asc := int(ai(p[0])), ai(p[1]) != 0
				visited := []string{}
				pages := int64(0)
				cursor := ""
				for iter := 0; iter < 2*nBoards+3; iter++ {
					var ss []*bbs.BoardSummary
					var next string
					var err error
					if op == 5 {
						ss, next, err = bbs.LoadGeneralBoards(bbs.UUserID("SYSOP"), cursor, k, nil, nil, asc, ptttype.BSORT_BY_NAME)
					} else if op == 7 {
						ss, next, err = bbs.LoadGeneralBoards(bbs.UUserID("SYSOP"), cursor, k, nil, nil, asc, ptttype.BSORT_BY_CLASS)
					} else {
						ss, next, err = bbs.LoadAutoCompleteBoards(bbs.UUserID("SYSOP"), cursor, k, kw, asc)
					}
					if err != nil {
						return append([]string{"3", "1", oi(pages)}, visited...)
					}
					pages++
					for _, s := range ss {
						if op == 7 {
							visited = append(visited, oi(posByClass(s.Brdname)))
						} else {
							visited = append(visited, oi(posByName(s.Brdname)))
						}
					}
					if next == "" {
						return append([]string{"0", oi(pages)}, visited...)
					}
					cursor = next
				}
				return []string{"2"}
			}
			return []string{"9"}
		},
	})
}
