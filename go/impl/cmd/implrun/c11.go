package main

// C11: drives cache.GetBid / FindBoardIdxByName / FindBoardIdxByClass / FindBoardAutoCompleteStartIdx and the
// bbs.LoadGeneralBoards / bbs.LoadAutoCompleteBoards listing walks on real shared memory loaded by
// cache.ReloadBCache from a .BRD file written from the case line.
//
// table = two groups: [names: NUL-terminated byte strings, in file (bid) order] [titles: 5 bytes per board = Title[:5]]
// op 0 table                 -> n, BSorted[by name][0..n), BSorted[by class][0..n)
// op 1 table [q]             -> GetBid
// op 2 table [q] [asc]       -> FindBoardIdxByName
// op 3 table [cls] [q] [asc] -> FindBoardIdxByClass
// op 4 table [kw] [asc]      -> FindBoardAutoCompleteStartIdx
// op 5 table [k asc]         -> by-name listing walk through bbs.LoadGeneralBoards: pages, visited positions of BSorted[by name]
// op 6 table [kw] [k asc]    -> auto-complete listing walk through bbs.LoadAutoCompleteBoards: pages, visited positions
// op 7 table [k asc]         -> by-class listing walk through bbs.LoadGeneralBoards(BSORT_BY_CLASS): pages, visited positions of
//                               BSorted[by class]. A walk (op 5, 6, 7) that is not over after 2n+3 pages is status 2.
// op 6 table [kw] [k asc]    -> (asc = 0: the same walk descending)
// op 8 step step ...         -> a history of reloads / creations / lookups in fresh driver state (c11hist.go)

import (
	"bytes"
	"encoding/binary"
	"os"
	"path/filepath"
	"strings"

	"github.com/Ptt-official-app/go-pttbbs/bbs"
	"github.com/Ptt-official-app/go-pttbbs/cache"
	"github.com/Ptt-official-app/go-pttbbs/ptttype"
	"github.com/Ptt-official-app/go-pttbbs/types"
)

func c11Split0(toks []string) [][]byte {
	out := [][]byte{}
	cur := []byte{}
	for _, t := range toks {
		v := byte(ai(t))
		if v == 0 {
			out = append(out, cur)
			cur = []byte{}
		} else {
			cur = append(cur, v)
		}
	}
	return out
}

func init() {
	var env *bbsEnv
	last := "\x00"
	var nBoards int

	load := func(nameToks, titleToks []string) {
		key := strings.Join(nameToks, " ") + "|" + strings.Join(titleToks, " ")
		if key == last {
			return
		}
		names := c11Split0(nameToks)
		titles := ab(titleToks)
		if len(titles) != 5*len(names) {
			panic("badcase:titles")
		}
		buf := &bytes.Buffer{}
		for i, nm := range names {
			b := &ptttype.BoardHeaderRaw{}
			copy(b.Brdname[:], nm)
			if len(nm) > 0 {
				copy(b.Title[:], titles[5*i:5*i+5])
				copy(b.Title[5:], []byte("\xa1\xb7test board"))
				b.Gid = 1
			}
			must(binary.Write(buf, binary.LittleEndian, b))
		}
		must(os.WriteFile(filepath.Join(env.home, ".BRD"), buf.Bytes(), 0o644))
		cache.Shm.Shm.BNumber = 0
		cache.ReloadBCache()
		nBoards = len(names)
		last = key
	}

	posByName := func(name string) int64 {
		for i := 0; i < nBoards; i++ {
			b := cache.Shm.Shm.BSorted[ptttype.BSORT_BY_NAME][i]
			if types.CstrToString(cache.Shm.Shm.BCache[b].Brdname[:]) == name {
				return int64(i + 1)
			}
		}
		return -99
	}

	// position (1-based) in BSorted[by class] of the board with that name (names are distinct as byte strings)
	posByClass := func(name string) int64 {
		for i := 0; i < nBoards; i++ {
			b := cache.Shm.Shm.BSorted[ptttype.BSORT_BY_CLASS][i]
			if types.CstrToString(cache.Shm.Shm.BCache[b].Brdname[:]) == name {
				return int64(i + 1)
			}
		}
		return -99
	}

	boardID := func(toks []string) *ptttype.BoardID_t {
		id := &ptttype.BoardID_t{}
		copy(id[:], ab(toks))
		return id
	}

	register("C11", &propDriver{
		setup:    func() { env = newBBSEnv("ptt", true) },
		teardown: func() { env.close() },
		run: func(args [][]string) []string {
			op := ai(args[0][0])
			if op == 8 { // a history in fresh driver state: c11hist.go
				last = "\x00"
				return c11Scenario(env, args[1:])
			}
			load(args[1], args[2])
			switch op {
			case 0:
				n := int(cache.Shm.GetBNumber())
				out := []string{"0", oi(int64(n))}
				for s := 0; s < 2; s++ {
					for i := 0; i < n; i++ {
						out = append(out, oi(int64(cache.Shm.Shm.BSorted[s][i])))
					}
				}
				return out
			case 1:
				bid, err := cache.GetBid(boardID(args[3]))
				if err != nil {
					return errs(1)
				}
				return ok(oi(int64(bid)))
			case 2:
				idx, err := cache.FindBoardIdxByName(boardID(args[3]), ai(args[4][0]) != 0)
				if err != nil {
					return errs(1)
				}
				return ok(oi(int64(idx)))
			case 3:
				idx, err := cache.FindBoardIdxByClass(ab(args[3]), boardID(args[4]), ai(args[5][0]) != 0)
				if err != nil {
					return errs(1)
				}
				return ok(oi(int64(idx)))
			case 4:
				idx, err := cache.FindBoardAutoCompleteStartIdx(ab(args[3]), ai(args[4][0]) != 0)
				if err != nil {
					return errs(1)
				}
				return ok(oi(int64(idx)))
			case 5, 6, 7:
				var kw string
				p := args[3]
				if op == 6 {
					kw = string(ab(args[3]))
					p = args[4]
				}
				k, asc := int(ai(p[0])), ai(p[1]) != 0
				visited := []string{}
				pages := int64(0)
				cursor := ""
				for iter := 0; iter < 2*nBoards+3; iter++ {
					var ss []*bbs.BoardSummary
					var next string
					var err error
					if op == 5 {
						ss, next, err = bbs.LoadGeneralBoards(bbs.UUserID("SYSOP"), cursor, k, nil, nil, asc, ptttype.BSORT_BY_NAME)
					} else if op == 7 {
						ss, next, err = bbs.LoadGeneralBoards(bbs.UUserID("SYSOP"), cursor, k, nil, nil, asc, ptttype.BSORT_BY_CLASS)
					} else {
						ss, next, err = bbs.LoadAutoCompleteBoards(bbs.UUserID("SYSOP"), cursor, k, kw, asc)
					}
					if err != nil {
						return append([]string{"3", "1", oi(pages)}, visited...)
					}
					pages++
					for _, s := range ss {
						if op == 7 {
							visited = append(visited, oi(posByClass(s.Brdname)))
						} else {
							visited = append(visited, oi(posByName(s.Brdname)))
						}
					}
					if next == "" {
						return append([]string{"0", oi(pages)}, visited...)
					}
					cursor = next
				}
				return []string{"2"}
			}
			return []string{"9"}
		},
	})
}
