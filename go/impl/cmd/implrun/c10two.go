package main

// C10, op 5 — two boards in one process. WhoAmI (bid 10) and SYSOP (bid 1) each get a planted .DIR in which EVERY entry
// has an article file; the two indexes may hold the same article file name at different positions. The steps are
// ptt.Recommend calls addressed to (board, position of the entry in that board's index), issued back to back in this
// process. Before and after every step all article files and both indexes are read straight from the disk (no look-up
// through the code under test), and a clock-free digest is printed per accepted step:
//     0 <type whose mark the returned line carries> <score of the addressed entry before> <after>
//       <the addressed article of the addressed board grew by exactly the returned line>
//       <other article files of the same board changed> <article files of the OTHER board changed>
//       <offsets of the board's .DIR changed outside Modified/Recommend of the addressed entry> <the OTHER board's .DIR changed>
//       <Modified of the addressed entry = returned mtime = the article file's own mtime>
// refused/failed step: 3 <code> <anything changed on the disk>
//
// groups: [5] | .DIR of WhoAmI | .DIR of SYSOP | ip | user id | [nA nB] | nA article files | nB article files | steps [board, position, type, text...]

import (
	"bytes"
	"encoding/binary"
	"os"
	"path/filepath"
	"strconv"

	"github.com/Ptt-official-app/go-pttbbs/cache"
	"github.com/Ptt-official-app/go-pttbbs/ptt"
	"github.com/Ptt-official-app/go-pttbbs/ptttype"
)

var (
	c10Bid2      = ptttype.Bid(1)
	c10BoardID2  = &ptttype.BoardID_t{'S', 'Y', 'S', 'O', 'P'}
	c10Orig2Set  bool
	c10OrigAttr2 ptttype.BrdAttr
)

func c10RunTwoBoards(args [][]string) []string {
	if len(args) < 6 || len(args[5]) != 2 {
		return []string{"9"}
	}
	dirs := [2][]byte{ab(args[1]), ab(args[2])}
	ip, uid := ab(args[3]), ab(args[4])
	n := [2]int{int(ai(args[5][0])), int(ai(args[5][1]))}
	for b := 0; b < 2; b++ {
		if n[b] < 1 || n[b] > 16 || len(dirs[b]) != 128*n[b] {
			return []string{"9"}
		}
	}
	if len(args) < 6+n[0]+n[1] {
		return []string{"9"}
	}
	var arts [2][][]byte
	for j := 0; j < n[0]; j++ {
		arts[0] = append(arts[0], ab(args[6+j]))
	}
	for j := 0; j < n[1]; j++ {
		arts[1] = append(arts[1], ab(args[6+n[0]+j]))
	}
	steps := args[6+n[0]+n[1]:]
	for _, g := range steps {
		if len(g) < 3 || ai(g[0]) < 0 || ai(g[0]) > 1 || ai(g[1]) < 0 || int(ai(g[1])) >= n[ai(g[0])] {
			return []string{"9"}
		}
	}

	boardDirs := [2]string{c10BoardDir, filepath.Join(c10Env.home, "boards", "S", "SYSOP")}
	bids := [2]ptttype.Bid{c10Bid, c10Bid2}
	boardIDs := [2]*ptttype.BoardID_t{c10BoardID, c10BoardID2}
	clear := ptttype.BRD_ALIGNEDCMT | ptttype.BRD_IPLOGRECMD | ptttype.BRD_NORECOMMEND | ptttype.BRD_NOBOO | ptttype.BRD_NOFASTRECMD
	var names [2][]*ptttype.Filename_t
	var artPaths [2][]string
	var dirPaths [2]string
	for b := 0; b < 2; b++ {
		must(os.MkdirAll(boardDirs[b], 0o755))
		ents, _ := os.ReadDir(boardDirs[b])
		for _, e := range ents {
			os.RemoveAll(filepath.Join(boardDirs[b], e.Name()))
		}
		dirPaths[b] = filepath.Join(boardDirs[b], ".DIR")
		must(os.WriteFile(dirPaths[b], dirs[b], 0o644))
		for j := 0; j < n[b]; j++ {
			fn := &ptttype.Filename_t{}
			copy(fn[:], dirs[b][j*128:j*128+28])
			names[b] = append(names[b], fn)
			p := filepath.Join(boardDirs[b], fn.String())
			artPaths[b] = append(artPaths[b], p)
			must(os.WriteFile(p, arts[b][j], 0o644))
		}
		board, err := cache.GetBCache(bids[b])
		must(err)
		if b == 0 {
			board.BrdAttr = c10OrigAttr &^ clear
			board.FastRecommendPause = c10OrigPause
		} else {
			if !c10Orig2Set {
				c10Orig2Set, c10OrigAttr2 = true, board.BrdAttr
			}
			board.BrdAttr = c10OrigAttr2 &^ clear
		}
		must(cache.SetBTotal(bids[b]))
	}
	user := c10User(uid)
	user.UserLevel |= ptttype.PERM_SYSOP // the SYSOP board is not open to everybody; permissions are C07/C08's subject
	ipRaw := &ptttype.IPv4_t{}
	copy(ipRaw[:], ip)

	type snap struct {
		files [2][][]byte
		dirs  [2][]byte
	}
	take := func() *snap {
		s := &snap{}
		for b := 0; b < 2; b++ {
			s.dirs[b], _ = os.ReadFile(dirPaths[b])
			for j := 0; j < n[b]; j++ {
				f, _ := os.ReadFile(artPaths[b][j])
				s.files[b] = append(s.files[b], f)
			}
		}
		return s
	}
	changed := func(s0, s1 *snap, b, except int) int {
		k := 0
		for j := 0; j < n[b]; j++ {
			if j != except && !bytes.Equal(s0.files[b][j], s1.files[b][j]) {
				k++
			}
		}
		return k
	}
	scoreAt := func(dir []byte, j int) int64 {
		if j*128+34 > len(dir) {
			return -999
		}
		return int64(int8(dir[j*128+33]))
	}

	out := []string{"0", strconv.Itoa(len(steps))}
	for _, g := range steps {
		b, j := int(ai(g[0])), int(ai(g[1]))
		o := 1 - b
		ct := ptttype.CommentType(uint8(ai(g[2])))
		content := ab(g[3:])
		s0 := take()
		line, mtime, err := ptt.Recommend(user, 2, boardIDs[b], bids[b], names[b][j], ct, content, ipRaw, nil)
		s1 := take()
		othersSame, othersOther := changed(s0, s1, b, j), changed(s0, s1, o, -1)
		otherDir := !bytes.Equal(s0.dirs[o], s1.dirs[o])
		if err != nil {
			any := othersSame+othersOther > 0 || otherDir || !bytes.Equal(s0.dirs[b], s1.dirs[b]) || !bytes.Equal(s0.files[b][j], s1.files[b][j])
			out = append(out, "3", strconv.Itoa(c10ErrCode(err)), obool(any))
			continue
		}
		f0, f1 := s0.files[b][j], s1.files[b][j]
		exact := len(f1) >= len(f0) && bytes.Equal(f1[:len(f0)], f0) && bytes.Equal(f1[len(f0):], line)
		outside := 0
		if len(s0.dirs[b]) != len(s1.dirs[b]) {
			outside = 1
		} else {
			base := j * 128
			for i := range s1.dirs[b] {
				if s1.dirs[b][i] != s0.dirs[b][i] && !((i >= base+28 && i < base+32) || i == base+33) {
					outside++
				}
			}
		}
		fmtime := c10FileMtime(artPaths[b][j])
		stamped := false
		if j*128+32 <= len(s1.dirs[b]) {
			stamped = int64(int32(binary.LittleEndian.Uint32(s1.dirs[b][j*128+28:j*128+32]))) == fmtime && int64(mtime) == fmtime
		}
		out = append(out, "0", strconv.Itoa(c10MarkType(line)), oi(scoreAt(s0.dirs[b], j)), oi(scoreAt(s1.dirs[b], j)), obool(exact),
			strconv.Itoa(othersSame), strconv.Itoa(othersOther), strconv.Itoa(outside), obool(otherDir), obool(stamped))
	}
	return out
}
