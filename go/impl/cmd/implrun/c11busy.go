package main

// C11, op 12: lookups while a WRITER IS STOPPED INSIDE ITS CRITICAL SECTION, and lookups by several goroutines at once.
//
// cache.ReloadBCache / SortBCache set Shm.BBusyState around their work. A reader (getBidByNameCore / getBidByClassCore, hence GetBid,
// FindBoardIdxByName, FindBoardIdxByClass, FindBoardAutoCompleteStartIdx and the listings' cursors) that finds the flag set waits one
// second and then searches. The flag can stay set for longer than that second: a writer of another process that is slow, or one that
// was killed there - the flag then stays behind in the shared memory for the next server run (nothing clears it unless the segment is
// new). In both situations of this op the board table and both indexes are whole (the writer has not touched them), so every lookup
// has to equal the scan of the table.
//
//	12|tail n (13 name bytes, 5 title bytes)*n|v G R|obs|obs|...
//
// obs = the lookup steps of c11hist.go:  5 q... | 6 len cls... q... | 7 k asc by
//
// In fresh driver state: .BRD = n records (+ tail bytes), cache.ReloadBCache, then
//
//	phase A  every observation, one call after the other, nobody writing                         (one record per observation)
//	stall    Shm.BBusyState = v: a writer stopped inside its critical section, table whole       (one record)
//	phase B  every call of every observation in a goroutine of its own, all at once, the flag
//	         set all the time (each waits its second; nothing here depends on how long it takes)  (one record per observation)
//	release  Shm.BBusyState = 0                                                                   (one record)
//	phase C  G goroutines, each R rounds over all cache.* calls of the observations (kinds 5, 6),
//	         nobody writing: number of answers that differ from phase A, and the first of them    (one record: mism obs call value)
//
// Result: status 0, then length-prefixed records  len err busy busyB n frecs payload...  as in c11hist.go. A call that panics is -101.

import (
	"bytes"
	"encoding/binary"
	"os"
	"path/filepath"
	"sync"

	"github.com/Ptt-official-app/go-pttbbs/bbs"
	"github.com/Ptt-official-app/go-pttbbs/cache"
	"github.com/Ptt-official-app/go-pttbbs/ptttype"
	"github.com/Ptt-official-app/go-pttbbs/types"
)

// one observation = some calls; each call yields numbers; errc (walks only) is the error class of the record
type c11Obs struct {
	calls []func() []string
	walk  bool
}

func c11Guard(f func() []string) func() []string {
	return func() (out []string) {
		defer func() {
			if r := recover(); r != nil {
				out = []string{"-101"}
			}
		}()
		return f()
	}
}

func c11StalledWriter(env *bbsEnv, args [][]string) []string {
	if len(args) < 2 || len(args[0]) < 2 || len(args[1]) != 3 {
		panic("badcase:op12")
	}
	brd := filepath.Join(env.home, ".BRD")
	_ = os.Remove(brd)
	env.reload(false)
	defer func() {
		cache.Shm.Shm.BBusyState = 0
		_ = os.Remove(brd)
		env.reload(false)
	}()

	tail, n := int(ai(args[0][0])), int(ai(args[0][1]))
	data := ab(args[0][2:])
	if len(data) != 18*n {
		panic("badcase:install")
	}
	v, G, R := int32(ai(args[1][0])), int(ai(args[1][1])), int(ai(args[1][2]))
	buf := &bytes.Buffer{}
	for i := 0; i < n; i++ {
		must(binary.Write(buf, binary.LittleEndian, c11Rec(data[18*i:18*i+18])))
	}
	for i := 0; i < tail; i++ {
		buf.WriteByte('z')
	}
	must(os.WriteFile(brd, buf.Bytes(), 0o644))
	cache.ReloadBCache()

	nB := func() int {
		n := int(cache.Shm.GetBNumber())
		if n < 0 {
			n = 0
		}
		if n > ptttype.MAX_BOARD {
			n = ptttype.MAX_BOARD
		}
		return n
	}
	pos := func(by ptttype.BSortBy, name string) int64 {
		for i := 0; i < nB(); i++ {
			b := cache.Shm.Shm.BSorted[by][i]
			if b >= 0 && int(b) < ptttype.MAX_BOARD && types.CstrToString(cache.Shm.Shm.BCache[b].Brdname[:]) == name {
				return int64(i + 1)
			}
		}
		return -99
	}
	id := func(b []byte) *ptttype.BoardID_t {
		x := &ptttype.BoardID_t{}
		copy(x[:], b)
		return x
	}
	sidx := func(idx ptttype.SortIdx, err error) []string {
		if err != nil {
			return []string{"-100"}
		}
		return []string{oi(int64(idx))}
	}

	obs := []*c11Obs{}
	for _, st := range args[2:] {
		if len(st) == 0 {
			panic("badcase:obs")
		}
		o := &c11Obs{}
		switch ai(st[0]) {
		case 5:
			q := ab(st[1:])
			o.calls = append(o.calls, func() []string {
				b, err := cache.GetBid(id(q))
				if err != nil {
					return []string{"-100"}
				}
				return []string{oi(int64(b))}
			})
			for _, asc := range []bool{true, false} {
				asc := asc
				o.calls = append(o.calls, func() []string { return sidx(cache.FindBoardIdxByName(id(q), asc)) })
			}
			for _, asc := range []bool{true, false} {
				asc := asc
				o.calls = append(o.calls, func() []string { return sidx(cache.FindBoardAutoCompleteStartIdx(append([]byte{}, q...), asc)) })
			}
		case 6:
			l := int(ai(st[1]))
			cls, q := ab(st[2:2+l]), ab(st[2+l:])
			for _, asc := range []bool{true, false} {
				asc := asc
				o.calls = append(o.calls, func() []string { return sidx(cache.FindBoardIdxByClass(append([]byte{}, cls...), id(q), asc)) })
			}
		case 7:
			k, asc := int(ai(st[1])), ai(st[2]) != 0
			by := ptttype.BSORT_BY_NAME
			if ai(st[3]) != 0 {
				by = ptttype.BSORT_BY_CLASS
			}
			o.walk = true
			// first number: error class of the record (0, 6 a listing returned an error, 7 not over after 2n+3 pages)
			o.calls = append(o.calls, func() []string {
				visited := []string{}
				pages := int64(0)
				cursor := ""
				nb := nB()
				for iter := 0; iter < 2*nb+3; iter++ {
					ss, next, err := bbs.LoadGeneralBoards(bbs.UUserID("SYSOP"), cursor, k, nil, nil, asc, by)
					if err != nil {
						return append([]string{"6", oi(pages)}, visited...)
					}
					pages++
					for _, s := range ss {
						visited = append(visited, oi(pos(by, s.Brdname)))
					}
					if next == "" {
						return append([]string{"0", oi(pages)}, visited...)
					}
					cursor = next
				}
				return append([]string{"7", oi(pages)}, visited...)
			})
		default:
			panic("badcase:obs-kind")
		}
		for i := range o.calls {
			o.calls[i] = c11Guard(o.calls[i])
		}
		obs = append(obs, o)
	}

	out := []string{"0"}
	emit := func(errc int64, payload []string) {
		frecs := int64(-1)
		if fi, err := os.Stat(brd); err == nil {
			frecs = fi.Size() / int64(ptttype.BOARD_HEADER_RAW_SZ)
		}
		rec := append([]string{oi(errc), oi(int64(cache.Shm.Shm.BBusyState)), oi(c11BusyB()), oi(int64(cache.Shm.GetBNumber())), oi(frecs)}, payload...)
		out = append(out, oi(int64(len(rec))))
		out = append(out, rec...)
	}
	emitObs := func(res [][][]string) {
		for i, o := range obs {
			errc := int64(0)
			payload := []string{}
			for j := range o.calls {
				r := res[i][j]
				if o.walk {
					if r[0] == "-101" {
						errc = 6
						r = []string{"6"}
					} else {
						errc = ai(r[0])
					}
					r = r[1:]
				}
				payload = append(payload, r...)
			}
			emit(errc, payload)
		}
	}
	newRes := func() [][][]string {
		res := make([][][]string, len(obs))
		for i, o := range obs {
			res[i] = make([][]string, len(o.calls))
		}
		return res
	}

	emit(0, nil) // after the load

	// phase A: one call after the other, nobody writing
	resA := newRes()
	if cache.Shm.Shm.BBusyState == 0 { // (a tree whose load leaves the flag set is reported by the histories; do not sleep on it here)
		for i, o := range obs {
			for j, f := range o.calls {
				resA[i][j] = f()
			}
		}
	} else {
		for i, o := range obs {
			for j := range o.calls {
				resA[i][j] = []string{"-7"}
				if o.walk {
					resA[i][j] = []string{"0", "-7"}
				}
			}
		}
	}
	emitObs(resA)

	// stall: a writer stopped inside its critical section; the table and both indexes are whole
	cache.Shm.Shm.BBusyState = v
	emit(0, nil)

	// phase B: all calls at once, the flag set all the time
	resB := newRes()
	var wg sync.WaitGroup
	for i, o := range obs {
		for j, f := range o.calls {
			wg.Add(1)
			go func(i, j int, f func() []string) {
				defer wg.Done()
				resB[i][j] = f()
			}(i, j, f)
		}
	}
	wg.Wait()
	emitObs(resB)

	// release
	cache.Shm.Shm.BBusyState = 0
	emit(0, nil)

	// phase C: G goroutines x R rounds over the cache.* calls, nobody writing; every answer must be the one of phase A
	type miss struct {
		n          int64
		obs, call  int
		val        string
		firstRound int
	}
	misses := make([]miss, G)
	for g := 0; g < G; g++ {
		wg.Add(1)
		go func(g int) {
			defer wg.Done()
			m := &misses[g]
			m.obs, m.call = -1, -1
			for r := 0; r < R; r++ {
				for i := range obs {
					// each goroutine starts at another observation, so that different keys are compared at the same time
					ii := (i + g) % len(obs)
					o := obs[ii]
					if o.walk {
						continue
					}
					for j, f := range o.calls {
						got := f()
						if len(got) != 1 || len(resA[ii][j]) != 1 || got[0] != resA[ii][j][0] {
							if m.n == 0 {
								m.obs, m.call, m.val, m.firstRound = ii, j, got[0], r
							}
							m.n++
						}
					}
				}
			}
		}(g)
	}
	wg.Wait()
	total := int64(0)
	first := miss{obs: -1, call: -1, val: "0"}
	for g := G - 1; g >= 0; g-- {
		total += misses[g].n
		if misses[g].n > 0 {
			first = misses[g]
		}
	}
	emit(0, []string{oi(total), oi(int64(first.obs)), oi(int64(first.call)), first.val})
	return out
}
