package main

// C10, ops 2 and 3 — a board session: a planted .DIR with SEVERAL commentable articles, SEVERAL commenters
// (different user ids and uid numbers, optionally with PERM_SYSOP), every combination of the comment-related
// board attributes (BRD_ALIGNEDCMT, BRD_IPLOGRECMD, BRD_NORECOMMEND, BRD_NOBOO, BRD_NOFASTRECMD) and the
// board's FastRecommendPause, and a history of ptt.Recommend calls issued back to back (in quick succession).
// After every step ALL article files and the .DIR are compared byte for byte with their content before it.
//
// op 2 prints the full observation (for the correspondence with the model and the byte predicates);
// op 3 prints a digest that does not contain the clock: per accepted step
//     0 <type whose mark the appended line carries, 9 = none of them> <score before> <score after>
//       <the addressed article grew by exactly the returned line> <other article files changed> <.DIR offsets changed outside Modified/Recommend of the entry>
//       <Modified of the entry and the returned mtime are the article file's own modification time>
// so a replay file can carry the expected digest and `./check C10 --replay` gives a verdict.
//
// groups: [op] | [align iplog norec noboo nofast pause] | .DIR | ip | [k nu] | k names (28 bytes) | k article files |
//         nu users [uid number, sysop, id bytes...] | steps [user, article, type, text...] ... | [99] | observations (model only)

import (
	"bytes"
	"encoding/binary"
	"os"
	"path/filepath"
	"strconv"

	"github.com/Ptt-official-app/go-pttbbs/cache"
	"github.com/Ptt-official-app/go-pttbbs/cmsys"
	"github.com/Ptt-official-app/go-pttbbs/ptt"
	"github.com/Ptt-official-app/go-pttbbs/ptttype"
)

type c10Commenter struct {
	user *ptttype.UserecRaw
	uid  ptttype.UID
}

// the type marks are spelled out here (not taken from CommentType.Bytes()): the digest is a reference of its own
var c10Marks = map[int][]byte{1: []byte("\x1b[1;37m\xb1\xc0 "), 2: []byte("\x1b[1;31m\xbcN "), 3: []byte("\x1b[1;31m\xa1\xf7 ")}

func c10MarkType(line []byte) int {
	for ct := 1; ct <= 3; ct++ {
		if bytes.HasPrefix(line, c10Marks[ct]) {
			return ct
		}
	}
	if bytes.HasPrefix(line, []byte(" \x1b[33m")) {
		return 0 // a type without a mark
	}
	return 9
}

func c10RunBoard(args [][]string, digest bool) []string {
	if len(args) < 5 || len(args[1]) != 6 || len(args[4]) != 2 {
		return []string{"9"}
	}
	flags := args[1]
	dir, ip := ab(args[2]), ab(args[3])
	k, nu := int(ai(args[4][0])), int(ai(args[4][1]))
	if k < 1 || nu < 1 || k > 16 || nu > 16 || len(args) < 5+2*k+nu {
		return []string{"9"}
	}
	pause := ai(flags[5])
	if pause < 0 || pause > 255 {
		return []string{"9"}
	}
	names := make([]*ptttype.Filename_t, k)
	arts := make([][]byte, k)
	for j := 0; j < k; j++ {
		names[j] = &ptttype.Filename_t{}
		copy(names[j][:], ab(args[5+j]))
		arts[j] = ab(args[5+k+j])
	}
	users := make([]c10Commenter, nu)
	for j := 0; j < nu; j++ {
		g := args[5+2*k+j]
		if len(g) < 3 {
			return []string{"9"}
		}
		u := c10User(ab(g[2:]))
		if ai(g[1]) != 0 {
			u.UserLevel |= ptttype.PERM_SYSOP
		}
		users[j] = c10Commenter{user: u, uid: ptttype.UID(ai(g[0]))}
	}
	var steps [][]string
	for _, g := range args[5+2*k+nu:] {
		if len(g) == 1 && g[0] == "99" {
			break
		}
		if len(g) < 3 || ai(g[0]) < 0 || int(ai(g[0])) >= nu || ai(g[1]) < 0 || int(ai(g[1])) >= k {
			return []string{"9"}
		}
		steps = append(steps, g)
	}

	// plant the board
	ents, _ := os.ReadDir(c10BoardDir)
	for _, e := range ents {
		os.RemoveAll(filepath.Join(c10BoardDir, e.Name()))
	}
	dirPath := filepath.Join(c10BoardDir, ".DIR")
	must(os.WriteFile(dirPath, dir, 0o644))
	artPaths := make([]string, k)
	for j := 0; j < k; j++ {
		artPaths[j] = filepath.Join(c10BoardDir, names[j].String())
		must(os.WriteFile(artPaths[j], arts[j], 0o644))
	}
	board, err := cache.GetBCache(c10Bid)
	must(err)
	all := []ptttype.BrdAttr{ptttype.BRD_ALIGNEDCMT, ptttype.BRD_IPLOGRECMD, ptttype.BRD_NORECOMMEND, ptttype.BRD_NOBOO, ptttype.BRD_NOFASTRECMD}
	attr := c10OrigAttr
	for j, a := range all {
		attr &^= a
		if ai(flags[j]) != 0 {
			attr |= a
		}
	}
	board.BrdAttr = attr
	board.FastRecommendPause = uint8(pause)
	must(cache.SetBTotal(c10Bid))
	ipRaw := &ptttype.IPv4_t{}
	copy(ipRaw[:], ip)

	readAll := func() [][]byte {
		out := make([][]byte, k)
		for j := range out {
			out[j], _ = os.ReadFile(artPaths[j])
		}
		return out
	}
	scoreOf := func(fn *ptttype.Filename_t) int64 {
		total, _ := cache.GetBTotalWithRetry(c10Bid)
		_, fhdr, err := cmsys.GetRecord(dirPath, fn, int(total))
		if err != nil {
			return -999
		}
		return int64(fhdr.Recommend)
	}

	out := []string{"0", strconv.Itoa(len(steps))}
	for _, g := range steps {
		who := users[ai(g[0])]
		a := int(ai(g[1]))
		ct := ptttype.CommentType(uint8(ai(g[2])))
		content := ab(g[3:])
		dir0, _ := os.ReadFile(dirPath)
		arts0 := readAll()
		before := scoreOf(names[a])
		line, mtime, err := ptt.Recommend(who.user, who.uid, c10BoardID, c10Bid, names[a], ct, content, ipRaw, nil)
		dir1, _ := os.ReadFile(dirPath)
		arts1 := readAll()
		others := 0
		for j := 0; j < k; j++ {
			if j != a && !bytes.Equal(arts0[j], arts1[j]) {
				others++
			}
		}
		if err != nil {
			out = append(out, "3", strconv.Itoa(c10ErrCode(err)), obool(others > 0 || !bytes.Equal(arts0[a], arts1[a])), obool(!bytes.Equal(dir0, dir1)))
			continue
		}
		grew := len(arts1[a]) >= len(arts0[a]) && bytes.Equal(arts1[a][:len(arts0[a])], arts0[a])
		var diff []string
		outside := 0
		if len(dir1) != len(dir0) {
			diff = []string{"-1", strconv.Itoa(len(dir1))}
			outside = 1
		} else {
			// the addressed entry, located in the index as it was BEFORE the step
			base := -1
			for e := 0; e+128 <= len(dir0); e += 128 {
				if bytes.Equal(dir0[e:e+28], names[a][:28]) {
					base = e
				}
			}
			for i := range dir1 {
				if dir1[i] != dir0[i] {
					diff = append(diff, strconv.Itoa(i), strconv.Itoa(int(dir1[i])))
					if base < 0 || !((i >= base+28 && i < base+32) || i == base+33) {
						outside++
					}
				}
			}
		}
		after := scoreOf(names[a])
		fmtime := c10FileMtime(artPaths[a])
		if digest {
			exact := grew && bytes.Equal(arts1[a][len(arts0[a]):], line)
			// the entry's Modified (in the index as it is now) and the returned mtime are the article file's own mtime
			stamped := false
			for e := 0; e+128 <= len(dir1); e += 128 {
				if bytes.Equal(dir1[e:e+28], names[a][:28]) {
					stamped = int64(int32(binary.LittleEndian.Uint32(dir1[e+28:e+32]))) == fmtime && int64(mtime) == fmtime
				}
			}
			out = append(out, "0", strconv.Itoa(c10MarkType(line)), oi(before), oi(after), obool(exact), strconv.Itoa(others), strconv.Itoa(outside), obool(stamped))
			continue
		}
		out = append(out, "0", strconv.Itoa(len(line)))
		out = append(out, ob(line)...)
		out = append(out, oi(int64(mtime)))
		if grew {
			out = append(out, "1", strconv.Itoa(len(arts1[a])-len(arts0[a])))
			out = append(out, ob(arts1[a][len(arts0[a]):])...)
		} else {
			out = append(out, "0", "0")
		}
		out = append(out, strconv.Itoa(len(diff)/2))
		out = append(out, diff...)
		out = append(out, oi(after), oi(fmtime), strconv.Itoa(others))
	}
	return out
}
