package main

// C19, op 10 — Saves of DIFFERENT users by several goroutines of one process at the same time (as concurrent requests do):
//
//	10 rounds | 81 u 0 0 0 0 0 | script groups ... | 81 u' 0 ... | script ... (at most one step per user)
//
// First every user's tree is saved alone and its .fav read (the sequential image). Then one goroutine per user rebuilds its
// tree and saves it `rounds` times, all goroutines at once; after each Save the goroutine reads its own .fav: it must be the
// sequential image. result: 0, number of differing images, user and round of the first, its length. No clock decides anything.

import (
	"bytes"
	"os"
	"path/filepath"
	"runtime"
	"strconv"
	"sync"
	"time"

	"github.com/Ptt-official-app/go-pttbbs/ptt/fav"
	"github.com/Ptt-official-app/go-pttbbs/types"
)

func c19RunConc(args [][]string) []string {
	rounds := int(ai(args[0][1]))
	var steps []*c19SeqStep
	for _, g := range args[1:] {
		if len(g) > 0 && g[0] == "81" {
			if len(g) < 7 {
				panic("badcase:hdr")
			}
			steps = append(steps, &c19SeqStep{hdr: g[1:]})
			continue
		}
		if len(steps) == 0 {
			panic("badcase:script before the first step")
		}
		steps[len(steps)-1].script = append(steps[len(steps)-1].script, g)
	}
	nu := int64(len(c19SeqNames))
	seen := map[int64]bool{}
	for _, st := range steps {
		u := ai(st.hdr[0])
		if u < 0 || u >= nu || ai(st.hdr[1]) != 0 || seen[u] {
			panic("badcase:hdr")
		}
		seen[u] = true
	}
	os.RemoveAll(filepath.Join(c19Root, "home", "s"))
	for u := int64(0); u < nu; u++ {
		must(os.MkdirAll(c19SeqDir(u), 0o755))
	}
	defer os.RemoveAll(filepath.Join(c19Root, "home", "s"))
	saveOnce := func(st *c19SeqStep) ([]byte, error) {
		u := ai(st.hdr[0])
		f, _ := c19Build(st.script)
		f.MTime = types.Time4(c19T0 + 1)
		if _, err := f.Save(c19SeqUID(u)); err != nil {
			return nil, err
		}
		p := filepath.Join(c19SeqDir(u), fav.FAV)
		b, err := os.ReadFile(p)
		if err != nil {
			return nil, err
		}
		t := time.Unix(c19T0, 0)
		must(os.Chtimes(p, t, t))
		return b, nil
	}
	want := make([][]byte, len(steps))
	for i, st := range steps {
		b, err := saveOnce(st)
		if err != nil {
			return []string{"3", strconv.Itoa(c19ErrCode(err))}
		}
		want[i] = b
	}
	if runtime.GOMAXPROCS(0) < 4 {
		runtime.GOMAXPROCS(4)
	}
	var mu sync.Mutex
	diff, firstU, firstR, firstLen := 0, int64(-1), -1, -1
	start := make(chan struct{})
	var wg sync.WaitGroup
	for i, st := range steps {
		wg.Add(1)
		go func(i int, st *c19SeqStep) {
			defer wg.Done()
			<-start
			for r := 0; r < rounds; r++ {
				b, err := saveOnce(st)
				if err != nil || !bytes.Equal(b, want[i]) {
					mu.Lock()
					diff++
					if firstU < 0 {
						firstU, firstR, firstLen = ai(st.hdr[0]), r, len(b)
						if err != nil {
							firstLen = -1
						}
					}
					mu.Unlock()
				}
			}
		}(i, st)
	}
	close(start)
	wg.Wait()
	return []string{"0", strconv.Itoa(diff), oi(firstU), strconv.Itoa(firstR), strconv.Itoa(firstLen)}
}
