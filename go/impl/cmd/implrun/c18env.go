package main

import (
	"runtime"
	"strings"
	"sync"
)

// C18, the surroundings a helper is called in (the helpers themselves are in c18.go).
//
// op 28: a helper called on buf[:n] of a LARGER buffer (len < cap) whose bytes behind the input are not zero.
//   28 | iop | n1 n2 ... | group1 | group2 | ...
//   groupK holds the WHOLE buffer; with nK >= 0 the helper gets buffer[:nK] (capacity = the whole buffer), with
//   nK < 0 (or no nK) the group is passed on as it is (a flag, a position, a start value).
//   answer: 0 L <the L numbers the inner operation iop answers on the inputs alone> <buffer1[n1:]> <buffer2[n2:]> ...
//           (the bytes behind every input AFTER the call); a crash / bad case of the inner operation is passed on.
//
// op 29: helpers called by G goroutines of this one process at the same time.
//   29 | G rounds | k1 iop1 | k1 groups | k2 iop2 | k2 groups | ...
//   case j (0-based) belongs to goroutine j mod G; all goroutines start together and run their cases `rounds`
//   times, with fresh exact-capacity arguments every time. Every DISTINCT answer a case gave is kept (at most 4).
//   answer: 0 ncases then per case: d then d times (L <L numbers>). d = 1 on a code whose calls do not share state.
//   The number of rounds is fixed by the case, no clock is read; a panic in any goroutine is a crash of the case.

func c18window(args [][]string) []string {
	if len(args) < 3 || len(args[1]) != 1 {
		return []string{"9"}
	}
	iop := ai(args[1][0])
	if iop < 1 || iop > 27 {
		return []string{"9"}
	}
	groups := args[3:]
	if len(args[2]) > len(groups) {
		return []string{"9"}
	}
	type win struct {
		n   int
		buf []byte
	}
	wins := map[*string]*win{}
	for i, t := range args[2] {
		n := ai(t)
		if n < 0 {
			continue
		}
		if n > int64(len(groups[i])) {
			return []string{"9"}
		}
		w := &win{n: int(n)}
		if len(groups[i]) > 0 {
			wins[&groups[i][0]] = w
		}
	}
	mk := func(toks []string) []byte {
		if len(toks) > 0 {
			if w, ok := wins[&toks[0]]; ok {
				w.buf = ab(toks)
				return w.buf[:w.n] // len n, cap = the whole buffer, dirty behind n
			}
		}
		return ab(toks)
	}
	inner := c18run(append([][]string{args[1]}, groups...), mk)
	if len(inner) == 0 || inner[0] != "0" {
		return inner
	}
	out := append([]string{"0", oi(int64(len(inner)))}, inner...)
	for i, t := range args[2] {
		if ai(t) < 0 {
			continue
		}
		var w *win
		if len(groups[i]) > 0 {
			w = wins[&groups[i][0]]
		}
		if w == nil || w.buf == nil { // a group the inner operation never turned into bytes: its tail as given
			out = append(out, groups[i][ai(t):]...)
			continue
		}
		out = append(out, ob(w.buf[w.n:])...)
	}
	return out
}

func c18conc(args [][]string) []string {
	if len(args) < 2 || len(args[1]) != 2 {
		return []string{"9"}
	}
	g, rounds := int(ai(args[1][0])), int(ai(args[1][1]))
	if g < 1 || g > 64 || rounds < 1 {
		return []string{"9"}
	}
	var cases [][][]string
	for i := 2; i < len(args); {
		if len(args[i]) != 2 {
			return []string{"9"}
		}
		k, iop := ai(args[i][0]), ai(args[i][1])
		if k < 0 || int64(len(args)-i-1) < k {
			return []string{"9"}
		}
		if iop < 1 || iop > 27 {
			cases = append(cases, nil) // answers 9 like the operation itself would
		} else {
			cases = append(cases, append([][]string{{args[i][1]}}, args[i+1:i+1+int(k)]...))
		}
		i += 1 + int(k)
	}
	// the goroutines must be able to run on several threads whatever the environment says
	if old := runtime.GOMAXPROCS(0); old < 4 {
		defer runtime.GOMAXPROCS(runtime.GOMAXPROCS(4))
	}
	seen := make([][]string, len(cases)) // distinct answers per case, each joined by blanks; owned by one goroutine
	var panicked interface{}
	var mu sync.Mutex
	var wg sync.WaitGroup
	start := make(chan struct{})
	for w := 0; w < g; w++ {
		wg.Add(1)
		go func(w int) {
			defer wg.Done()
			defer func() {
				if r := recover(); r != nil {
					mu.Lock()
					panicked = r
					mu.Unlock()
				}
			}()
			// the arguments are parsed once per goroutine; every call gets fresh exact-capacity copies
			cache := map[*string][]byte{}
			mk := func(toks []string) []byte {
				if len(toks) == 0 {
					return ab(toks)
				}
				src, ok := cache[&toks[0]]
				if !ok {
					src = ab(toks)
					cache[&toks[0]] = src
				}
				b := make([]byte, len(src))
				copy(b, src)
				return b[:len(b):len(b)]
			}
			<-start
			for r := 0; r < rounds; r++ {
				for j := w; j < len(cases); j += g {
					var res string
					if cases[j] == nil {
						res = "9"
					} else {
						res = strings.Join(c18run(cases[j], mk), " ")
					}
					known := false
					for _, s := range seen[j] {
						if s == res {
							known = true
							break
						}
					}
					if !known && len(seen[j]) < 4 {
						seen[j] = append(seen[j], res)
					}
				}
			}
		}(w)
	}
	close(start)
	wg.Wait()
	if panicked != nil {
		panic(panicked)
	}
	out := []string{"0", oi(int64(len(cases)))}
	for _, s := range seen {
		out = append(out, oi(int64(len(s))))
		for _, one := range s {
			f := strings.Fields(one)
			out = append(out, oi(int64(len(f))))
			out = append(out, f...)
		}
	}
	return out
}
