//go:build !docker

package main

// C07: which build configuration of the repository this driver was compiled with (ptttype/00-config-default.go).
const c07BuildCfg = 0
