package main

import (
	"os"
	"path/filepath"
	"strconv"

	"github.com/Ptt-official-app/go-pttbbs/types"
	"github.com/spf13/viper"
)

// C17, the whole start-up (op 12; fresh process only, VERIF_C17_FRESH=1):
//
//	12 | tz1 pb1 pu1 tz2 pb2 pu2 ... | dir bytes... | dir bytes... | ...
//
// As op 10 (c17init.go), but an attempt also says what the configuration gives for TIME_LOCATION, and the
// configured table paths may be symbolic links the driver creates in a scratch directory.
//
// tz: 0 "UTC", 1 "Local" (both load on a host without a zoneinfo database), 2 "Asia/NoSuchCity" (what
// time.LoadLocation answers for any zone when the host has no database: unknown time zone), 3 "../UTC" (a name
// LoadLocation rejects).
// pb / pu: 0 the real file, 1 missing file, 2 a directory, 3 empty string (as op 10); 4 a symbolic link with an
// absolute target, 5 a symbolic link with a relative target, 6 the file through a symbolic link to its directory
// (the last component is the regular file), 7 a link to a link (short relative target), 8 a dangling link,
// 9 a link to a directory.
//
// Result: as op 10.
func c17TZ(sel int64) string {
	switch sel {
	case 0:
		return "UTC"
	case 1:
		return "Local"
	case 2:
		return "Asia/NoSuchCity"
	case 3:
		return "../UTC"
	}
	panic("badcase:tz")
}

type c17Links struct {
	dir string
	n   int
}

func (l *c17Links) must(err error) {
	if err != nil {
		os.RemoveAll(l.dir)
		panic("harness: " + err.Error())
	}
}

// a fresh link name in the scratch directory pointing at target
func (l *c17Links) link(target string) string {
	l.n++
	name := filepath.Join(l.dir, "t"+strconv.Itoa(l.n)+".big5.txt")
	l.must(os.Symlink(target, name))
	return name
}

func (l *c17Links) path(sel int64, good string) string {
	if sel <= 3 {
		return c17Path(sel, good)
	}
	abs, err := filepath.Abs(good)
	l.must(err)
	switch sel {
	case 4:
		return l.link(abs)
	case 5:
		rel, err := filepath.Rel(l.dir, abs)
		l.must(err)
		return l.link(rel)
	case 6:
		d := l.link(filepath.Dir(abs))
		return filepath.Join(d, filepath.Base(abs))
	case 7:
		first := l.link(abs)
		return l.link(filepath.Base(first))
	case 8:
		return l.link(abs + ".missing")
	case 9:
		return l.link(filepath.Dir(abs))
	}
	panic("badcase:path")
}

func c17StartScenario(args [][]string) (out []string) {
	if len(args) < 2 {
		return []string{"9"}
	}
	h := args[1]
	if os.Getenv("VERIF_C17_FRESH") == "" || c17Used {
		panic("badcase:not-fresh")
	}
	c17Used = true
	if len(h)%3 != 0 {
		panic("badcase:history")
	}
	for i, t := range h {
		v := ai(t)
		if v < 0 || (i%3 == 0 && v > 3) || v > 9 {
			panic("badcase:selector")
		}
	}
	dir, err := os.MkdirTemp("", "verif-c17-links-")
	if err != nil {
		panic("harness: " + err.Error())
	}
	defer os.RemoveAll(dir)
	links := &c17Links{dir: dir}
	goodB2U := "./types/uao250-b2u.big5.txt" // setup did chdir to the repository root
	goodU2B := "./types/uao250-u2b.big5.txt"
	sts := []string{strconv.Itoa(len(h) / 3)}
	for i := 0; i+2 < len(h); i += 3 {
		viper.Set("go-pttbbs:types.time_location", c17TZ(ai(h[i])))
		viper.Set("go-pttbbs:types.big5_to_utf8", links.path(ai(h[i+1]), goodB2U))
		viper.Set("go-pttbbs:types.utf8_to_big5", links.path(ai(h[i+2]), goodU2B))
		if err := types.InitConfig(); err != nil {
			sts = append(sts, "1")
		} else {
			sts = append(sts, "0")
		}
	}
	out = ok(sts...)
	for _, g := range args[2:] {
		out = append(out, c17Conv(g)...)
	}
	return out
}
