//go:build docker

package main

// C07: which build configuration of the repository this driver was compiled with (ptttype/01-config-docker.go,
// the production build: go build -tags docker).
const c07BuildCfg = 1
