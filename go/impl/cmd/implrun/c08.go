package main

// C08 — write authorisation. Every decision-table row is materialised (user record, board header, moderator
// cache, friend file, ban tag, cool-down word, article owner) and pushed through ptt.NewPost / Recommend /
// EditPost / CrossPost / CheckPostPerm2 / CheckPostRestriction; the index and the directory (names, sizes, mtimes)
// of EVERY board of the scratch BBS — target, cross-post source, the log boards, the rest — and the author's
// .PASSWDS record are compared before / after every call. Extended rows also plant the owner bytes of the addressed
// article and the cross-post source board (attributes, level, limits, ban, moderator, friend). Op 7 / op 8 call
// getRestrictionReason / isFileOwner on their own.

import (
	"bytes"
	"encoding/binary"
	"fmt"
	"os"
	"path/filepath"
	"sort"
	"strings"

	"github.com/Ptt-official-app/go-pttbbs/cache"
	"github.com/Ptt-official-app/go-pttbbs/cmbbs"
	"github.com/Ptt-official-app/go-pttbbs/cmsys"
	"github.com/Ptt-official-app/go-pttbbs/ptt"
	"github.com/Ptt-official-app/go-pttbbs/ptttype"
	"github.com/Ptt-official-app/go-pttbbs/types"
)

type c08Board struct {
	name     string
	bid      ptttype.Bid
	id       ptttype.BoardID_t
	base     ptttype.BoardHeaderRaw
	dir      string
	pristine map[string][]byte
}

var (
	c08w      *world
	c08boards []*c08Board // by bsel: WhoAmI (ordinary), ALLPOST (read-only), SYSOP (default board); then Note (cross-post source), ALLHIDPOST
	c08dirHdr []ptttype.FileHeaderRaw
	// every board directory a write could reach: one per board of the board cache, plus the log boards the code
	// addresses by name whether or not the fixture has them
	c08allDirs   []string
	c08extraBrds []*c08Board // boards of the cache beyond c08boards (restored after a write, never addressed)
	// op 9 (c08cfg.go): the target board is chosen by name, the read-only system boards by the site configuration;
	// op 11 (c08name.go): the target board carries the name the case chooses
	c08tbOverride *c08Board
)

func (w *world) boardDir(name string) string {
	return filepath.Join(w.env.home, "boards", name[:1], name)
}

func readDirFiles(dir string) map[string][]byte {
	m := map[string][]byte{}
	es, _ := os.ReadDir(dir)
	for _, e := range es {
		if !e.IsDir() {
			b, _ := os.ReadFile(filepath.Join(dir, e.Name()))
			m[e.Name()] = b
		}
	}
	return m
}

func (b *c08Board) restore() {
	es, _ := os.ReadDir(b.dir)
	for _, e := range es {
		if _, ok := b.pristine[e.Name()]; !ok {
			os.RemoveAll(filepath.Join(b.dir, e.Name()))
		}
	}
	for n, c := range b.pristine {
		cur, err := os.ReadFile(filepath.Join(b.dir, n))
		if err != nil || !bytes.Equal(cur, c) {
			must(os.WriteFile(filepath.Join(b.dir, n), c, 0o644))
		}
	}
	_ = cache.SetBTotal(b.bid)
}

func listing(dir string) string {
	es, _ := os.ReadDir(dir)
	names := make([]string, 0, len(es))
	for _, e := range es {
		names = append(names, e.Name())
	}
	sort.Strings(names)
	return fmt.Sprint(names)
}

// c08Snapshot: per board directory of the scratch BBS the entry names with size and mtime, and the bytes of .DIR;
// plus the list of board directories itself (a write may create one).
func c08Snapshot() string {
	sb := &strings.Builder{}
	for _, d := range c08allDirs {
		es, err := os.ReadDir(d)
		if err != nil {
			fmt.Fprintf(sb, "%s:absent;", d)
			continue
		}
		sb.WriteString(d)
		sb.WriteByte('[')
		for _, e := range es {
			sb.WriteString(e.Name())
			if info, err := e.Info(); err == nil && !e.IsDir() {
				fmt.Fprintf(sb, ":%d:%d", info.Size(), info.ModTime().UnixNano())
			}
			sb.WriteByte(' ')
		}
		sb.WriteByte(']')
		if b, err := os.ReadFile(filepath.Join(d, ".DIR")); err == nil {
			sb.Write(b)
		}
		sb.WriteByte(';')
	}
	return sb.String()
}

func c08Setup() {
	w := newWorld("CodingMan", "Kahou", "WhoAmI")
	c08w = w
	src := readDirFiles(w.boardDir("WhoAmI"))
	for _, name := range []string{"WhoAmI", "ALLPOST", "SYSOP", "Note", "ALLHIDPOST"} {
		b := &c08Board{name: name, id: toBoardID(name), dir: w.boardDir(name)}
		bid, err := cache.GetBid(&b.id)
		must(err)
		b.bid = bid
		b.base = cache.Shm.Shm.BCache[bid-1]
		must(os.MkdirAll(b.dir, 0o755))
		if name != "WhoAmI" && name != "ALLHIDPOST" { // give every target/source board the two fixture articles
			for n, c := range src {
				must(os.WriteFile(filepath.Join(b.dir, n), c, 0o644))
			}
		}
		b.pristine = readDirFiles(b.dir)
		_ = cache.SetBTotal(bid)
		c08boards = append(c08boards, b)
	}
	seen := map[string]bool{}
	for _, b := range c08boards {
		seen[b.dir] = true
		c08allDirs = append(c08allDirs, b.dir)
	}
	for i := 0; i < int(cache.Shm.Shm.BNumber); i++ {
		name := types.CstrToString(cache.Shm.Shm.BCache[i].Brdname[:])
		if name == "" || strings.ContainsAny(name, "/.") {
			continue
		}
		d := w.boardDir(name)
		if seen[d] {
			continue
		}
		seen[d] = true
		c08allDirs = append(c08allDirs, d)
		if _, err := os.Stat(d); err == nil {
			c08extraBrds = append(c08extraBrds, &c08Board{name: name, bid: ptttype.Bid(i + 1), id: toBoardID(name), dir: d, pristine: readDirFiles(d)})
		}
	}
	for _, name := range []string{"NEWIDPOST", "UNANONYMOUS", "ALLHIDPOST", "ALLPOST", "Security", "junk", "deleted"} {
		if d := w.boardDir(name); !seen[d] {
			seen[d] = true
			c08allDirs = append(c08allDirs, d)
		}
	}
	sort.Strings(c08allDirs)
	raw := src[".DIR"]
	c08dirHdr = make([]ptttype.FileHeaderRaw, len(raw)/int(ptttype.FILE_HEADER_RAW_SZ))
	must(binary.Read(bytes.NewReader(raw), binary.LittleEndian, c08dirHdr))
	must(os.MkdirAll(filepath.Join(w.env.home, "home", "C", "CodingMan", "banned"), 0o755))
}

func c08ErrCode(err error) int64 {
	switch err {
	case nil:
		return 0
	case ptt.ErrNotPermitted:
		return 1
	case ptt.ErrReadOnly:
		return 2
	case ptt.ErrBanned:
		return 3
	case ptt.ErrPermitNoPost:
		return 4
	case ptt.ErrRestricted:
		return 5
	case ptt.ErrViolateLaw:
		return 6
	case ptt.ErrCooldown:
		return 7
	case ptt.ErrNotLoginOk:
		return 8
	case ptt.ErrVoteBoard:
		return 9
	case ptt.ErrDeleted:
		return 10
	case ptttype.ErrInvalidFilename:
		return 11
	case ptt.ErrInvalidParams:
		return 12
	case cmsys.ErrRecordNotFound:
		return 13
	}
	return 19
}

func c08Bytes(toks []string, max int) []byte {
	if len(toks) > max {
		panic("badcase:len")
	}
	for _, t := range toks {
		if v := ai(t); v < 0 || v > 255 {
			panic("badcase:" + t)
		}
	}
	return ab(toks)
}

func c08Range(s string, max uint64) uint64 {
	v := ai(s)
	if v < 0 || uint64(v) > max {
		panic("badcase:" + s)
	}
	return uint64(v)
}

// op 7: getRestrictionReason(numLoginDays uint32, badPost, postLimitLogins, postLimitBadpost uint8)
func c08RunReason(args [][]string) []string {
	if len(args) != 2 || len(args[1]) != 4 {
		return []string{"9"}
	}
	a := args[1]
	reason, err := ptt.VerifGetRestrictionReason(uint32(c08Range(a[0], 0xffffffff)), uint8(c08Range(a[1], 255)), uint8(c08Range(a[2], 255)), uint8(c08Range(a[3], 255)))
	if err != nil {
		return errs(1)
	}
	return ok(oi(int64(reason)))
}

// op 8: isFileOwner(&FileHeaderRaw{Owner, Filename}, &UserecRaw{UserID, FirstLogin})
func c08RunOwner(args [][]string) []string {
	if len(args) != 5 || len(args[4]) != 1 {
		return []string{"9"}
	}
	owner, uid, fname := c08Bytes(args[1], 14), c08Bytes(args[2], 13), c08Bytes(args[3], 28)
	fl := ai(args[4][0])
	if fl < -2147483648 || fl > 2147483647 {
		return []string{"9"}
	}
	fhdr := &ptttype.FileHeaderRaw{}
	copy(fhdr.Owner[:], owner)
	copy(fhdr.Filename[:], fname)
	user := &ptttype.UserecRaw{}
	copy(user.UserID[:], uid)
	user.FirstLogin = types.Time4(fl)
	return ok(obool(ptt.VerifIsFileOwner(fhdr, user)))
}

func c08Run(args [][]string) []string {
	w := c08w
	op := ai(args[0][0])
	if op == 7 {
		return c08RunReason(args)
	}
	if op == 8 {
		return c08RunOwner(args)
	}
	if op == 9 {
		return c08RunConfigured(args)
	}
	if op == 10 {
		return c08RunAsUID(args)
	}
	if op == 11 {
		return c08RunNamed(args)
	}
	if op < 1 || op > 6 || (len(args) != 5 && len(args) != 8) {
		return []string{"9"}
	}
	u, rel, bd, art := args[1], args[2], args[3], args[4]
	if len(u) != 5 || len(rel) != 5 || len(bd) != 6 || len(art) != 2 {
		return []string{"9"}
	}
	level, o18, logindays, badpost, regbefore := uint32(au(u[0])), ai(u[1]) != 0, uint32(au(u[2])), uint8(au(u[3])), ai(u[4]) != 0
	inbm, fr, ban, cdRel, pt := ai(rel[0]) != 0, ai(rel[1]) != 0, ai(rel[2]), ai(rel[3]), ai(rel[4])
	bsel, battr, blevel, limLogins, limBad, nuser := ai(bd[0]), uint32(au(bd[1])), uint32(au(bd[2])), uint8(au(bd[3])), uint8(au(bd[4])), int32(ai(bd[5]))
	aExists, aOwner := ai(art[0]) != 0, ai(art[1])
	if bsel < 0 || bsel > 2 {
		return []string{"9"}
	}
	tb := c08boards[bsel]
	if c08tbOverride != nil {
		tb = c08tbOverride
	}
	note := c08boards[3]
	now := types.NowTS()

	// the owner field of the addressed article and the cross-post source board
	var ownerBytes []byte
	var sattr, slevel uint32
	var slimLogins, slimBad uint8
	var sban int64
	var sinbm, sfr bool
	switch {
	case len(args) == 5 && aOwner == 1:
		ownerBytes = types.CstrToBytes(w.userID[:])
	case len(args) == 5 && aOwner == 0:
		ownerBytes = types.CstrToBytes(w.otherID[:])
	case len(args) == 8 && aOwner == 2:
		ownerBytes = c08Bytes(args[5], 14)
		uidBytes := c08Bytes(args[6], 13)
		if !bytes.Equal(types.CstrToBytes(append(append([]byte{}, uidBytes...), 0)), types.CstrToBytes(w.userID[:])) {
			return []string{"9"} // the caller of the four operations is the fixture user
		}
		sg := args[7]
		if len(sg) != 7 {
			return []string{"9"}
		}
		sattr, slevel, slimLogins, slimBad = uint32(au(sg[0])), uint32(au(sg[1])), uint8(au(sg[2])), uint8(au(sg[3]))
		sban, sinbm, sfr = ai(sg[4]), ai(sg[5]) != 0, ai(sg[6]) != 0
	default:
		return []string{"9"}
	}

	// ---- plant
	w.plantUser(level, o18, func(r *ptttype.UserecRaw) {
		r.NumLoginDays = logindays
		r.BadPost = badpost
		r.NumPosts = 100
		if regbefore {
			r.FirstLogin = 1000
		} else {
			r.FirstLogin = 2000000000
		}
	})
	plantTag := func(name string, ban int64) {
		me := types.CstrToString(w.userID[:])
		tag := filepath.Join(w.env.home, "home", me[:1], me, "banned", "b_"+name)
		switch ban {
		case 0:
			os.Remove(tag)
		case 1:
			must(os.WriteFile(tag, []byte(fmt.Sprintf("%d\nverif\n", int64(now)+1000)), 0o644))
		default:
			must(os.WriteFile(tag, []byte(fmt.Sprintf("%d\nverif\n", int64(now)-1000)), 0o644))
		}
	}
	// the source board of a cross-post (Note): planted on every row, so that the three other operations are
	// also run next to a board that would refuse the caller
	w.bid, w.boardID, w.baseBoard = note.bid, note.id, note.base
	w.plantBoard(sattr, slevel, sinbm, sfr, false, func(b *ptttype.BoardHeaderRaw) {
		b.PostLimitLogins = slimLogins
		b.PostLimitBadpost = slimBad
	})
	plantTag(note.name, sban)
	w.bid, w.boardID, w.baseBoard = tb.bid, tb.id, tb.base
	w.plantBoard(battr, blevel, inbm, fr, false, func(b *ptttype.BoardHeaderRaw) {
		b.PostLimitLogins = limLogins
		b.PostLimitBadpost = limBad
		b.NUser = nuser
	})
	plantTag(tb.name, ban)
	cache.Shm.Shm.CooldownTime[w.uid-1] = types.Time4((int64(now)+cdRel)&0x7FFFFFF0) | types.Time4(pt&0xf)
	hdrs := make([]ptttype.FileHeaderRaw, len(c08dirHdr))
	copy(hdrs, c08dirHdr)
	hdrs[0].Owner = ptttype.Owner_t{}
	copy(hdrs[0].Owner[:], ownerBytes)
	buf := &bytes.Buffer{}
	must(binary.Write(buf, binary.LittleEndian, hdrs))
	dirFile := filepath.Join(tb.dir, ".DIR")
	if cur, err := os.ReadFile(dirFile); err != nil || !bytes.Equal(cur, buf.Bytes()) {
		must(os.WriteFile(dirFile, buf.Bytes(), 0o644))
	}
	_ = cache.SetBTotal(tb.bid)

	fn := &ptttype.Filename_t{}
	if aExists {
		copy(fn[:], c07Article)
	} else {
		copy(fn[:], "M.1607209999.A.ABC")
	}
	user := w.user
	board := &cache.Shm.Shm.BCache[tb.bid-1]
	ip := &ptttype.IPv4_t{}
	copy(ip[:], "127.0.0.1")

	if op == 5 { // the exported pieces of the rule set
		e1 := ptt.CheckPostPerm2(w.uid, &user, tb.bid, board)
		ok2 := ptt.CheckPostRestriction(&user, w.uid, board, tb.bid)
		cd, _ := ptt.VerifCheckCooldown(&user, w.uid, board, tb.bid)
		return ok(oi(c08ErrCode(e1)), obool(!ok2), obool(cd))
	}
	if op == 6 {
		return []string{"9"}
	}

	// ---- before
	dir0, _ := os.ReadFile(dirFile)
	es0, _ := os.ReadDir(tb.dir)
	snap0 := c08Snapshot()
	rec0, _ := cmbbs.PasswdQuery(w.uid)

	var err error
	switch op {
	case 1:
		_, err = ptt.NewPost(&user, w.uid, &tb.id, tb.bid, []byte("test"), []byte("verif title"), [][]byte{[]byte("line 1"), []byte("line 2")}, ip, []byte("verif"))
	case 2:
		_, _, err = ptt.Recommend(&user, w.uid, &tb.id, tb.bid, fn, ptttype.COMMENT_TYPE_RECOMMEND, []byte("push"), ip, []byte("verif"))
	case 3:
		content := tb.pristine[c07Article]
		sum := cmsys.Fnv64Buf(content, len(content), cmsys.FNV1_64_INIT)
		_, _, _, err = ptt.EditPost(&user, w.uid, &tb.id, tb.bid, fn, []byte("test"), []byte("edited"), [][]byte{[]byte("new line")}, len(content), sum, ip, []byte("verif"))
	case 4:
		_, _, _, err = ptt.CrossPost(&user, w.uid, &note.id, note.bid, fn, &tb.id, tb.bid, ptttype.FILE_LOCAL, ip, []byte("verif"))
	}
	code := c08ErrCode(err)

	// ---- after
	dir1, _ := os.ReadFile(dirFile)
	snap1 := c08Snapshot()
	rec1, _ := cmbbs.PasswdQuery(w.uid)
	dDir := (len(dir1) - len(dir0)) / int(ptttype.FILE_HEADER_RAW_SZ)
	es1, _ := os.ReadDir(tb.dir)
	dFiles := len(es1) - len(es0)
	dPosts := int64(rec1.NumPosts) - int64(rec0.NumPosts)
	trace := 0
	if code != 0 {
		b0, b1 := &bytes.Buffer{}, &bytes.Buffer{}
		_ = binary.Write(b0, binary.LittleEndian, rec0)
		_ = binary.Write(b1, binary.LittleEndian, rec1)
		if snap0 != snap1 || !bytes.Equal(b0.Bytes(), b1.Bytes()) {
			trace = 1
		}
	}
	if code == 0 || trace != 0 || snap0 != snap1 {
		for _, b := range c08boards {
			b.restore()
		}
		for _, b := range c08extraBrds {
			b.restore()
		}
		for _, d := range c08allDirs { // a board directory that did not exist before
			known := false
			for _, b := range c08boards {
				known = known || b.dir == d
			}
			for _, b := range c08extraBrds {
				known = known || b.dir == d
			}
			if !known {
				os.RemoveAll(d)
			}
		}
	}
	if code == 19 && os.Getenv("VERIF_SHOW_PANIC") != "" {
		fmt.Fprintln(os.Stderr, "other error:", err)
	}
	if trace != 0 && os.Getenv("VERIF_SHOW_PANIC") != "" {
		fmt.Fprintf(os.Stderr, "trace:\nbefore %q\nafter  %q\n", snap0, snap1)
	}
	return ok(oi(code), oi(int64(dDir)), oi(int64(dFiles)), oi(dPosts), oi(int64(trace)))
}

func init() {
	register("C08", &propDriver{
		setup:    c08Setup,
		teardown: func() { c08w.close() },
		run:      c08Run,
	})
}
