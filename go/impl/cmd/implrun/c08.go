package main

// C08 — write authorisation. Every decision-table row is materialised (user record, board header, moderator
// cache, friend file, ban tag, cool-down word, article owner) and pushed through ptt.NewPost / Recommend /
// EditPost / CrossPost / CheckPostPerm2 / CheckPostRestriction; the target board's .DIR, its directory listing
// and the author's .PASSWDS record are compared before / after every call.

import (
	"bytes"
	"encoding/binary"
	"fmt"
	"os"
	"path/filepath"
	"sort"

	"github.com/Ptt-official-app/go-pttbbs/cache"
	"github.com/Ptt-official-app/go-pttbbs/cmbbs"
	"github.com/Ptt-official-app/go-pttbbs/cmsys"
	"github.com/Ptt-official-app/go-pttbbs/ptt"
	"github.com/Ptt-official-app/go-pttbbs/ptttype"
	"github.com/Ptt-official-app/go-pttbbs/types"
)

type c08Board struct {
	name     string
	bid      ptttype.Bid
	id       ptttype.BoardID_t
	base     ptttype.BoardHeaderRaw
	dir      string
	pristine map[string][]byte
}

var (
	c08w      *world
	c08boards []*c08Board // by bsel: WhoAmI (ordinary), ALLPOST (read-only), SYSOP (default board); then Note (cross-post source), ALLHIDPOST
	c08dirHdr []ptttype.FileHeaderRaw
)

func (w *world) boardDir(name string) string {
	return filepath.Join(w.env.home, "boards", name[:1], name)
}

func readDirFiles(dir string) map[string][]byte {
	m := map[string][]byte{}
	es, _ := os.ReadDir(dir)
	for _, e := range es {
		if !e.IsDir() {
			b, _ := os.ReadFile(filepath.Join(dir, e.Name()))
			m[e.Name()] = b
		}
	}
	return m
}

func (b *c08Board) restore() {
	es, _ := os.ReadDir(b.dir)
	for _, e := range es {
		if _, ok := b.pristine[e.Name()]; !ok {
			os.RemoveAll(filepath.Join(b.dir, e.Name()))
		}
	}
	for n, c := range b.pristine {
		cur, err := os.ReadFile(filepath.Join(b.dir, n))
		if err != nil || !bytes.Equal(cur, c) {
			must(os.WriteFile(filepath.Join(b.dir, n), c, 0o644))
		}
	}
	_ = cache.SetBTotal(b.bid)
}

func listing(dir string) string {
	es, _ := os.ReadDir(dir)
	names := make([]string, 0, len(es))
	for _, e := range es {
		names = append(names, e.Name())
	}
	sort.Strings(names)
	return fmt.Sprint(names)
}

func c08Setup() {
	w := newWorld("CodingMan", "Kahou", "WhoAmI")
	c08w = w
	src := readDirFiles(w.boardDir("WhoAmI"))
	for _, name := range []string{"WhoAmI", "ALLPOST", "SYSOP", "Note", "ALLHIDPOST"} {
		b := &c08Board{name: name, id: toBoardID(name), dir: w.boardDir(name)}
		bid, err := cache.GetBid(&b.id)
		must(err)
		b.bid = bid
		b.base = cache.Shm.Shm.BCache[bid-1]
		must(os.MkdirAll(b.dir, 0o755))
		if name != "WhoAmI" && name != "ALLHIDPOST" { // give every target/source board the two fixture articles
			for n, c := range src {
				must(os.WriteFile(filepath.Join(b.dir, n), c, 0o644))
			}
		}
		b.pristine = readDirFiles(b.dir)
		_ = cache.SetBTotal(bid)
		c08boards = append(c08boards, b)
	}
	raw := src[".DIR"]
	c08dirHdr = make([]ptttype.FileHeaderRaw, len(raw)/int(ptttype.FILE_HEADER_RAW_SZ))
	must(binary.Read(bytes.NewReader(raw), binary.LittleEndian, c08dirHdr))
	must(os.MkdirAll(filepath.Join(w.env.home, "home", "C", "CodingMan", "banned"), 0o755))
}

func c08ErrCode(err error) int64 {
	switch err {
	case nil:
		return 0
	case ptt.ErrNotPermitted:
		return 1
	case ptt.ErrReadOnly:
		return 2
	case ptt.ErrBanned:
		return 3
	case ptt.ErrPermitNoPost:
		return 4
	case ptt.ErrRestricted:
		return 5
	case ptt.ErrViolateLaw:
		return 6
	case ptt.ErrCooldown:
		return 7
	case ptt.ErrNotLoginOk:
		return 8
	case ptt.ErrVoteBoard:
		return 9
	case ptt.ErrDeleted:
		return 10
	case ptttype.ErrInvalidFilename:
		return 11
	case ptt.ErrInvalidParams:
		return 12
	case cmsys.ErrRecordNotFound:
		return 13
	}
	return 19
}

func c08Run(args [][]string) []string {
	w := c08w
	op := ai(args[0][0])
	if op < 1 || op > 6 || len(args) != 5 {
		return []string{"9"}
	}
	u, rel, bd, art := args[1], args[2], args[3], args[4]
	level, o18, logindays, badpost, regbefore := uint32(au(u[0])), ai(u[1]) != 0, uint32(au(u[2])), uint8(au(u[3])), ai(u[4]) != 0
	inbm, fr, ban, cdRel, pt := ai(rel[0]) != 0, ai(rel[1]) != 0, ai(rel[2]), ai(rel[3]), ai(rel[4])
	bsel, battr, blevel, limLogins, limBad, nuser := ai(bd[0]), uint32(au(bd[1])), uint32(au(bd[2])), uint8(au(bd[3])), uint8(au(bd[4])), int32(ai(bd[5]))
	aExists, aOwner := ai(art[0]) != 0, ai(art[1]) != 0
	if bsel < 0 || bsel > 2 {
		return []string{"9"}
	}
	tb := c08boards[bsel]
	note := c08boards[3]
	now := types.NowTS()

	// ---- plant
	w.bid, w.boardID, w.baseBoard = tb.bid, tb.id, tb.base
	w.plantUser(level, o18, func(r *ptttype.UserecRaw) {
		r.NumLoginDays = logindays
		r.BadPost = badpost
		r.NumPosts = 100
		if regbefore {
			r.FirstLogin = 1000
		} else {
			r.FirstLogin = 2000000000
		}
	})
	w.plantBoard(battr, blevel, inbm, fr, false, func(b *ptttype.BoardHeaderRaw) {
		b.PostLimitLogins = limLogins
		b.PostLimitBadpost = limBad
		b.NUser = nuser
	})
	tag := filepath.Join(w.env.home, "home", "C", "CodingMan", "banned", "b_"+tb.name)
	switch ban {
	case 0:
		os.Remove(tag)
	case 1:
		must(os.WriteFile(tag, []byte(fmt.Sprintf("%d\nverif\n", int64(now)+1000)), 0o644))
	default:
		must(os.WriteFile(tag, []byte(fmt.Sprintf("%d\nverif\n", int64(now)-1000)), 0o644))
	}
	cache.Shm.Shm.CooldownTime[w.uid-1] = types.Time4((int64(now)+cdRel)&0x7FFFFFF0) | types.Time4(pt&0xf)
	hdrs := make([]ptttype.FileHeaderRaw, len(c08dirHdr))
	copy(hdrs, c08dirHdr)
	hdrs[0].Owner = ptttype.Owner_t{}
	if aOwner {
		copy(hdrs[0].Owner[:], w.userID[:])
	} else {
		copy(hdrs[0].Owner[:], w.otherID[:])
	}
	buf := &bytes.Buffer{}
	must(binary.Write(buf, binary.LittleEndian, hdrs))
	dirFile := filepath.Join(tb.dir, ".DIR")
	must(os.WriteFile(dirFile, buf.Bytes(), 0o644))
	_ = cache.SetBTotal(tb.bid)

	fn := &ptttype.Filename_t{}
	if aExists {
		copy(fn[:], c07Article)
	} else {
		copy(fn[:], "M.1607209999.A.ABC")
	}
	user := w.user
	board := &cache.Shm.Shm.BCache[tb.bid-1]
	ip := &ptttype.IPv4_t{}
	copy(ip[:], "127.0.0.1")

	if op == 5 { // the exported pieces of the rule set
		e1 := ptt.CheckPostPerm2(w.uid, &user, tb.bid, board)
		ok2 := ptt.CheckPostRestriction(&user, w.uid, board, tb.bid)
		cd, _ := ptt.VerifCheckCooldown(&user, w.uid, board, tb.bid)
		return ok(oi(c08ErrCode(e1)), obool(!ok2), obool(cd))
	}
	if op == 6 {
		return []string{"9"}
	}

	// ---- before
	dir0, _ := os.ReadFile(dirFile)
	ls0 := listing(tb.dir)
	rec0, _ := cmbbs.PasswdQuery(w.uid)

	var err error
	switch op {
	case 1:
		_, err = ptt.NewPost(&user, w.uid, &tb.id, tb.bid, []byte("test"), []byte("verif title"), [][]byte{[]byte("line 1"), []byte("line 2")}, ip, []byte("verif"))
	case 2:
		_, _, err = ptt.Recommend(&user, w.uid, &tb.id, tb.bid, fn, ptttype.COMMENT_TYPE_RECOMMEND, []byte("push"), ip, []byte("verif"))
	case 3:
		content := tb.pristine[c07Article]
		sum := cmsys.Fnv64Buf(content, len(content), cmsys.FNV1_64_INIT)
		_, _, _, err = ptt.EditPost(&user, w.uid, &tb.id, tb.bid, fn, []byte("test"), []byte("edited"), [][]byte{[]byte("new line")}, len(content), sum, ip, []byte("verif"))
	case 4:
		_, _, _, err = ptt.CrossPost(&user, w.uid, &note.id, note.bid, fn, &tb.id, tb.bid, ptttype.FILE_LOCAL, ip, []byte("verif"))
	}
	code := c08ErrCode(err)

	// ---- after
	dir1, _ := os.ReadFile(dirFile)
	ls1 := listing(tb.dir)
	rec1, _ := cmbbs.PasswdQuery(w.uid)
	dDir := (len(dir1) - len(dir0)) / int(ptttype.FILE_HEADER_RAW_SZ)
	es0, _ := os.ReadDir(tb.dir)
	dFiles := len(es0) - len(tb.pristine)
	dPosts := int64(rec1.NumPosts) - int64(rec0.NumPosts)
	trace := 0
	if code != 0 {
		b0, b1 := &bytes.Buffer{}, &bytes.Buffer{}
		_ = binary.Write(b0, binary.LittleEndian, rec0)
		_ = binary.Write(b1, binary.LittleEndian, rec1)
		if !bytes.Equal(dir0, dir1) || ls0 != ls1 || !bytes.Equal(b0.Bytes(), b1.Bytes()) {
			trace = 1
		}
	}
	if code == 0 || trace != 0 || ls0 != ls1 {
		tb.restore()
		note.restore()
		c08boards[1].restore()
		c08boards[4].restore()
	}
	if code == 19 && os.Getenv("VERIF_SHOW_PANIC") != "" {
		fmt.Fprintln(os.Stderr, "other error:", err)
	}
	return ok(oi(code), oi(int64(dDir)), oi(int64(dFiles)), oi(dPosts), oi(int64(trace)))
}

func init() {
	register("C08", &propDriver{
		setup:    c08Setup,
		teardown: func() { c08w.close() },
		run:      c08Run,
	})
}
