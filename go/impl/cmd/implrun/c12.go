package main

// C12 — creating boards. A case writes an initial .BRD (slots given by their meaningful fields, every
// other byte a fill value) and a set of board directories into the scratch BBSHOME, reloads shared
// memory from it, then issues creation requests through bbs.CreateBoard (via = 0) or through
// api.CreateBoardWrapper on an in-process gin router (via = 1). After the reload and after every
// request the whole observable state is printed: .BRD slot checksums, shared-memory copy checksums,
// moderator cache, both sorted indexes, board count, GetBid of every pool name, directories; after
// the marker -777 the same slots once more as big numbers (all bytes) for the direct predicates.

import (
	"bytes"
	"encoding/binary"
	"encoding/json"
	"math/big"
	"net/http/httptest"
	"os"
	"path/filepath"
	"sort"
	"strings"

	"github.com/Ptt-official-app/go-pttbbs/api"
	"github.com/Ptt-official-app/go-pttbbs/bbs"
	"github.com/Ptt-official-app/go-pttbbs/cache"
	"github.com/Ptt-official-app/go-pttbbs/cmbbs"
	"github.com/Ptt-official-app/go-pttbbs/ptt"
	"github.com/Ptt-official-app/go-pttbbs/ptttype"
	"github.com/gin-gonic/gin"
)

const c12Slot = 256

func c12Fletcher(b []byte) (string, string) {
	var s1, s2 int64
	for _, c := range b {
		s1 += int64(c) + 1
		s2 += s1
	}
	return oi(s1), oi(s2)
}

func c12ErrCode(err error) int64 {
	switch {
	case err == nil:
		return 0
	case err == ptttype.ErrInvalidBid:
		return 1
	case err == ptt.ErrNotPermitted:
		return 2
	case err == ptttype.ErrInvalidBoardID:
		return 3
	case err == ptttype.ErrBoardIDAlreadyExists:
		return 4
	case os.IsExist(err):
		return 5
	case err == ptt.ErrTooManyBoards:
		return 6
	}
	return 7
}

func c12MsgCode(msg string) int64 {
	switch msg {
	case ptttype.ErrInvalidBid.Error():
		return 1
	case ptt.ErrNotPermitted.Error():
		return 2
	case ptttype.ErrInvalidBoardID.Error():
		return 3
	case ptttype.ErrBoardIDAlreadyExists.Error():
		return 4
	case ptt.ErrTooManyBoards.Error():
		return 6
	}
	if strings.Contains(msg, "file exists") {
		return 5
	}
	return 7
}

func c12CacheBytes(i int) []byte {
	buf := &bytes.Buffer{}
	_ = binary.Write(buf, binary.LittleEndian, &cache.Shm.Shm.BCache[i])
	return buf.Bytes()
}

func c12Big(b []byte) string {
	if len(b) == 0 {
		return "0"
	}
	// leading 1 keeps leading zero bytes
	return new(big.Int).SetBytes(append([]byte{1}, b...)).String()
}

type c12Req struct {
	uid                       int64
	cls                       int64
	attr, level, chess, group int64
	uname                     []byte
	name, class, title        []byte
	bms                       [][]byte
}

func c12TakeStr(g []string) ([]byte, []string) {
	n := int(ai(g[0]))
	return ab(g[1 : 1+n]), g[1+n:]
}

func c12ParseReq(g []string) *c12Req {
	r := &c12Req{uid: ai(g[0]), cls: ai(g[2]), attr: ai(g[3]), level: ai(g[4]), chess: ai(g[5]), group: ai(g[6])}
	rest := g[7:]
	r.uname, rest = c12TakeStr(rest)
	r.name, rest = c12TakeStr(rest)
	r.class, rest = c12TakeStr(rest)
	r.title, rest = c12TakeStr(rest)
	if len(rest) > 0 {
		nb := int(ai(rest[0]))
		rest = rest[1:]
		for i := 0; i < nb; i++ {
			var b []byte
			b, rest = c12TakeStr(rest)
			r.bms = append(r.bms, b)
		}
	}
	return r
}

func c12Cstr(b []byte) string {
	if i := bytes.IndexByte(b, 0); i >= 0 {
		b = b[:i]
	}
	return string(b)
}

func init() {
	var env *bbsEnv
	var router *gin.Engine
	tokens := map[string]string{}

	mkSlot := func(g []string) []byte {
		b := make([]byte, c12Slot)
		fill := byte(ai(g[105]))
		for i := range b {
			b[i] = fill
		}
		copy(b[0:13], ab(g[0:13]))
		copy(b[13:62], ab(g[13:62]))
		copy(b[62:101], ab(g[62:101]))
		binary.LittleEndian.PutUint32(b[104:], uint32(ai(g[101])))
		b[108] = byte(ai(g[102]))
		binary.LittleEndian.PutUint32(b[124:], uint32(ai(g[103])))
		binary.LittleEndian.PutUint32(b[132:], uint32(ai(g[104])))
		return b
	}

	boardsDir := func() string { return filepath.Join(env.home, "boards") }

	// every directory below boards/<c>/ (any depth), relative to boards/
	listDirs := func() []string {
		var out []string
		root := boardsDir()
		_ = filepath.Walk(root, func(p string, info os.FileInfo, err error) error {
			if err != nil || !info.IsDir() {
				return nil
			}
			rel, _ := filepath.Rel(root, p)
			if strings.Count(rel, string(os.PathSeparator)) >= 1 {
				out = append(out, rel)
			}
			return nil
		})
		sort.Strings(out)
		return out
	}

	observe := func(code, bid int64, pool [][]byte) []string {
		out := []string{oi(code), oi(bid)}
		bnum := int(cache.Shm.GetBNumber())
		out = append(out, oi(int64(bnum)))
		file, _ := os.ReadFile(filepath.Join(env.home, ".BRD"))
		nfile := len(file) / c12Slot
		if len(file)%c12Slot != 0 {
			nfile = -1 - len(file) // a torn file never compares equal to the model
		}
		out = append(out, oi(int64(nfile)))
		for i := 0; i < nfile; i++ {
			a, b := c12Fletcher(file[i*c12Slot : (i+1)*c12Slot])
			out = append(out, a, b)
		}
		k := nfile
		if bnum > k {
			k = bnum
		}
		k++
		if k > ptttype.MAX_BOARD {
			k = ptttype.MAX_BOARD
		}
		out = append(out, oi(int64(k)))
		for i := 0; i < k; i++ {
			a, b := c12Fletcher(c12CacheBytes(i))
			out = append(out, a, b)
		}
		tailZero := int64(1)
		for i := k; i < ptttype.MAX_BOARD && tailZero == 1; i++ {
			for _, c := range c12CacheBytes(i) {
				if c != 0 {
					tailZero = 0
					break
				}
			}
		}
		out = append(out, oi(tailZero))
		for i := 0; i < k; i++ {
			for j := 0; j < 4; j++ {
				out = append(out, oi(int64(cache.Shm.Shm.BMCache[i][j])))
			}
		}
		for s := 0; s < 2; s++ {
			for i := 0; i < bnum && i < ptttype.MAX_BOARD; i++ {
				out = append(out, oi(int64(cache.Shm.Shm.BSorted[s][i])))
			}
		}
		for _, n := range pool {
			id := &ptttype.BoardID_t{}
			copy(id[:], n)
			b, err := cache.GetBid(id)
			if err != nil {
				b = -1
			}
			out = append(out, oi(int64(b)))
		}
		dirs := listDirs()
		have := map[string]bool{}
		for _, d := range dirs {
			have[d] = true
		}
		for _, n := range pool {
			s := c12Cstr(n)
			f := "0"
			if len(s) > 0 && have[filepath.Join(s[:1], s)] {
				f = "1"
			}
			out = append(out, f)
		}
		out = append(out, oi(int64(len(dirs))))
		if code == 0 && bid >= 1 && bid <= ptttype.MAX_BOARD {
			i := int(bid - 1)
			if i < nfile {
				out = append(out, ob(file[i*c12Slot:(i+1)*c12Slot])...)
			} else {
				out = append(out, ob(make([]byte, c12Slot))...)
			}
			out = append(out, ob(c12CacheBytes(i))...)
		}
		// implementation-only part: every byte, for the direct predicates of the check
		out = append(out, "-777", oi(int64(nfile)))
		for i := 0; i < nfile; i++ {
			out = append(out, c12Big(file[i*c12Slot:(i+1)*c12Slot]))
		}
		out = append(out, oi(int64(k)))
		for i := 0; i < k; i++ {
			out = append(out, c12Big(c12CacheBytes(i)))
		}
		out = append(out, oi(int64(len(dirs))))
		for _, d := range dirs {
			out = append(out, c12Big([]byte(d)))
		}
		return out
	}

	create := func(r *c12Req, via int64) (int64, int64) {
		uidp, err := cache.GetUserID(ptttype.UID(r.uid))
		if err != nil {
			return 8, 0
		}
		user := bbs.UUserID(c12Cstr(uidp[:]))
		bms := make([]bbs.UUserID, len(r.bms))
		for i, b := range r.bms {
			bms[i] = bbs.UUserID(string(b))
		}
		if via == 0 {
			s, err := bbs.CreateBoard(user, ptttype.Bid(r.cls), string(r.name), r.class, r.title, bms,
				ptttype.BrdAttr(uint32(r.attr)), ptttype.PERM(uint32(r.level)), ptttype.ChessCode(byte(r.chess)), r.group != 0)
			if err != nil {
				return c12ErrCode(err), 0
			}
			return 0, int64(s.Bid)
		}
		tok, have := tokens[string(user)]
		if !have {
			tok, _, _ = api.CreateToken(user, "")
			tokens[string(user)] = tok
		}
		body, _ := json.Marshal(&api.CreateBoardParams{Brdname: string(r.name), BrdClass: r.class, BrdTitle: r.title, BMs: bms,
			BrdAttr: ptttype.BrdAttr(uint32(r.attr)), Level: ptttype.PERM(uint32(r.level)), ChessCountry: ptttype.ChessCode(byte(r.chess)), IsGroup: r.group != 0})
		req := httptest.NewRequest("POST", strings.Replace(api.CREATE_BOARD_R, ":cls", oi(r.cls), 1), bytes.NewReader(body))
		req.Header.Set("Content-Type", "application/json")
		req.Header.Set("Host", "localhost")
		req.Header.Set("X-Forwarded-For", "127.0.0.1")
		req.Header.Set("Authorization", "bearer "+tok)
		w := httptest.NewRecorder()
		router.ServeHTTP(w, req)
		if w.Code == 200 {
			res := &bbs.BoardSummary{}
			if json.Unmarshal(w.Body.Bytes(), res) != nil {
				return 7, 0
			}
			return 0, int64(res.Bid)
		}
		if w.Code == 500 && w.Body.Len() == 0 {
			panic("router: recovered panic") // gin.Recovery answered
		}
		if os.Getenv("VERIF_SHOW_PANIC") != "" {
			os.Stderr.WriteString("router: " + oi(int64(w.Code)) + " " + w.Body.String() + "\n")
		}
		m := map[string]interface{}{}
		_ = json.Unmarshal(w.Body.Bytes(), &m)
		msg, _ := m["Msg"].(string)
		if r.cls == 0 && strings.Contains(msg, "CreateBoardPath.ClsBid") { // binding:"required" rejects cls = 0 before the handler
			return 1, 0
		}
		return c12MsgCode(msg), 0
	}

	// scratch state of a case: directories, .BRD, shared memory reloaded from it
	prepare := func(args [][]string) (pool [][]byte, brd []byte, ns, nr int, via int64) {
		ns, nr, via = int(ai(args[0][1])), int(ai(args[0][2])), ai(args[0][3])
		for i := 0; i+13 <= len(args[1]); i += 13 {
			pool = append(pool, ab(args[1][i:i+13]))
		}
		for _, d := range listDirs() {
			os.RemoveAll(filepath.Join(boardsDir(), d))
		}
		for i := 0; i+13 <= len(args[2]); i += 13 {
			s := c12Cstr(ab(args[2][i : i+13]))
			if len(s) > 0 {
				must(os.MkdirAll(filepath.Join(boardsDir(), s[:1], s), 0o755))
			}
		}
		brd = make([]byte, 0, ns*c12Slot)
		for i := 0; i < ns; i++ {
			brd = append(brd, mkSlot(args[4+i])...)
		}
		must(os.WriteFile(filepath.Join(env.home, ".BRD"), brd, 0o644))
		env.reload(true)
		return pool, brd, ns, nr, via
	}

	register("C12", &propDriver{
		setup: func() {
			env = newBBSEnv("ptt", true)
			// the four callers: board admin, sysop-level admin, moderator, plain user
			for _, ul := range [][2]int64{{2, 1 | 8 | 16 | 8192}, {5, 1 | 8 | 16 | 8192 | 16384}, {3, 1 | 8 | 16 | 1024}, {4, 1 | 8 | 16}} {
				u, err := cmbbs.PasswdQuery(ptttype.UID(ul[0]))
				must(err)
				u.UserLevel = ptttype.PERM(uint32(ul[1]))
				must(cmbbs.PasswdUpdate(ptttype.UID(ul[0]), u))
			}
			gin.SetMode(gin.ReleaseMode)
			router = gin.New()
			router.Use(gin.CustomRecovery(func(c *gin.Context, rec interface{}) { c.Status(500) }))
			router.POST(api.CREATE_BOARD_R, api.CreateBoardWrapper)
		},
		teardown: func() { env.close() },
		run: func(args [][]string) []string {
			switch ai(args[0][0]) {
			case 0: // constants and the user table
				out := []string{"0", oi(ptttype.MAX_BOARD), oi(ptttype.IDLEN), oi(int64(ptttype.BOARD_HEADER_RAW_SZ)), obool(ptttype.DEFAULT_AUTOCPLOG),
					oi(int64(ptttype.BRD_SYMBOL_GROUP[0])), oi(int64(ptttype.BRD_SYMBOL_GROUP[1])), oi(int64(ptttype.BRD_SYMBOL_BOARD[0])), oi(int64(ptttype.BRD_SYMBOL_BOARD[1])),
					oi(ptttype.MAX_BMs), oi(ptttype.MAX_USERS)}
				for uid := ptttype.UID(1); uid <= ptttype.MAX_USERS; uid++ {
					id, err := cache.GetUserID(uid)
					if err != nil || id[0] == 0 {
						continue
					}
					u, err := cmbbs.PasswdQuery(uid)
					if err != nil {
						continue
					}
					out = append(out, "-1", oi(int64(uid)), ou(uint64(u.UserLevel)))
					out = append(out, ob(id[:])...)
				}
				return out
			case 1:
				pool, _, ns, nr, via := prepare(args)
				out := append([]string{"0"}, observe(0, 0, pool)...)
				for i := 0; i < nr; i++ {
					code, bid := create(c12ParseReq(args[4+ns+i]), via)
					out = append(out, "-555")
					out = append(out, observe(code, bid, pool)...)
				}
				return out
			case 6: // big tables (production build): the input of op 1, every observation printed as its difference to the previous one
				pool, brd, ns, nr, via := prepare(args)
				d := newC12Delta(brd, ns, len(pool))
				out := append([]string{"0"}, d.observe(0, 0, pool, filepath.Join(env.home, ".BRD"), listDirs())...)
				for i := 0; i < nr; i++ {
					code, bid := create(c12ParseReq(args[4+ns+i]), via)
					out = append(out, "-555")
					out = append(out, d.observe(code, bid, pool, filepath.Join(env.home, ".BRD"), listDirs())...)
				}
				return out
			case 3:
				id := &ptttype.BoardID_t{}
				copy(id[:], ab(args[1]))
				return ok(obool(id.IsValid()))
			case 4:
				ids := make([]*ptttype.UserID_t, 0, len(args)-1)
				for _, g := range args[1:] {
					u := &ptttype.UserID_t{}
					copy(u[:], ab(g))
					ids = append(ids, u)
				}
				return okb(ptttype.NewBM(ids)[:])
			}
			return []string{"9"}
		},
	})
}
