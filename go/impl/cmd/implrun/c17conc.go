package main

import (
	"bytes"
	"runtime"
	"sync"

	"github.com/Ptt-official-app/go-pttbbs/types"
)

// C17 op 13: the conversions called by several goroutines of ONE process at the same time (as the request handlers of
// the api server do). case: [13, rounds] | op bytes... | op bytes... ; group j is goroutine j's own call (op 1 = Big5ToUtf8,
// 2 = Utf8ToBig5). The answer each call gives alone is taken first, sequentially; then all goroutines start together and
// repeat their call `rounds` times. result: 0, number of answers that differ from the sequential one, then for the first
// differing call: goroutine index, -1, the answer it got. No clock is read; the verdict is "some answer differs".
func c17Concurrent(args [][]string) []string {
	rounds := int(ai(args[0][1]))
	type call struct {
		op   int64
		in   []byte
		want []byte
	}
	conv := func(op int64, in []byte) []byte {
		if op == 1 {
			return []byte(types.Big5ToUtf8(in))
		}
		return types.Utf8ToBig5(string(in))
	}
	calls := make([]call, 0, len(args)-1)
	for _, g := range args[1:] {
		if len(g) == 0 {
			return []string{"9"}
		}
		op := ai(g[0])
		if op != 1 && op != 2 {
			return []string{"9"}
		}
		in := ab(g[1:])
		calls = append(calls, call{op, in, conv(op, in)})
	}
	if runtime.GOMAXPROCS(0) < 4 {
		runtime.GOMAXPROCS(4)
	}
	var mu sync.Mutex
	diff, firstJ := 0, -1
	var firstGot []byte
	start := make(chan struct{})
	var wg sync.WaitGroup
	for j := range calls {
		wg.Add(1)
		go func(j int) {
			defer wg.Done()
			cl := calls[j]
			<-start
			for r := 0; r < rounds; r++ {
				in := append([]byte(nil), cl.in...) // a private copy: the callers share nothing
				got := conv(cl.op, in)
				if !bytes.Equal(got, cl.want) {
					mu.Lock()
					diff++
					if firstJ < 0 {
						firstJ, firstGot = j, append([]byte(nil), got...)
					}
					mu.Unlock()
				}
			}
		}(j)
	}
	close(start)
	wg.Wait()
	out := []string{"0", oi(int64(diff))}
	if firstJ >= 0 {
		out = append(out, oi(int64(firstJ)), "-1")
		out = append(out, ob(firstGot)...)
	}
	return out
}
